"""C14 - writing then reading an instrument file returns the same map; truncated files are rejected or
read with the missing samples invalid and a warning (fault enumeration over every cut length)."""
import contextlib
import io
import os
import pathlib
import re
import struct
import tempfile
import warnings

import numpy as np
from hypothesis import strategies as st

from vlib.core import HypClause, Violation
from vlib import util as U

RULE = ("Round trip: Hypothesis draws the structure of a height map - shape (1xN, Nx1, odd/even, non-square up to 24x24 "
        "quick / 40x40 thorough), sign class {positive, negative, mixed, constant, negative constant, zero}, amplitude "
        "class from << 1 quantisation step to the top of the format's range, NaN pattern {none, scattered, full row + "
        "partial column, all but one, all (Zygo only: a Code V map needs one valid sample to have a scale)}, dx, wavelength, writer target {str path, pathlib path, open file object, "
        "in-memory buffer}, writer options (Code V typ / nnb / title), reader precision 32/64.  Sample values are a "
        "strictly increasing row-major ramp (so every flip / transpose / scramble changes the array) expanded from a "
        "drawn seed.  Oracle: the array that was handed to the writer; equal shape, NaNs at identical positions, values "
        "within one quantisation step read from what was written (Zygo: wavelength/32768 per count; Code V: WVL/SSZ of "
        "the header line, parsed by the harness) plus the float32 resolution of the header fields, dx and wavelength "
        "within float32 resolution.  Fault enumeration: a case is (generated map, writer[, reader]); the check writes "
        "the file (maps up to 9x9 / 10x10 quick, 16x16 / 20x20 thorough), then for EVERY cut length len-1..0 shortens a scratch "
        "copy with os.truncate and calls the reader (read_zygo_dat / Interferogram.from_zygo_dat / read_codev_gridint); accepted outcomes: the "
        "reader raises, or it returns an array of the written shape in which every sample whose bytes/token are not "
        "completely present is NaN and a (non-deprecation, non-numeric) warning was emitted.  Code V cut points inside the "
        "final number are undecidable for any reader and cut points that only remove trailing white space lose nothing: "
        "both are counted separately and accept either outcome.  Files live in a TemporaryDirectory created and removed "
        "inside the case.  Non-trivial = non-square, or negative/mixed values, or NaNs present, or (truncation clauses) "
        "at least one cut point inside the data block (always true).  Distinct = distinct canonical JSON of the case.  "
        "Hardening pass: the map handed to a writer additionally has a drawn dtype {float64, float32, int64, int32, int16, "
        "uint16, uint8 (integer maps: rounded ramp scaled into the type's and the format's range, no NaN)} and memory "
        "layout {C, Fortran, transpose view, strided view, rot90 view, negative strides, read-only}; dx and wavelength are "
        "given as {Python float, numpy float64 / float32 scalar, 0-d float64 / float32 array, Python int, omitted -> the "
        "documented default (Interferogram dx = 0, wavelength 0.6328) / keyword form}; dx == 0 (documented 'no lateral "
        "calibration') is drawn with probability 1/4 and dx spans 1e-7 .. 1e4 mm; every array-like argument (map, 0-d dx / "
        "wavelength) is compared bit for bit with a copy taken before the call, and the Interferogram that was saved must "
        "still hold the same data / dx / wavelength.  Clause file_sequence is a history inside one process: 2-3 files of "
        "drawn kinds (zygo / interferogram / codev) with different shapes, dtypes, layouts, dx, wavelength, reader precisions "
        "are written and read either to distinct paths (all written, then all read) or one after the other through ONE "
        "re-used path, optionally through ONE re-used Interferogram object whose data / dx / wavelength attributes are "
        "re-assigned; every result is compared with its own oracle only after the last read (results kept side by side), "
        "then every result array is overwritten in place and the files are read once more.  The truncation clauses re-read "
        "the intact file after all the cut reads and require the first result again.  The Interferogram that is saved has a drawn "
        "origin: the constructor; the constructor with an explicit wavelength= AND a meta dict naming another wavelength / spacing "
        "(hand-made with key 'wavelength' or 'Wavelength', or the header dict of an earlier file); wavelength=None with the wavelength "
        "given through meta in metres (documented); or an earlier file (other map, other dx, other wavelength, other shape) loaded "
        "with from_zygo_dat after which a drawn non-empty ordered subset of {data, dx, wavelength} is re-assigned through the public "
        "attributes (data by rebinding or by writing into the loaded array) - the fields that are not re-assigned keep what was "
        "loaded and the oracle is what the object holds when it is saved; in file_sequence the object returned by the previous read "
        "may also be the one that is re-parameterised and saved next.  Every field the round trip must preserve (shape, values, NaN "
        "placement, dx, wavelength) is therefore checked after having been changed on an object whose metadata still describe its "
        "earlier state.  NaN patterns (value-pattern pass): besides none / scattered / top row + part of the last column / all but one / all, "
        "every writer (and the file_sequence and truncation clauses) is given maps whose outermost 1-2 rows / columns are entirely "
        "invalid on the top, bottom, left or right side alone, on two opposite sides, on all four sides (margin), maps whose valid "
        "samples form a (possibly ragged) block in one of the four corners, a disc with a margin inside the frame, and - as the "
        "control - a whole invalid row and column in the interior only; the evidence labels are measured from the mask that was "
        "really written ('whole invalid edge line: top/bottom/left/right', 'invalid edge lines on k side(s), valid samples: 1 / one "
        "row / one column / area', 'valid samples reach only corner ..').  The truncation clauses first judge the intact file as a "
        "round trip (shape, NaN placement, values) before the harness' model of the file layout is applied.  "
        "Round-8 hardening.  (a) Instrument-like Zygo files: the library's writer stores no camera frame and leaves the header at its defaults, "
        "every file from the instrument has both; the harness turns a file the writer produced into such a file (uint16 camera frame of 1-9 x 1-9 "
        "samples x 1-5 buckets inserted behind the 834-byte header - odd byte counts, so a phase block that is not 4-byte aligned, included - the "
        "acquisition block ac_x/y/width/height/n_buckets/range/n_bytes, cn_x/y, camera size, averaging counts, serial number, software version, "
        "comment / part name / part serial number patched at the offsets of the documented layout; phase_res 0/1/2, scale factor 1/0.5/0.25 and "
        "obliquity factor 1/1.03125 changed too when the heights stay in range, the oracle being scaled by the same exactly representable "
        "factor) and uses it (1) as the file that is read in the zygo / interferogram round trips and in file_sequence (drawn in half of the "
        "cases, any multi_intensity_action), (2) as the earlier file an Interferogram is loaded from (origin 'loaded' / 'meta-header'; what the "
        "reader returns from it is compared with the harness' own reading of the bytes), and (3) in zygo_truncation (every cut length; cuts in "
        "the camera frame lose every sample).  (b) The loaded object may be saved with nothing re-assigned (load -> save).  (c) Generations: "
        "after the first comparison what the reader returned - array + header dx / wavelength (Zygo), array (Code V), the Interferogram it "
        "built with the metadata it attached - is handed to the writer of the same pair again, to the same or another path, and read again, "
        "0-2 further times; each generation is compared with what was handed to its own writer (one quantisation step of its own file); a "
        "loaded Interferogram may be edited in place / re-labelled before it is saved again.  (d) intensity= (documented optional argument "
        "of write_zygo_dat and Interferogram: a frame of the map's shape or another) is given in 2 of 5 cases.  (e) Failing requests first "
        "(1 in 3): a path in a directory that does not exist, a 1-D map, typ='XYZ', multi_intensity_action='median' are tried and caught "
        "before the valid write / read; nothing is asserted about them.  (f) nnb as True/False, numpy.True_/False_, 1/0.  (g) Value patterns "
        "'ties' (four distinct values of both signs) and 'outlier' (one dominant sample of the opposite sign, all others 1e-4 of it).  "
        "(h) Round 9: about 1 case in 150 of the three round-trip clauses is a map with more than 2**20 samples (1300x1000, 2100x600, 1200x1100, "
        "1025x1031, 4099x257, 17x65003, 65003x17, 33x32003; Code V, whose header has no 16-bit size fields, also 3x350003, 350003x3, 2x524309, "
        "1x1048583: not a multiple of any power-of-two block of samples or rows), with every "
        "other drawn option, compared sample by sample including the positions of the invalid samples.")
ASSUMPTIONS = ["the operating system's file layer returns the bytes that were written",
               "numpy float/int conversion and IEEE-754 float32 rounding (relative 2^-24) are correct",
               "the harness' own parser of the Code V header line (tokens GRD/WVL/SSZ/NDA) and of the 834-byte Zygo "
               "layout (header_size + 4 bytes per sample, file order = rows bottom-to-top) is correct",
               "Code V typ 'FIL' (intensity apodisation, not a height map; the reader does not accept it) is outside the domain",
               "the library's writer stores no camera frame (its intensity= argument is accepted and ignored); files with a camera frame are made "
               "by the harness from written files according to the documented 834-byte header layout (offsets as in prysm/io.py:_zygo_metadata_helper) "
               "with the frame in the machine's byte order as the reader takes it; the frame that is read back is not part of the property and not asserted",
               "phase_res / scale_factor / obliquity_factor scale the heights as counts * wavelength * scale * obliquity / {4096, 32768, 131072} (MetroPro "
               "reference guide p. 12-6, the formula quoted in the reader)",
               "float32 maps / float32 wavelengths are carried by the writers in float32 arithmetic: a further 2^-19 relative "
               "term is allowed on top of the quantisation step for them (measured < 2^-22); float16 maps overflow inside "
               "the unit conversions of the clean code and are outside the domain"]

ZYGO_HEADER = 834
ZYGO_RES = 32768          # phase_res = 1 (what the writer writes)
ZYGO_MAX_COUNTS = 2.0e9   # < 2147483640 (the invalid sentinel)

SIGNS = ['pos', 'neg', 'mixed', 'mixed', 'const', 'negconst', 'zero', 'ties', 'outlier']
# NaN patterns.  'edge-*' / 'margin': whole invalid rows / columns (1-2 of them) at the named side(s) of the map, every other sample valid;
# 'corner-*': valid samples only in a block at one corner; 'aperture': a disc with a margin inside the frame; 'interior-lines': a whole
# invalid row and column that are NOT at the edge (control); 'allbut1': a single valid sample anywhere
EDGE_NANS = ['edge-top', 'edge-bottom', 'edge-left', 'edge-right', 'edge-tb', 'edge-lr', 'margin', 'margin',
             'corner-tl', 'corner-tr', 'corner-bl', 'corner-br', 'aperture', 'interior-lines']
NANS = ['none', 'none', 'none', 'scatter', 'scatter', 'rowcol', 'allbut1', 'all'] + EDGE_NANS
NANS_SOME_VALID = [k for k in NANS if k != 'all']
_SIDES = {'edge-top': 't', 'edge-bottom': 'b', 'edge-left': 'l', 'edge-right': 'r', 'edge-tb': 'tb', 'edge-lr': 'lr', 'margin': 'tblr'}
ZYGO_AMPS = [1e-3, 0.4, 3.0, 100.0, 1e4, 1e6, ZYGO_MAX_COUNTS]   # in counts (quantisation steps)
CODEV_AMPS = [1e-20, 1e-6, 1e-3, 0.5, 30.0, 999.0, 1e4, 1e7, 1e12, 1e25]      # in nm (1e-20 / 1e25: far ends that float32 still holds)
TITLES = ['CV GRD generated by prysm', 'surface 3 figure error', 'x']


# ---- map construction --------------------------------------------------------------------------
def _ramp01(shape, seed):
    """strictly increasing in row-major order, values in (0, 1): any re-ordering of samples is visible"""
    h, w = shape
    r = U.rng_of(seed, 14)
    k = np.arange(h * w, dtype=np.float64).reshape(h, w)
    return (k + 0.2 + r.uniform(0.0, 0.6, (h, w))) / (h * w)


def _nan_mask(shape, kind, seed):
    h, w = shape
    r = U.rng_of(seed, 15)
    m = np.zeros((h, w), bool)
    if kind == 'scatter':
        m = r.uniform(0, 1, (h, w)) < 0.3
        m[int(r.integers(0, h)), int(r.integers(0, w))] = True
    elif kind == 'rowcol':
        m[0, :] = True                      # one full row at the top (asymmetric under up-down flips)
        m[: max(1, h // 2), w - 1] = True   # part of the last column (asymmetric under left-right flips)
    elif kind == 'allbut1':
        m[:] = True
        m[int(r.integers(0, h)), int(r.integers(0, w))] = False
    elif kind == 'all':
        m[:] = True
    elif kind in _SIDES:
        for side in _SIDES[kind]:
            n = 1 + int(r.integers(0, 2))       # one or two whole lines
            if side == 't':
                m[:n, :] = True
            elif side == 'b':
                m[h - min(n, h):, :] = True
            elif side == 'l':
                m[:, :n] = True
            else:
                m[:, w - min(n, w):] = True
    elif kind.startswith('corner-'):
        ch, cw = 1 + int(r.integers(0, max(1, h // 2))), 1 + int(r.integers(0, max(1, w // 2)))     # size of the valid block
        m[:] = True
        rows = slice(0, ch) if kind[7] == 't' else slice(h - ch, h)
        cols = slice(0, cw) if kind[8] == 'l' else slice(w - cw, w)
        m[rows, cols] = False
        if r.integers(0, 2):
            m[rows, cols] |= r.uniform(0, 1, m[rows, cols].shape) < 0.3       # ragged inside the block
    elif kind == 'aperture':
        yy, xx = np.mgrid[:h, :w]
        cy, cx = (h - 1) / 2.0 + float(r.uniform(-0.5, 0.5)), (w - 1) / 2.0 + float(r.uniform(-0.5, 0.5))
        m = np.hypot(yy - cy, xx - cx) > max(0.6, min(h, w) / 2.0 - (1.1 + float(r.uniform(0, 1))))
    elif kind == 'interior-lines':
        if h >= 3:
            m[int(r.integers(1, h - 1)), :] = True
        if w >= 3:
            m[:, int(r.integers(1, w - 1))] = True
    if kind != 'all' and m.all():
        # every other pattern keeps at least one valid sample (1x1, 1xN maps)
        m[int(r.integers(0, h)), int(r.integers(0, w))] = False
    return m


def build_map(case, unit):
    """values = unit * amp * f(ramp); returns (array with NaNs, class labels)"""
    shape = tuple(case['shape'])
    ramp = _ramp01(shape, case['seed'])
    s = case['sign']
    if s == 'ties':         # four distinct values of both signs, many exact ties
        f = np.round(ramp * 3.0) / 3.0 - 0.37
    elif s == 'outlier':    # one dominant sample of the opposite sign; every other height is 1e-4 of it or less
        f = 1e-4 * (ramp - 0.3)
        f[np.unravel_index(int(U.rng_of(case['seed'], 16).integers(0, f.size)), shape)] = -1.0
    else:
        f = {'pos': 0.05 + 0.95 * ramp, 'neg': -(0.05 + 0.95 * ramp), 'mixed': ramp - 0.37,
             'const': np.full(shape, 0.63), 'negconst': np.full(shape, -0.63), 'zero': np.zeros(shape)}[s]
    z = unit * case['amp'] * f
    m = _nan_mask(shape, case['nan'], case['seed'])
    z = np.where(m, np.nan, z)
    return z, m


# ---- dtype / memory layout / scalar form of the arguments (hardening pass) ---------------------------
MAP_DTYPES = ['f8', 'f8', 'f8', 'f8', 'f8', 'f4', 'f4', 'f4', 'f4', 'i8', 'i4', 'i2', 'u2', 'u1']
MAP_LAYOUTS = ['C', 'C', 'F', 'T-view', 'strided', 'rot90', 'negstride', 'readonly']
SCALAR_FORMS = ['float', 'float', 'np64', 'np32', '0d', '0d32', 'int', 'omit']
_NP_DTYPE = {'f8': np.float64, 'f4': np.float32, 'i8': np.int64, 'i4': np.int32, 'i2': np.int16, 'u2': np.uint16, 'u1': np.uint8}


def relayout(a, how):
    """same values, other strides / flags"""
    if how == 'rot90':        # what a user does to fix the orientation just before exporting
        return np.rot90(np.ascontiguousarray(np.rot90(a, -1)))
    if how == 'negstride':
        return np.ascontiguousarray(a[::-1, ::-1])[::-1, ::-1]
    if how == 'readonly':
        b = np.array(a, order='C', copy=True)
        b.setflags(write=False)
        return b
    return U.relayout(a, how)


def typed_map(case, unit, cap):
    """the map as it is handed to the writer (drawn dtype and memory layout) and the float64 oracle of its values.

    float32: the float64 ramp rounded to float32 (the oracle is what the float32 array holds).  Integer types: the ramp
    without NaNs, scaled so that its peak is at least h*w+5 (distinct samples where the type allows) and at most 0.9 x the
    type's largest value and `cap` (the top of the file format's range, in the map's unit), rounded; unsigned types are
    shifted to start at 0."""
    dt = case.get('dtype', 'f8')
    z, m = build_map(case, unit)
    if dt in ('f8', 'f4'):
        a = z.astype(_NP_DTYPE[dt])
    else:
        z0, _ = build_map(dict(case, nan='none'), unit)
        info = np.iinfo(_NP_DTYPE[dt])
        peak = float(np.max(np.abs(z0)))
        if peak > 0:
            top = min(0.9 * float(info.max), cap)
            target = min(max(peak, min(z0.size + 5.0, top)), top)
            zi = np.rint(z0 * (target / peak))
            if info.min == 0 and zi.min() < 0:
                zi = zi - zi.min()
            zi = np.clip(zi, float(info.min), top)
        else:
            zi = z0
        a = zi.astype(_NP_DTYPE[dt])
    want = np.array(a, dtype=np.float64)
    return relayout(a, case.get('layout', 'C')), want


def scalar_form(v, form):
    """(object handed to the library, value it stands for); 'omit' is resolved by the caller"""
    if form in ('float', 'omit'):
        return float(v), float(v)
    if form == 'np64':
        return np.float64(v), float(v)
    if form == 'np32':
        return np.float32(v), float(np.float32(v))
    if form == '0d':
        return np.array(float(v)), float(v)
    if form == '0d32':
        return np.array(v, dtype=np.float32), float(np.float32(v))
    if form == 'int':
        return int(round(v)), float(int(round(v)))
    raise ValueError(form)


def _snapshot(*objs):
    """bit-exact copies of the array-like arguments (NaN payloads included)"""
    return [(np.array(o, copy=True), np.asarray(o).dtype, np.shape(o)) for o in objs]


def _require_unchanged(ctx, who, names, objs, snaps):
    for name, o, (keep, dt, shp) in zip(names, objs, snaps):
        now = np.asarray(o)
        if now.dtype != dt or now.shape != tuple(shp) or np.ascontiguousarray(now).tobytes() != np.ascontiguousarray(keep).tobytes():
            if now.shape == tuple(shp) and now.size:
                diff = np.argwhere(~((now == keep) | ((now != now) & (keep != keep))))
                i = tuple(int(k) for k in diff[0]) if diff.size else ()
                detail = 'first difference at %s: was %r, now %r; %d of %d samples changed' % (i, keep[i], now[i], len(diff), now.size)
            else:
                detail = 'was %s %s, now %s %s' % (dt, tuple(shp), now.dtype, now.shape)
            ctx.fail(who + ':argument-modified', 'the %s handed to %s was changed by the call: %s' % (name, who, detail))


def _edge_labels(case, ctx, prefix=''):
    """what the NaN pattern really is on this shape (measured from the mask, not taken from its name): whole invalid edge rows /
    columns per side, number of sides, whether the valid samples are one sample / one row / one column / an area, and whether they
    only reach one corner of the frame"""
    h, w = case['shape']
    if case.get('dtype', 'f8') not in ('f8', 'f4') or case['nan'] in ('none', 'all'):
        return
    m = _nan_mask((h, w), case['nan'], case['seed'])
    rows, cols = m.all(axis=1), m.all(axis=0)
    sides = [nm for nm, f in (('top', rows[0]), ('bottom', rows[-1]), ('left', cols[0]), ('right', cols[-1])) if f]
    nvalid = int((~m).sum())
    geom = '1' if nvalid == 1 else 'one row' if (~rows).sum() == 1 else 'one column' if (~cols).sum() == 1 else 'area'
    for nm in sides:
        ctx.label(prefix + 'whole invalid edge line: ' + nm)
    ctx.label(prefix + 'invalid edge lines on %d side(s), valid samples: %s' % (len(sides), geom))
    if sides and nvalid > 1:
        vr, vc = np.flatnonzero(~rows), np.flatnonzero(~cols)
        corner = [a + b for a, f in (('t', vr[0] == 0), ('b', vr[-1] == h - 1)) if f for b, g in (('l', vc[0] == 0), ('r', vc[-1] == w - 1)) if g]
        if len(sides) >= 2 and len(corner) == 1:
            ctx.label(prefix + 'valid samples reach only corner ' + corner[0])
    if (rows[1:-1].any() and not (rows[0] or rows[-1])) or (cols[1:-1].any() and not (cols[0] or cols[-1])):
        ctx.label(prefix + 'whole invalid line in the interior only')


def _labels(case, ctx, amps):
    h, w = case['shape']
    dt = case.get('dtype', 'f8')
    ctx.label('square' if h == w else 'nonsquare', 'sign:' + case['sign'],
              'nan:' + (case['nan'] if dt in ('f8', 'f4') else 'none(int)'), 'amp:%g' % case['amp'],
              'dtype:' + dt, 'layout:' + case.get('layout', 'C'))
    if 'dxform' in case:
        ctx.label('dx:zero' if case['dx'] == 0 else 'dx:tiny' if case['dx'] < 1e-4 else 'dx:huge' if case['dx'] > 50 else 'dx:usual',
                  'dxform:' + case['dxform'], 'wvlform:' + case.get('wvlform', 'float'))
    if h == 1 or w == 1:
        ctx.label('1xN' if h == 1 else 'Nx1')
    if h * w > 585:
        ctx.label('more than one 585-sample record' + (', > 2^16 samples' if h * w > 65536 else ''))
    if h * w > 2 ** 20:
        ctx.label('more than 2^20 samples')
    if dt in ('f8', 'f4') and case.get('layout', 'C') in ('F', 'T-view', 'rot90') and h > 1 and w > 1:
        ctx.label('2-D map not in C order' + (' with NaN' if case['nan'] != 'none' else ''))
    if dt == 'f4' and case['nan'] != 'none':
        ctx.label('float32 map with NaN')
    _edge_labels(case, ctx)
    ctx.nt(h != w or case['sign'] in ('neg', 'mixed', 'negconst', 'ties', 'outlier') or (case['nan'] != 'none' and dt in ('f8', 'f4')))


def _orientation_hint(got, want, tol):
    """which re-ordering of `want` (if any) matches `got` - only used to name the bucket"""
    def same(a, b):
        if a.shape != b.shape:
            return False
        na, nb = np.isnan(a), np.isnan(b)
        if not np.array_equal(na, nb):
            return False
        d = np.abs(np.where(na, 0, a) - np.where(nb, 0, b))
        return bool(np.all(d <= tol))
    for name, fn in (('mirrored-lr', np.fliplr), ('mirrored-ud', np.flipud), ('rot180', lambda a: a[::-1, ::-1]),
                     ('transposed', np.transpose)):
        if same(got, fn(want)):
            return name
    return None


def compare_map(got, want, tol, who, ctx, who_value=None):
    """got == want: shape, NaN placement, values within tol (array of per-sample tolerances)."""
    got = np.asarray(got)
    h, w = want.shape
    if got.shape != want.shape:
        if got.shape == (w, h):
            ctx.fail(who + ':shape-transposed', 'wrote shape %s, read back shape %s' % (want.shape, got.shape))
        ctx.fail(who + ':shape', 'wrote shape %s, read back shape %s' % (want.shape, got.shape))
    ng, nw = np.isnan(got), np.isnan(want)
    d = np.abs(np.where(ng, 0.0, got.astype(np.float64)) - np.where(nw, 0.0, want))
    ok_vals = bool(np.all((d <= tol) | ng | nw))
    if np.array_equal(ng, nw) and ok_vals and bool(np.all(np.isfinite(got[~ng]))):
        return float(np.max(d / np.where(tol > 0, tol, 1.0))) if d.size else 0.0
    hint = _orientation_hint(got.astype(np.float64), want, tol)
    if hint:
        ctx.fail('%s:%s' % (who, hint), 'map %s read back %s; wrote\n%s\nread\n%s' % (
            want.shape, hint, np.array2string(want[:4, :4], precision=4), np.array2string(got[:4, :4], precision=4)))
    if not np.array_equal(ng, nw):
        i = tuple(int(k) for k in np.argwhere(ng != nw)[0])
        ctx.fail(who + ':nan-placement', 'invalid samples differ: %d written, %d read; first difference at %s (wrote %r read %r)' % (
            int(nw.sum()), int(ng.sum()), i, want[i], got[i]))
    bad = ~((d <= tol) | ng)
    i = tuple(int(k) for k in np.argwhere(bad | ~np.isfinite(np.where(ng, 0.0, got)))[0])
    ctx.fail((who_value or who) + ':value', 'sample %s: wrote %r read %r, |diff| %.6g > tol %.6g (%d of %d samples off)' % (
        i, want[i], got[i], d[i], tol[i], int(bad.sum()), want.size))


# ---- file targets ------------------------------------------------------------------------------
class _KeepBytes(io.BytesIO):
    """the Zygo writer closes the object it is given; keep the bytes it wrote"""
    final = None

    def close(self):
        self.final = self.getvalue()
        super().close()


def _write_zygo(ctx, writer, target, path):
    """call writer(file) with the drawn kind of target; afterwards the bytes are at `path`."""
    if target == 'str':
        ctx.call(writer, path)
    elif target == 'pathlib':
        ctx.call(writer, pathlib.Path(path))
    elif target == 'fileobj':
        fh = open(path, 'wb')
        try:
            ctx.call(writer, fh)
        finally:
            if not fh.closed:
                fh.close()
    elif target == 'buffer':
        b = _KeepBytes()
        ctx.call(writer, b)
        raw = b.final if b.final is not None else b.getvalue()
        with open(path, 'wb') as fh:
            fh.write(raw)
    else:
        raise ValueError(target)


def _write_codev(ctx, writer, target, path):
    if target == 'str':
        ctx.call(writer, path)
    elif target == 'pathlib':
        ctx.call(writer, pathlib.Path(path))
    elif target == 'fileobj':
        with open(path, 'w') as fh:
            ctx.call(writer, fh)
    elif target == 'buffer':
        b = io.StringIO()
        ctx.call(writer, b)
        with open(path, 'w') as fh:
            fh.write(b.getvalue())
    else:
        raise ValueError(target)


# ---- one file: arguments, write, read, compare -----------------------------------------------------
def _zygo_step(wavelength_um):
    return wavelength_um * 1e3 / ZYGO_RES   # nm per count


def _zygo_tol(want, wavelength_um, prec, lowprec=False):
    step = _zygo_step(wavelength_um)
    a = np.where(np.isnan(want), 0.0, np.abs(want))
    # one count (the writer truncates) + float32 header wavelength (2^-24 relative, 4x head-room)
    # + float32 sample storage under the 32-bit configuration (2^-24 relative per operation, 16x head-room)
    # + float32 arithmetic inside the writer when the map or the wavelength is given in float32 (3 operations, 2^-19)
    return step * (1 + 1e-9) + a * (2.0 ** -22 + (2.0 ** -20 if prec == 32 else 0.0) + (2.0 ** -19 if lowprec else 0.0))


# ---- instrument-like Zygo files (camera frame + non-default header contents), built by the harness -------------
# The library's writer never stores a camera (intensity) frame and leaves most header fields at their defaults; every file written by the
# instrument carries a frame (ac_width x ac_height x ac_n_buckets uint16 samples between the header and the phase block) and a filled-in header.
# The harness makes such a file from one the writer produced: it inserts a frame after the 834-byte header and patches header fields at the
# offsets of the documented layout (MetroPro reference guide, section 12; the same table as prysm/io.py:_zygo_metadata_helper).  Fields that
# enter the height scaling (phase_res, scale_factor, obliquity_factor) are only changed by exactly representable factors, and the harness'
# own reading of the bytes (counts * wavelength * scale * obliquity / R(phase_res), rows bottom to top, >= 2147483640 invalid) is the oracle
# for what a reader must return from it.
_HDR = {'ac_x': ('>H', 48), 'ac_y': ('>H', 50), 'ac_width': ('>H', 52), 'ac_height': ('>H', 54), 'ac_n_buckets': ('>H', 56), 'ac_range': ('>H', 58),
        'ac_n_bytes': ('>I', 60), 'cn_x': ('>H', 64), 'cn_y': ('>H', 66), 'cn_width': ('>H', 68), 'cn_height': ('>H', 70), 'cn_n_bytes': ('>I', 72),
        'comment': ('82s', 80), 'scale_factor': ('>f', 164), 'wavelength': ('>f', 168), 'obliquity_factor': ('>f', 176), 'lateral_resolution': ('>f', 184),
        'intensity_average_count': ('>H', 190), 'phase_res': ('>H', 218), 'camera_width': ('>H', 234), 'camera_height': ('>H', 236),
        'sys_serial': ('>H', 242), 'part_name': ('40s', 258), 'phase_avg_count': ('>H', 300), 'part_sn': ('40s', 320), 'swtype': ('>H', 10),
        'swmaj': ('>H', 42), 'swmin': ('>H', 44), 'header_size': ('>I', 6), 'magic_number': ('>I', 0)}
_PHASE_RES = {0: 4096, 1: 32768, 2: 131072}
ZYGO_INVALID = 2147483640
CAM_TEXTS = ['', 'flat #3, run 2', 'M1 segment 07 / after IBF', 'x' * 40]


def _hget(raw, key):
    fmt, off = _HDR[key]
    return struct.unpack_from(fmt, raw, off)[0]


def _hput(buf, key, val):
    fmt, off = _HDR[key]
    if fmt.endswith('s'):
        width = int(fmt[:-1])
        val = val.encode('ascii')[:width].ljust(width, b' ')
    struct.pack_into(fmt, buf, off, val)


def _parse_zygo(raw):
    """the harness' own reading of a Zygo .dat held in `raw`: dict(phase nm float64 with NaN, wavelength um, dx mm, shape, counts) or None
    when the bytes are not a complete file of the documented layout"""
    if len(raw) < ZYGO_HEADER or _hget(raw, 'magic_number') != 0x881B036F or _hget(raw, 'header_size') != ZYGO_HEADER:
        return None
    w, h = _hget(raw, 'cn_width'), _hget(raw, 'cn_height')
    nb = _hget(raw, 'ac_n_buckets')
    ilen = _hget(raw, 'ac_width') * _hget(raw, 'ac_height') * (nb if nb else 1)
    off = ZYGO_HEADER + 2 * ilen
    if len(raw) != off + 4 * h * w or _hget(raw, 'phase_res') not in _PHASE_RES:
        return None
    counts = np.frombuffer(raw, dtype='>i4', count=h * w, offset=off).astype(np.int64).reshape(h, w)[::-1, :]
    W, S, O = float(_hget(raw, 'wavelength')), float(_hget(raw, 'scale_factor')), float(_hget(raw, 'obliquity_factor'))
    phase = np.where(counts >= ZYGO_INVALID, np.nan, counts.astype(np.float64) * (W * S * O / _PHASE_RES[_hget(raw, 'phase_res')] * 1e9))
    return {'phase': phase, 'wavelength': W * 1e6, 'dx': float(_hget(raw, 'lateral_resolution')) * 1e3, 'shape': (h, w), 'counts': counts,
            'frame_bytes': 2 * ilen}


def _instrument_like(raw, cam, physics=True):
    """bytes of the same map as an instrument would have stored it: camera frame(s) inserted, acquisition block and descriptive fields of the
    header filled in, and (physics) the height scaling fields changed.  Returns (bytes, factor by which the heights the file stands for grew)."""
    buf = bytearray(raw[:ZYGO_HEADER])
    ch, cw = cam['shape']
    nb = int(cam['buckets'])
    r = U.rng_of(cam['seed'], 41)
    frames = r.integers(0, 4096, size=(nb, ch, cw)).astype(np.uint16)
    _hput(buf, 'ac_x', int(cam['seed']) % 7)
    _hput(buf, 'ac_y', int(cam['seed']) % 5)
    _hput(buf, 'ac_width', cw)
    _hput(buf, 'ac_height', ch)
    _hput(buf, 'ac_n_buckets', nb)
    _hput(buf, 'ac_range', 4095)
    _hput(buf, 'ac_n_bytes', frames.size * 2)
    _hput(buf, 'cn_x', int(cam['seed']) % 3)
    _hput(buf, 'cn_y', int(cam['seed']) % 4)
    _hput(buf, 'camera_width', max(cw, _hget(raw, 'cn_width')))
    _hput(buf, 'camera_height', max(ch, _hget(raw, 'cn_height')))
    _hput(buf, 'intensity_average_count', nb)
    _hput(buf, 'phase_avg_count', 1 + int(cam['seed']) % 16)
    _hput(buf, 'sys_serial', 4000 + int(cam['seed']) % 1000)
    _hput(buf, 'swtype', 1)
    _hput(buf, 'swmaj', 9)
    _hput(buf, 'swmin', int(cam['seed']) % 3)
    text = CAM_TEXTS[int(cam.get('text', 0)) % len(CAM_TEXTS)]
    if text:
        _hput(buf, 'comment', text)
        _hput(buf, 'part_name', text)
        _hput(buf, 'part_sn', 'SN-%05d' % (int(cam['seed']) % 100000))
    k = 1.0
    if physics:
        res, scale, obl = int(cam.get('phase_res', 1)), float(cam.get('scale', 1.0)), float(cam.get('obliquity', 1.0))
        _hput(buf, 'phase_res', res)
        _hput(buf, 'scale_factor', scale)
        _hput(buf, 'obliquity_factor', obl)
        k = scale * obl * ZYGO_RES / _PHASE_RES[res]
    return bytes(buf) + frames.tobytes() + bytes(raw[ZYGO_HEADER:]), k


def _cam_fields():
    """an instrument-like source file (None in half of the cases): camera frame of 1-9 x 1-9 samples (smaller or larger than the map, odd byte
    counts included), 1-5 buckets, descriptive header text, and the height scaling fields (phase_res 0 / 1 / 2, scale factor 0.5 as the
    instrument writes it, 1, 0.25, obliquity factor 1 or 1.03125)"""
    cam = st.fixed_dictionaries({'shape': st.tuples(st.integers(1, 9), st.integers(1, 9)).map(list), 'buckets': st.sampled_from([1, 1, 1, 2, 3, 5]),
                                 'seed': st.integers(0, 100000), 'text': st.integers(0, len(CAM_TEXTS) - 1), 'phase_res': st.sampled_from([1, 1, 1, 0, 2]),
                                 'scale': st.sampled_from([1.0, 0.5, 0.5, 0.25]), 'obliquity': st.sampled_from([1.0, 1.0, 1.03125])})
    return st.one_of(st.none(), cam)


def _cam_labels(cam, ctx, prefix):
    if not cam:
        ctx.label(prefix + 'as the library writes it (no camera frame)')
        return
    ctx.label(prefix + 'instrument-like (camera frame, header filled in)', prefix + 'camera frames: %d' % cam['buckets'])
    if (cam['shape'][0] * cam['shape'][1] * cam['buckets']) % 2:
        ctx.label(prefix + 'phase block not 4-byte aligned')


class _File:
    """One file of kind 'zygo' (write_zygo_dat / read_zygo_dat), 'ifg' (Interferogram.save_zygo_dat / from_zygo_dat) or
    'codev' (write_codev_gridint / read_codev_gridint): the arguments in their drawn dtype / layout / scalar form, the
    oracle, and the four steps write / read / compare / scribble, so that round trips and histories share one oracle."""

    def __init__(self, case, kind, ctx, shape=None):
        self.case = case = dict(case, shape=list(shape)) if shape is not None else case
        self.kind, self.ctx = kind, ctx
        self.prec = case.get('prec', 64)
        self.target = case.get('target', 'str')
        self.result = self.meta = self.obj = self.text = self.at_read = self.path = None
        self.cam = case.get('cam') if kind != 'codev' else None      # the written file is turned into an instrument-like one before it is read
        self.spliced = False
        self.step_k = 1.0        # heights per count of the file that is read, relative to wavelength / 32768 (instrument-like files only)
        self.generation = 1
        self.lowp_codev = case.get('dtype', 'f8') == 'f4'
        if kind == 'codev':
            self.z_arg, self.want = typed_map(case, 1.0, float('inf'))
            self.who = 'codev'
            self.args, self.argnames = [self.z_arg], ['map']
        else:
            dxform, wvlform = case.get('dxform', 'float'), case.get('wvlform', 'float')
            wv = 0.6328 if wvlform == 'omit' else (max(1.0, round(case['wavelength'])) if wvlform == 'int' else case['wavelength'])
            self.wvl_arg, self.wvl = scalar_form(wv, wvlform)
            self.dx_arg, self.dx = scalar_form(case['dx'], dxform)
            self.omit_dx, self.omit_wvl = dxform == 'omit', wvlform == 'omit'
            if kind == 'ifg' and self.omit_dx:
                self.dx = 0.0        # Interferogram.__init__: dx=0, "if zero the data has no lateral calibration"
            self.lowprec = case.get('dtype', 'f8') == 'f4' or wvlform in ('np32', '0d32')
            step = _zygo_step(self.wvl)
            self.z_arg, self.want = typed_map(case, step, step * ZYGO_MAX_COUNTS)
            self.who = 'zygo' if kind == 'zygo' else 'interferogram'
            self.args, self.argnames = [self.z_arg, self.dx_arg, self.wvl_arg], ['map', 'dx', 'wavelength']
            self.origin = case.get('origin', 'fresh') if kind == 'ifg' else 'fresh'
            self.read_dx = self.read_wvl = None
        self.snap = _snapshot(*self.args)

    # -- write ---------------------------------------------------------------------------------------
    def _intensity(self):
        """a camera frame for the documented intensity= argument (None when the case does not ask for one)"""
        how = self.case.get('intensity')
        if not how or self.generation > 1:
            return None
        h, w = self.want.shape
        shape = (h, w) if how == 'same-shape' else (h + 2, max(1, w - 1))
        return U.rng_of(self.case['seed'], 43).integers(0, 4096, size=shape).astype(np.uint16)

    def _failing_requests(self, path, stage):
        """requests that fail (a file in a directory that does not exist, a map of the wrong dimensionality, an unsupported option value) and
        are caught by the caller; nothing is asserted about them.  The valid request that follows must behave as if they had not been made."""
        if not self.case.get('bad_first', False):
            return
        from prysm import io as pio
        from prysm.interferogram import Interferogram
        missing = os.path.join(os.path.dirname(path), 'no-such-directory', 'x.dat')
        if stage == 'write' and self.kind == 'codev':
            tries = [lambda: pio.write_codev_gridint(self.want, missing), lambda: pio.write_codev_gridint(self.want, path + '.bad', typ='XYZ'),
                     lambda: pio.write_codev_gridint(self.want[0], path + '.bad')]
        elif stage == 'write':
            tries = [lambda: pio.write_zygo_dat(missing, self.want, 1.0), lambda: pio.write_zygo_dat(path + '.bad', self.want[0], 1.0)]
        elif self.kind == 'codev':
            tries = [lambda: pio.read_codev_gridint(missing)]
        else:
            tries = [lambda: pio.read_zygo_dat(missing), lambda: pio.read_zygo_dat(path, multi_intensity_action='median'),
                     lambda: Interferogram.from_zygo_dat(missing)]
        for t in tries:
            try:
                with warnings.catch_warnings():
                    warnings.simplefilter('ignore')
                    t()
            except Exception:  # noqa - the failing request itself is not judged
                pass

    def _zygo_writer(self):
        from prysm.io import write_zygo_dat
        kw = {} if self.omit_wvl else {'wavelength': self.wvl_arg}
        frame = self._intensity()
        if frame is not None:
            kw['intensity'] = frame
        if self.omit_dx:      # dx is a required argument of the function: 'omit' stands for the all-keyword form
            return lambda f: write_zygo_dat(file=f, phase=self.z_arg, dx=self.dx_arg, **kw)
        return lambda f: write_zygo_dat(f, self.z_arg, self.dx_arg, **kw)

    def _stale(self):
        """another wavelength / dx / shape than this file's: what an earlier life of the object (or its metadata) says"""
        st_ = self.case.get('stale') or {}
        w = float(st_.get('wavelength', 1.55))
        if abs(w - self.wvl) <= 1e-3 * self.wvl:
            w *= 1.7
        dx = float(st_.get('dx', 0.25))
        if abs(dx - self.dx) <= 1e-3 * max(self.dx, 1e-12):
            dx = 0.37
        return w, dx, list(st_.get('shape', [3, 5])), int(st_.get('seed', 1))

    def _write_stale(self, d, keep=()):
        """an earlier Zygo file (file layer only): other map; its dx / wavelength are this file's for the fields in `keep` (they
        will be kept on the loaded object) and the stale ones otherwise.  Returns its path."""
        from prysm.io import write_zygo_dat
        w, dx, shape, seed = self._stale()
        if 'wavelength' in keep:
            w = self.wvl
        if 'dx' in keep:
            dx = self.dx
        if 'data' in keep:
            shape = list(self.case['shape'])
        # modest heights (<= 1e4 counts of the stale wavelength): they stay inside the format's range at every other wavelength drawn
        sub = dict(self.case, shape=shape, seed=seed, amp=min(float(self.case['amp']), 1e4), dtype='f8', layout='C',
                   nan=self.case['nan'] if self.case['nan'] != 'all' else 'scatter')
        z, _ = build_map(sub, _zygo_step(w))
        p = os.path.join(d, 'stale.dat')
        self.ctx.call(write_zygo_dat, p, z, dx, wavelength=w)
        self.stale_oracle = None
        cam = (self.case.get('stale') or {}).get('cam')
        if cam:
            with open(p, 'rb') as fh:
                raw = fh.read()
            if _parse_zygo(raw) is not None and _parse_zygo(raw)['shape'] == tuple(shape):
                blob, _ = _instrument_like(raw, cam)
                with open(p, 'wb') as fh:
                    fh.write(blob)
                self.stale_oracle = _parse_zygo(blob)
        return p

    def _judge_instrument_read(self, got, dx, wvl, orc, who):
        """what a reader returned from an instrument-like file against the harness' own reading of its bytes (values: relative 1e-6, which
        covers a float32 configuration; no quantisation is involved)"""
        if orc is None:
            return
        want = orc['phase']
        tol = np.where(np.isnan(want), 0.0, np.abs(want)) * 1e-6 + 1e-300
        compare_map(got, want, tol, who + ':instrument-like-file', self.ctx)
        self.ctx.require(abs(float(dx) - orc['dx']) <= 1e-6 * orc['dx'] and wvl is not None and abs(float(wvl) - orc['wavelength']) <= 1e-6 * orc['wavelength'],
                         who + ':instrument-like-file:dx-wavelength', 'file holds dx %r mm, wavelength %r um; read %r mm, %r um' % (orc['dx'], orc['wavelength'], dx, wvl))

    def make_interferogram(self, d=None):
        """the Interferogram that will be saved.  origin 'fresh': the constructor; 'meta-dict' / 'meta-header': the constructor with an
        explicit wavelength= AND a metadata dict (hand-made, or the header of an earlier file) that names another wavelength / spacing;
        'meta-only': wavelength=None and the wavelength given through meta (metres, the documented convention); 'loaded': an earlier
        file loaded with from_zygo_dat, then the fields listed in case['assign'] re-assigned through the public attributes, in that
        order - the other fields keep what was loaded, and the oracle is what the object holds."""
        from prysm.interferogram import Interferogram
        from prysm.io import read_zygo_dat
        ctx, origin = self.ctx, self.origin
        kw = {} if self.omit_wvl else {'wavelength': self.wvl_arg}
        if origin in ('meta-dict', 'meta-header', 'meta-only', 'loaded') and d is None:
            origin = 'fresh'
        if origin == 'meta-dict':
            w, dx, _, seed = self._stale()
            kw['meta'] = {('wavelength' if seed % 2 else 'Wavelength'): w * 1e-6, 'lateral_resolution': dx * 1e-3}
        elif origin == 'meta-header':
            res = ctx.call(read_zygo_dat, self._write_stale(d))
            self._judge_instrument_read(res['phase'], float(res['meta']['lateral_resolution']) * 1e3, float(res['meta']['wavelength']) * 1e6, self.stale_oracle, 'zygo')
            kw['meta'] = dict(res['meta'])
        elif origin == 'meta-only' and not self.omit_wvl:
            kw = {'wavelength': None, 'meta': {('wavelength' if self.case['seed'] % 2 else 'Wavelength'): self.wvl * 1e-6}}
        elif origin == 'loaded':
            assign = [a for a in (self.case.get('assign') or ['data', 'dx', 'wavelength']) if a in ('data', 'dx', 'wavelength')]
            if self.case.get('keep_all', False):
                assign = []          # load -> save: the object is saved as it was loaded
            keep = [a for a in ('data', 'dx', 'wavelength') if a not in assign]
            # the new heights either replace the array (obj.data = z) or are written into the loaded array (obj.data[...] = z; the
            # earlier file then has this map's shape)
            inplace = self.case.get('data_how', 'rebind') == 'inplace' and 'data' in assign
            obj = ctx.call(Interferogram.from_zygo_dat, self._write_stale(d, keep + ['data'] if inplace else keep))
            self._judge_instrument_read(obj.data, obj.dx, obj.wavelength, self.stale_oracle, 'interferogram')
            inplace = inplace and isinstance(obj.data, np.ndarray) and obj.data.shape == self.want.shape and obj.data.flags.writeable
            for a in assign:
                if a == 'data' and inplace:
                    obj.data[...] = self.want
                    self.z_arg = obj.data
                    self.want = np.array(obj.data, dtype=np.float64)
                elif a == 'data':
                    obj.data = self.z_arg
                elif a == 'dx':
                    obj.dx = self.dx_arg if not self.omit_dx else 0
                else:
                    obj.wavelength = self.wvl_arg
            # the fields that were not re-assigned: the oracle is what the loaded object holds
            if 'data' in keep:
                ctx.require(isinstance(obj.data, np.ndarray) and obj.data.shape == tuple(self.case['shape']), 'interferogram:shape',
                            'stale file of shape %s loaded as %s' % (self.case['shape'], np.shape(obj.data)))
                self.z_arg, self.want = obj.data, np.array(obj.data, dtype=np.float64)
                self.lowprec = self.case.get('wvlform', 'float') in ('np32', '0d32') and 'wavelength' in assign
            if 'dx' in keep:
                self.dx_arg = obj.dx
                self.dx = float(obj.dx)
            if 'wavelength' in keep:
                ctx.require(obj.wavelength is not None, 'interferogram:wavelength', 'loaded wavelength is None')
                self.wvl_arg = obj.wavelength
                self.wvl = float(obj.wavelength)
                if 'data' in keep:
                    self.lowprec = False
            self.args = [self.z_arg, self.dx_arg, self.wvl_arg]
            self.snap = _snapshot(*self.args)
            return obj
        frame = self._intensity()
        if frame is not None:
            kw['intensity'] = frame
        if self.omit_dx:
            obj = ctx.call(Interferogram, self.z_arg, **kw)
        else:
            obj = ctx.call(Interferogram, phase=self.z_arg, dx=self.dx_arg, **kw)
        if origin == 'meta-only' and not self.omit_wvl:
            ctx.require(obj.wavelength is not None and abs(float(obj.wavelength) - self.wvl) <= 1e-9 * self.wvl, 'interferogram:wavelength-from-meta',
                        'Interferogram(wavelength=None, meta={wavelength: %r m}) has wavelength %r um' % (self.wvl * 1e-6, obj.wavelength))
            self.wvl = float(obj.wavelength)
        return obj

    def assign_to(self, obj):
        """re-use an Interferogram: new data / dx / wavelength through its public attributes"""
        obj.data = self.z_arg
        obj.dx = self.dx_arg if not self.omit_dx else 0
        obj.wavelength = self.wvl_arg
        return obj

    def write(self, path, obj=None):
        ctx, case = self.ctx, self.case
        self._failing_requests(path, 'write')
        if self.kind == 'zygo':
            _write_zygo(ctx, self._zygo_writer(), self.target, path)
        elif self.kind == 'ifg':
            self.obj = obj if obj is not None else self.make_interferogram(os.path.dirname(path))
            _write_zygo(ctx, self.obj.save_zygo_dat, self.target, path)
            o = self.obj
            same = (o.data is self.z_arg or np.array_equal(np.asarray(o.data), self.snap[0][0], equal_nan=True))
            ctx.require(same and float(o.dx) == self.dx and float(o.wavelength) == self.wvl, 'interferogram:save-changed-object',
                        'after save_zygo_dat the Interferogram holds dx %r (was %r), wavelength %r (was %r), data %s' % (
                            o.dx, self.dx, o.wavelength, self.wvl, 'unchanged' if same else 'changed'))
        else:
            from prysm.io import write_codev_gridint
            nnb = {'bool': bool, 'np': np.bool_, 'int': int}[case.get('nnbform', 'bool')](case['nnb'])
            kw = {'typ': case['typ'], 'nnb': nnb}
            if case.get('title') is not None:
                kw['comment'] = case['title']
            if case.get('kwform', False):
                _write_codev(ctx, lambda f: write_codev_gridint(array=self.z_arg, filename=f, **kw), self.target, path)
            else:
                _write_codev(ctx, lambda f: write_codev_gridint(self.z_arg, f, **kw), self.target, path)
            with open(path) as fh:
                self.text = fh.read()
        _require_unchanged(ctx, {'zygo': 'write_zygo_dat', 'ifg': 'save_zygo_dat', 'codev': 'write_codev_gridint'}[self.kind],
                           self.argnames, self.args, self.snap)
        self.splice(path)

    def splice(self, path):
        """turn the Zygo file that was just written into an instrument-like one (case['cam']): camera frame inserted, header filled in.  The
        height scaling fields of the header are changed too when the heights then stay inside the format's range for a later re-save (the
        oracle is scaled by the same exactly representable factor).  A file that is not laid out as header + 4 bytes per sample is
        left as the writer made it (the round trip judges it)."""
        if not self.cam or self.kind == 'codev':
            return
        with open(path, 'rb') as fh:
            raw = fh.read()
        plain = _parse_zygo(raw)
        if plain is None or plain['shape'] != self.want.shape or plain['frame_bytes']:
            return
        valid = np.abs(plain['counts'][plain['counts'] < ZYGO_INVALID])
        physics = (float(valid.max()) if valid.size else 0.0) * 16.5 <= 1e9
        blob, k = _instrument_like(raw, self.cam, physics)
        with open(path, 'wb') as fh:
            fh.write(blob)
        self.spliced = True
        if k != 1.0:
            # the same counts now stand for heights k times as large (k is a product of exactly representable factors): the oracle is still the
            # map that was handed to the writer, and one count is k times as large
            self.want = self.want * k
            self.step_k = k
            self.ctx.label('instrument-like file with other height scaling fields (factor %g)' % k)

    def next_generation(self, edits=()):
        """what the reader returned is handed to the writer of the same pair again (file -> object -> file): the array / dx / wavelength the
        reader gave (Zygo, Code V), or the Interferogram object it built, with the metadata it attached.  The oracle is what that object holds."""
        self.generation += 1
        self.cam, self.spliced, self.step_k = None, False, 1.0
        r = self.result
        self.ctx.require(isinstance(r, np.ndarray) and r.ndim == 2, self.who + ':return', 'the reader returned %r as the map' % type(r))
        if self.kind == 'codev':
            self.z_arg, self.want = r, np.array(r, dtype=np.float64)
            self.lowp_codev = r.dtype == np.float32
            self.args, self.argnames = [self.z_arg], ['map']
        else:
            if self.kind == 'zygo':
                self.dx_arg = float(self.meta['lateral_resolution']) * 1e3
                self.wvl_arg = float(self.meta['wavelength']) * 1e6
                self.z_arg = r
            else:
                self.obj = self.meta          # the Interferogram that from_zygo_dat built
                self.origin = 'reloaded'
                self.z_arg, self.dx_arg, self.wvl_arg = self.obj.data, self.obj.dx, self.obj.wavelength
                self.ctx.require(self.wvl_arg is not None, self.who + ':wavelength', 'loaded wavelength is None')
            self.want, self.dx, self.wvl = np.array(self.z_arg, dtype=np.float64), float(self.dx_arg), float(self.wvl_arg)
            self.omit_dx = self.omit_wvl = False
            self.lowprec = np.asarray(self.z_arg).dtype == np.float32
            self.args = [self.z_arg, self.dx_arg, self.wvl_arg]
        self.snap = _snapshot(*self.args)
        done = []
        if self.kind == 'ifg' and edits:
            done = self.change_saved_object(edits)
        return done

    def change_saved_object(self, changes):
        """the Interferogram that has just been saved is changed the way users change it - its data array edited in place through
        numpy (halved, flipped, samples invalidated), dx / wavelength re-assigned - so that it can be saved again; the oracle follows.
        Returns the labels of what was done."""
        o, done = self.obj, []
        for ch in changes:
            d = o.data
            if ch.startswith('data'):
                if not (isinstance(d, np.ndarray) and d.flags.writeable):
                    done.append('data:skipped(read-only)')
                    continue
                if ch == 'data-halve':
                    if d.dtype.kind == 'f':
                        o.data *= 0.5
                    else:
                        o.data //= 2
                elif ch == 'data-flip':
                    o.data[...] = d[::-1, ::-1].copy()
                elif ch == 'data-invalidate' and d.dtype.kind == 'f':
                    o.data[d.shape[0] // 2:, :(d.shape[1] + 1) // 2] = np.nan
                else:
                    done.append('data:skipped(integer map has no NaN)')
                    continue
                if o.data is not d:
                    raise RuntimeError('harness: in-place edit replaced the array object')
            elif ch == 'dx':
                o.dx = self.dx * 3 + 0.125
            elif ch == 'wavelength':
                o.wavelength = self.wvl * 1.5      # a longer wavelength: the heights stay inside the format's range
            else:
                raise ValueError(ch)
            done.append(ch)
        self.z_arg, self.dx_arg, self.wvl_arg = o.data, o.dx, o.wavelength
        self.want, self.dx, self.wvl = np.array(o.data, dtype=np.float64), float(o.dx), float(o.wavelength)
        self.step_k = 1.0
        self.args = [self.z_arg, self.dx_arg, self.wvl_arg]
        self.snap = _snapshot(*self.args)
        return done

    # -- read ----------------------------------------------------------------------------------------
    def read(self, path):
        ctx = self.ctx
        parg = pathlib.Path(path) if self.target == 'pathlib' else path
        # the writer stores no intensity frames: every documented way of combining them reads the same phase
        mia = {} if self.case.get('mia') is None else {'multi_intensity_action': self.case['mia']}
        self._failing_requests(path, 'read')
        with U.precision(self.prec):
            if self.kind == 'zygo':
                from prysm.io import read_zygo_dat
                res = ctx.call(read_zygo_dat, parg, **mia)
                ctx.require(isinstance(res, dict) and 'phase' in res and 'meta' in res, 'zygo:return', 'reader did not return phase/meta')
                self.result, self.meta = res['phase'], res['meta']
            elif self.kind == 'ifg':
                from prysm.interferogram import Interferogram
                back = ctx.call(Interferogram.from_zygo_dat, parg, **mia)
                self.result, self.meta = back.data, back
                # what the loaded object says at the time it is returned (it may be re-used for a later file)
                self.read_dx, self.read_wvl = back.dx, back.wavelength
            else:
                from prysm.io import read_codev_gridint
                res = ctx.call(read_codev_gridint, parg)
                ctx.require(isinstance(res, tuple) and len(res) == 2, 'codev:return', 'reader did not return (array, meta)')
                self.result, self.meta = res
        self.at_read = np.array(self.result, copy=True) if isinstance(self.result, np.ndarray) else None
        return self.result

    def require_kept(self, what):
        """the array returned by the reader still holds what it held when it was returned"""
        r = self.result
        if self.at_read is not None and isinstance(r, np.ndarray) and not (
                r.shape == self.at_read.shape and np.array_equal(r, self.at_read, equal_nan=True)):
            self.ctx.fail(self.who + ':result-overwritten', 'the %s array returned for file %s changed while %s' % (
                tuple(self.at_read.shape), os.path.basename(self.path), what))

    # -- compare -------------------------------------------------------------------------------------
    def compare(self, tag=''):
        ctx, who, want = self.ctx, self.who + tag, self.want
        if self.kind == 'codev':
            fin = want[np.isfinite(want)]
            whov = who + (':all-positive' if fin.size and fin.min() > 0 else ':all-negative' if fin.size and fin.max() < 0 else '')
            hdr = _codev_header(self.text)
            ctx.require(hdr is not None and hdr['ssz'] != 0 and np.isfinite(hdr['ssz']), whov + ':header',
                        'header line of the written file is not a usable GRD header: %r' % self.text.split('\n')[1:2])
            step = 1000.0 * hdr['wvl'] / abs(hdr['ssz'])   # nm per count, as written
            a = np.where(np.isnan(want), 0.0, np.abs(want))
            lowp = self.lowp_codev
            tol = step * (1 + 1e-9) + a * (1e-12 + (2.0 ** -20 if self.prec == 32 else 0.0) + (2.0 ** -19 if lowp else 0.0))
            return compare_map(self.result, want, tol, who, ctx, who_value=whov)
        # an Interferogram that carries the header of a file it (or its metadata) came from: name that history in the bucket
        from_file = ':object-' + self.origin if self.kind == 'ifg' and self.origin in ('loaded', 'reloaded', 'meta-header') else ''
        worst = compare_map(self.result, want, _zygo_tol(want, self.wvl * self.step_k, self.prec, self.lowprec), who + from_file, ctx)
        dx, wvl = self.dx, self.wvl
        if self.kind == 'zygo':
            got_dx = float(self.meta['lateral_resolution']) * 1e3
            got_w = float(self.meta['wavelength']) * 1e6
        else:
            got_dx = float(self.read_dx)
            ctx.require(self.read_wvl is not None, who + ':wavelength', 'saved wavelength %r um, loaded None' % (wvl,))
            got_w = float(self.read_wvl)
        zero = ':dx-zero' if dx == 0 else ''
        # name the history of the object that was saved (its metadata / earlier life named other values)
        hist = '' if self.origin == 'fresh' or self.kind != 'ifg' else ':object-' + self.origin
        how = '' if not hist else '; the Interferogram was %s' % {
            'meta-dict': 'constructed with an explicit wavelength and a metadata dict', 'meta-header': 'constructed with an explicit wavelength and the header of another file as meta',
            'meta-only': 'constructed with wavelength=None and the wavelength in meta',
            'reloaded': 'the one returned by from_zygo_dat for the previous generation of the file',
            'loaded': 'loaded from another file%s and had %s re-assigned through its attributes' % (
                ' (instrument-like: camera frame, header filled in)' if (self.case.get('stale') or {}).get('cam') else '',
                'nothing' if self.case.get('keep_all', False) else '+'.join(self.case.get('assign') or FIELDS))}[self.origin]
        ctx.require(abs(got_dx - dx) <= 1e-6 * dx, who + ':dx' + zero + hist, 'wrote dx %r mm (given as %s), read back %r mm%s' % (
            dx, self.case.get('dxform', 'float'), got_dx, how))
        ctx.require(abs(got_w - wvl) <= 1e-6 * wvl, who + ':wavelength' + hist, 'wrote wavelength %r um (given as %s), read back %r um%s' % (
            wvl, self.case.get('wvlform', 'float'), got_w, how))
        return worst

    def scribble(self):
        """overwrite the returned array in place (a reader must not hand out its own state)"""
        r = self.result
        if isinstance(r, np.ndarray) and r.flags.writeable:
            r[...] = 12345.0


# more than 2**20 samples; a Zygo header holds the width and the height as 16-bit numbers (<= 65535 per axis), a Code V header has no such limit
HUGE_SHAPES = [[1300, 1000], [2100, 600], [1200, 1100], [1025, 1031], [4099, 257], [17, 65003], [65003, 17], [33, 32003]]
HUGE_SHAPES_CODEV = HUGE_SHAPES + [[3, 350003], [350003, 3], [1, 1048583], [2, 524309]]


def _shape_strat(nmax, large=False, huge=HUGE_SHAPES):
    ax = U.axis_len(nmax)
    big = st.integers(max(1, nmax // 2), nmax)
    two = st.integers(2, max(2, nmax // 2))       # both axes longer than 1: the memory layouts differ from each other
    alts = []
    if large:
        # beyond one 585-sample record of the Code V writer (sizes with small and with large prime factors), > 2**16 samples
        alts = [st.sampled_from([[25, 24], [1, 587], [587, 1], [31, 37], [2, 593], [40, 40], [64, 64], [1, 4099], [257, 256], [3, 1171]])]
    base = st.one_of(*alts, st.tuples(ax, ax).map(list), st.tuples(two, two).map(list), st.tuples(two, two).map(list), st.tuples(big, big).map(list),
                     st.tuples(big, ax).map(list), st.tuples(ax, big).map(list), ax.map(lambda n: [n, n]),
                     ax.map(lambda n: [1, n]), ax.map(lambda n: [n, 1]))
    if not large:
        return base
    # a handful of cases per run (about 1 in 150): maps with more than 2**20 samples (files of 5-10 MB), sizes that are not a multiple of any
    # power-of-two block of samples or rows, thin shapes included - writers / readers that stream a map in blocks
    hs = st.sampled_from(huge)
    return st.integers(0, 149).flatmap(lambda k: hs if k == 77 else base)


def _map_fields(nmax, amps, nans=NANS, large=False, huge=HUGE_SHAPES):
    return {'shape': _shape_strat(nmax, large, huge), 'sign': st.sampled_from(SIGNS), 'nan': st.sampled_from(nans),
            'amp': st.sampled_from(amps), 'seed': U.seeds, 'dtype': st.sampled_from(MAP_DTYPES), 'layout': st.sampled_from(MAP_LAYOUTS)}


def _zygo_fields():
    dx = st.one_of(st.just(0.0), U.nice_float(1e-4, 50.0), U.nice_float(1e-4, 50.0), st.sampled_from([1e-7, 2.5e-6, 7e-5, 123.0, 1e4]))
    return {'dx': dx, 'wavelength': st.one_of(st.just(0.6328), U.nice_float(0.2, 15.0), U.nice_float(0.05, 200.0)),
            'dxform': st.sampled_from(SCALAR_FORMS), 'wvlform': st.sampled_from(SCALAR_FORMS),
            'target': st.sampled_from(['str', 'pathlib', 'fileobj', 'buffer']), 'prec': st.sampled_from([64, 64, 32]),
            'mia': st.sampled_from([None, None, 'first', 'avg', 'last', 'AVG']),
            # the written file turned into an instrument-like one before it is read; number of further file -> object -> file generations
            'cam': _cam_fields(), 'gens': st.sampled_from(GENS),
            # intensity=: documented optional argument of write_zygo_dat / Interferogram (camera frame of the map's shape or another one)
            'intensity': st.sampled_from([None, None, None, 'same-shape', 'other-shape']),
            # requests that fail and are caught by the caller before the valid write / read
            'bad_first': st.sampled_from([False, False, True])}


def strat_zygo(tier):
    d = _map_fields({'quick': 24, 'thorough': 40}[tier], ZYGO_AMPS, large=True)
    d.update(_zygo_fields())
    return st.fixed_dictionaries(d)


ORIGINS = ['fresh', 'fresh', 'meta-dict', 'meta-header', 'meta-only', 'loaded', 'loaded', 'loaded']
GENS = [0, 0, 0, 1, 1, 2]
FIELDS = ['data', 'dx', 'wavelength']


def _origin_fields():
    """where the Interferogram that is saved comes from, and what its earlier life / its metadata say (see _File.make_interferogram)"""
    stale = st.fixed_dictionaries({'wavelength': st.sampled_from([0.6328, 1.55, 0.532, 10.6, 0.1, 3.39]), 'dx': st.sampled_from([0.0, 0.25, 3.0, 1e-3, 40.0]),
                                   'shape': st.tuples(st.integers(1, 6), st.integers(1, 6)).map(list), 'seed': st.integers(0, 1000),
                                   'cam': _cam_fields()})    # the earlier file is instrument-like (camera frame, header filled in) in half of the cases
    # a non-empty ordered subset of the three fields the round trip must preserve: each one alone, pairs, all three, in every order
    assign = st.permutations(FIELDS).flatmap(lambda p: st.integers(1, 3).map(lambda k: list(p[:k])))
    return {'origin': st.sampled_from(ORIGINS), 'stale': stale, 'assign': assign, 'data_how': st.sampled_from(['rebind', 'rebind', 'inplace']),
            'keep_all': st.sampled_from([False, False, False, True])}      # load -> save with nothing re-assigned


def strat_ifg(tier):
    d = _map_fields({'quick': 24, 'thorough': 40}[tier], ZYGO_AMPS, large=True)
    d.update(_zygo_fields())
    d.update(_origin_fields())
    d['resave'] = st.one_of(st.none(), st.none(), st.lists(st.sampled_from(RESAVE), min_size=1, max_size=3, unique=True))
    d['gen_edit'] = st.one_of(st.none(), st.none(), st.lists(st.sampled_from(RESAVE), min_size=1, max_size=2, unique=True))
    return st.fixed_dictionaries(d)


def _origin_labels(case, ctx):
    o = case.get('origin', 'fresh')
    ctx.label('origin:' + o)
    if o in ('loaded', 'meta-header'):
        _cam_labels((case.get('stale') or {}).get('cam'), ctx, 'earlier file: ')
    if o == 'loaded' and case.get('keep_all', False):
        ctx.label('re-assigned after loading: nothing (load -> save)')
    elif o == 'loaded':
        a = case.get('assign') or FIELDS
        ctx.label('re-assigned after loading: ' + '+'.join(sorted(a)), 're-assigned first: ' + a[0])
        if 'data' in a:
            ctx.label('data after loading: ' + case.get('data_how', 'rebind'))


RESAVE = ['data-halve', 'data-flip', 'data-invalidate', 'dx', 'wavelength']


def _roundtrip(case, kind, ctx, ext, tag=''):
    f = _File(case, kind, ctx)
    resave = list(case.get('resave') or []) if kind == 'ifg' else []
    with tempfile.TemporaryDirectory() as d:
        p = os.path.join(d, 'a' + ext)
        f.write(p)
        f.read(p)
        if not resave:
            worst = f.compare(tag + (':instrument-like-file' if f.spliced else ''))
            if case.get('gens'):
                worst = _generations(f, case, ctx, d, p, ext, tag)
            return worst
        f.compare(tag + (':instrument-like-file' if f.spliced else ''))
        # the same object, changed in place / through its attributes after it was saved, and saved again (to the same or another path)
        for ch in f.change_saved_object(resave):
            ctx.label('changed after the first save: ' + ch)
        p2 = p if case['seed'] % 2 else os.path.join(d, 'b' + ext)
        f.write(p2, obj=f.obj)
        f.read(p2)
        return f.compare(tag + ':second-save')


def _generations(f, case, ctx, d, p, ext, tag):
    """file -> object -> file -> object ...: what the reader returned (array + header values, or the Interferogram it built) is written again
    with the writer of the same pair, to the same or another path, and read again; each generation is compared with what was handed to its
    own writer.  For Interferograms the loaded object may be edited in place / re-labelled before it is saved (case['gen_edit'])."""
    worst = 0.0
    for g in range(int(case.get('gens', 0) or 0)):
        edits = list(case.get('gen_edit') or []) if g == 0 else []
        for ch in f.next_generation(edits):
            ctx.label('loaded object changed before it was saved again: ' + ch)
        pg = p if (case['seed'] + g) % 2 else os.path.join(d, 'g%d%s' % (g, ext))
        f.write(pg, obj=f.obj)
        f.read(pg)
        worst = f.compare('%s:generation-%d' % (tag, f.generation))
    return worst


def check_zygo(case, ctx):
    """write_zygo_dat -> read_zygo_dat: same shape/orientation, NaNs in place, values within a count, dx, wavelength."""
    _labels(case, ctx, ZYGO_AMPS)
    ctx.label('target:' + case['target'], 'prec%d' % case['prec'], 'generations:%d' % (1 + int(case.get('gens', 0) or 0)))
    _cam_labels(case.get('cam'), ctx, 'file that is read: ')
    ctx.label('intensity= given: %s' % case.get('intensity'), 'after failing requests' if case.get('bad_first', False) else 'no failing requests')
    _roundtrip(case, 'zygo', ctx, '.dat')


def check_interferogram(case, ctx):
    """Interferogram.save_zygo_dat -> Interferogram.from_zygo_dat: data, dx and wavelength survive the unit conversions."""
    _labels(case, ctx, ZYGO_AMPS)
    ctx.label('target:' + case['target'], 'prec%d' % case['prec'], 'generations:%d' % (1 + (0 if case.get('resave') else int(case.get('gens', 0) or 0))))
    _cam_labels(case.get('cam'), ctx, 'file that is read: ')
    ctx.label('intensity= given: %s' % case.get('intensity'), 'after failing requests' if case.get('bad_first', False) else 'no failing requests')
    _origin_labels(case, ctx)
    try:
        _roundtrip(case, 'ifg', ctx, '.dat')
    except Violation as v:
        # name the root cause: if the file layer alone fails on the same map it is the file layer's defect
        if not v.bucket.startswith('interferogram:save-changed-object'):
            _roundtrip(dict(case, dxform='float' if case.get('dxform') == 'omit' else case.get('dxform', 'float'), gen_edit=None), 'zygo', ctx, '.dat')
        raise v


# ---- Code V round trip ---------------------------------------------------------------------------
def _codev_header(text):
    """harness' own parser of the GRD header line: returns dict(nx, ny, wvl, ssz, nda, data_offset)"""
    lines = text.split('\n')
    k = 0
    while k < len(lines) and lines[k].lstrip().startswith('!'):
        k += 1
    hdr_idx = k + 1
    if hdr_idx >= len(lines):
        return None
    tok = lines[hdr_idx].split()
    out = {}
    try:
        i = tok.index('GRD')
        out['nx'], out['ny'] = int(tok[i + 1]), int(tok[i + 2])
        out['wvl'] = float(tok[tok.index('WVL') + 1])
        out['ssz'] = float(tok[tok.index('SSZ') + 1])
        out['nda'] = int(tok[tok.index('NDA') + 1])
    except (ValueError, IndexError):
        return None
    out['data_offset'] = sum(len(l) + 1 for l in lines[:hdr_idx + 1])
    out['tokens'] = tok
    return out


def _codev_fields():
    return {'typ': st.sampled_from(['SUR', 'WFR', 'sur', 'wfr']), 'nnb': st.booleans(), 'title': st.sampled_from(TITLES + [None]),
            'kwform': st.booleans(), 'target': st.sampled_from(['str', 'pathlib', 'fileobj', 'buffer']), 'prec': st.sampled_from([64, 64, 32]),
            'gens': st.sampled_from(GENS), 'bad_first': st.sampled_from([False, False, True]),
            'nnbform': st.sampled_from(['bool', 'bool', 'np', 'int'])}      # the flag as True / False, numpy.True_ / numpy.False_, 1 / 0


def strat_codev(tier):
    # a map without a single valid sample has no scale (SSZ) to write: not generated for Code V
    d = _map_fields({'quick': 24, 'thorough': 40}[tier], CODEV_AMPS, NANS_SOME_VALID, large=True, huge=HUGE_SHAPES_CODEV)
    d.update(_codev_fields())
    return st.fixed_dictionaries(d)


def check_codev(case, ctx):
    """write_codev_gridint -> read_codev_gridint: same shape/orientation, NaNs in place, values within one count of the header's SSZ."""
    _labels(case, ctx, CODEV_AMPS)
    ctx.label('target:' + case['target'], 'prec%d' % case['prec'], 'typ:' + case['typ'].upper(), 'nnb' if case['nnb'] else 'bilinear',
              'title:default' if case.get('title', '') is None else 'title:given', 'nnb given as:' + case.get('nnbform', 'bool'),
              'after failing requests' if case.get('bad_first', False) else 'no failing requests', 'generations:%d' % (1 + int(case.get('gens', 0) or 0)))
    _roundtrip(case, 'codev', ctx, '.int')


# ---- history: several files in one process -----------------------------------------------------------
KINDS = ['zygo', 'ifg', 'codev']


def strat_sequence(tier):
    nmax = {'quick': 12, 'thorough': 24}[tier]
    d = _map_fields(nmax, [0.4, 100.0, 1e6], NANS_SOME_VALID)
    d.update(_zygo_fields())
    d.update(_codev_fields())
    d.update(_origin_fields())
    d.update({'kind': st.sampled_from(KINDS), 'reuse_obj': st.booleans(), 'reuse_loaded': st.booleans(),
              'target': st.sampled_from(['str', 'str', 'pathlib', 'fileobj', 'buffer'])})
    one = st.fixed_dictionaries(d)
    return st.fixed_dictionaries({'files': st.lists(one, min_size=2, max_size=3), 'mode': st.sampled_from(['batch', 'one-path']),
                                  'same_shape': st.booleans()})


def check_sequence(case, ctx):
    """2-3 files of mixed kinds / shapes / dtypes / dx / wavelength written and read in one process (distinct paths, or one re-used path / Interferogram): every file returns its own map, results are independent arrays."""
    subs = case['files']
    kinds = [s['kind'] for s in subs]
    ctx.nt(True)
    ctx.label('mode:' + case['mode'], 'kinds:' + ('same' if len(set(kinds)) == 1 else 'mixed'), 'n:%d' % len(subs),
              'dtypes:' + ('same' if len(set(s['dtype'] for s in subs)) == 1 else 'differ'),
              'prec:' + ('same' if len(set(s['prec'] for s in subs)) == 1 else 'differ'),
              'shapes:' + ('same' if case.get('same_shape') or len(set(tuple(s['shape']) for s in subs)) == 1 else 'differ'))
    files, prev = [], None
    with tempfile.TemporaryDirectory() as d:
        for k, s in enumerate(subs):
            reuse = s['kind'] == 'ifg' and s['reuse_obj'] and prev is not None and prev.kind == 'ifg'
            f = _File(s, s['kind'], ctx, shape=subs[0]['shape'] if case.get('same_shape') else None)
            ctx.label(s['kind'] + ': nan:' + (s['nan'] if s.get('dtype', 'f8') in ('f8', 'f4') else 'none(int)'))
            _edge_labels(f.case, ctx, s['kind'] + ': ')
            f.path = os.path.join(d, 'm.dat' if case['mode'] == 'one-path' else 'm%d%s' % (k, '.int' if s['kind'] == 'codev' else '.dat'))
            # ... or the Interferogram that the previous read returned (load -> relabel -> save, the usual workflow)
            reuse_loaded = (s['kind'] == 'ifg' and s.get('reuse_loaded', False) and prev is not None and prev.kind == 'ifg'
                            and prev.result is not None and not isinstance(prev.meta, dict) and prev.meta is not None)
            if reuse_loaded:
                ctx.label('interferogram object returned by the previous read re-used')
                f.write(f.path, obj=f.assign_to(prev.meta))
            elif reuse:
                ctx.label('interferogram object re-used')
                f.write(f.path, obj=f.assign_to(prev.obj))
            else:
                if s['kind'] == 'ifg':
                    _origin_labels(s, ctx)
                f.write(f.path)
            if case['mode'] == 'one-path':
                f.read(f.path)          # the next file replaces this one
            files.append(f)
            prev = f
        if case['mode'] == 'batch':
            for f in files:
                f.read(f.path)
        # all results side by side: none was touched by a later write / read, and each one matches its own oracle
        for f in files:
            f.require_kept('%d more file(s) were written / read' % (len(files) - 1 - files.index(f)))
        for f in files:
            f.compare(':sequence')
        # arguments of the earlier writers are still what they were
        for f in files:
            if not (f.kind == 'ifg' and any(g.obj is f.obj and g is not f for g in files)):
                _require_unchanged(ctx, f.who + ':sequence', f.argnames, f.args, f.snap)
        # results are the caller's: overwrite them, read again
        for f in files:
            f.scribble()
        again = files if case['mode'] == 'batch' else files[-1:]
        for f in again:
            f.read(f.path)
        for f in again:
            r = np.asarray(f.result)
            if r.size and np.all(r == 12345.0):
                ctx.fail(f.who + ':aliased-state', 'the array returned by the first read was filled with 12345 by the caller; a second read of %s returns 12345 everywhere' % os.path.basename(f.path))
            f.compare(':second-read')


# ---- truncation: fault enumeration -----------------------------------------------------------------
_NUMERIC = re.compile(r'(invalid value|overflow|divide by zero|underflow) encountered')


def _is_truncation_warning(w):
    if issubclass(w.category, (DeprecationWarning, PendingDeprecationWarning, FutureWarning, ResourceWarning)):
        return False
    if issubclass(w.category, RuntimeWarning) and _NUMERIC.search(str(w.message)):
        return False
    return True


def _read_cut(reader, path):
    """('raise', exc, warnings) or ('ok', result, warnings); the property allows the reader to raise here."""
    with warnings.catch_warnings(record=True) as wl:
        warnings.simplefilter('always')
        with contextlib.redirect_stdout(io.StringIO()):
            try:
                out = reader(path)
            except Exception as e:  # noqa - accepted outcome for a truncated file
                return 'raise', e, list(wl)
    return 'ok', out, list(wl)


def _judge_cut(ctx, who, cut, total, outcome, arr, wl, shape, missing, detail):
    """returned => full shape, every missing sample NaN, warning emitted"""
    arr = np.asarray(arr)
    if arr.shape != tuple(shape):
        ctx.fail(who + ':truncated:shape', 'file cut to %d of %d bytes (%s): reader returned shape %s for a %s map without raising' % (
            cut, total, detail, arr.shape, tuple(shape)))
    fin = np.isfinite(arr.astype(np.float64)) & missing
    if fin.any():
        i = tuple(int(k) for k in np.argwhere(fin)[0])
        allfin = bool(np.all(np.isfinite(arr)))
        # name the root cause when the invalid marks are merely mirrored
        hint = ''
        if not np.any(np.isfinite(arr.astype(np.float64)) & np.fliplr(missing)) and arr.shape[1] > 1:
            hint = ':mirrored-lr'
        ctx.fail(who + ':truncated:plausible' + hint, 'file cut to %d of %d bytes (%s): reader returned %s array; %d of the %d missing samples '
                 'are finite, e.g. %s = %r' % (cut, total, detail, 'an all-finite' if allfin else 'an', int(fin.sum()), int(missing.sum()), i, arr[i]))
    if not any(_is_truncation_warning(w) for w in wl):
        ctx.fail(who + ':truncated:no-warning', 'file cut to %d of %d bytes (%s): reader returned (missing samples NaN) without a warning' % (
            cut, total, detail))


def strat_zygo_trunc(tier):
    nmax = {'quick': 9, 'thorough': 16}[tier]
    d = _map_fields(nmax, ZYGO_AMPS, NANS_SOME_VALID)
    # cam: the written file is turned into an instrument-like one (small camera frame between header and phase block) before it is cut
    cam = st.fixed_dictionaries({'shape': st.tuples(st.integers(1, 4), st.integers(1, 4)).map(list), 'buckets': st.sampled_from([1, 1, 2]),
                                 'seed': st.integers(0, 100000), 'text': st.integers(0, len(CAM_TEXTS) - 1)})
    d.update({'wavelength': st.sampled_from([0.6328, 1.55]), 'reader': st.sampled_from(['io', 'io', 'interferogram']),
              'writer': st.sampled_from(['io', 'interferogram']), 'cam': st.one_of(st.none(), st.none(), cam)})
    return st.fixed_dictionaries(d)


def check_zygo_trunc(case, ctx):
    """every cut length of a written Zygo .dat: reader raises, or missing samples are NaN and a warning is emitted."""
    from prysm.io import write_zygo_dat, read_zygo_dat
    from prysm.interferogram import Interferogram
    _labels(case, ctx, ZYGO_AMPS)
    ctx.label('reader:' + case['reader'], 'writer:' + case['writer'])
    ctx.nt(True)
    wvl = case['wavelength']
    h, w = case['shape']
    z, want = typed_map(case, _zygo_step(wvl), _zygo_step(wvl) * ZYGO_MAX_COUNTS)
    if case['reader'] == 'io':
        def reader(path):
            return read_zygo_dat(path)['phase']
    else:
        def reader(path):
            return Interferogram.from_zygo_dat(path).data
    with tempfile.TemporaryDirectory() as d:
        p = os.path.join(d, 'full.dat')
        if case['writer'] == 'io':
            ctx.call(write_zygo_dat, p, z, 0.25, wavelength=wvl)
        else:
            ctx.call(ctx.call(Interferogram, phase=z, dx=0.25, wavelength=wvl).save_zygo_dat, p)
        with open(p, 'rb') as fh:
            raw = fh.read()
        total = len(raw)
        first = np.array(ctx.call(reader, p), copy=True)
        # the intact file is a round trip like any other (first sentence of the property); it is judged before the harness' model of the
        # file layout is applied, so that a writer that stores another frame is reported as what it is and not as a harness error
        compare_map(first, want, _zygo_tol(want, wvl, 64, case.get('dtype', 'f8') == 'f4'),
                    ('zygo' if case['reader'] == 'io' and case['writer'] == 'io' else 'interferogram') + ':intact-file', ctx)
        if total != ZYGO_HEADER + 4 * h * w:
            # not a violation of the property: the harness' model of which samples a cut removes no longer applies (exit 2)
            raise RuntimeError('harness layout model: file of a %dx%d map is %d bytes, expected 834 + 4 per sample' % (h, w, total))
        fb = 0      # bytes of the camera frame(s) between header and phase block
        if case.get('cam'):
            raw, _ = _instrument_like(raw, case['cam'], physics=False)
            fb = len(raw) - total
            total = len(raw)
            with open(p, 'wb') as fh:
                fh.write(raw)
            first = np.array(ctx.call(reader, p), copy=True)
            compare_map(first, want, _zygo_tol(want, wvl, 64, case.get('dtype', 'f8') == 'f4'),
                        ('zygo' if case['reader'] == 'io' else 'interferogram') + ':intact-file:instrument-like-file', ctx)
        _cam_labels(case.get('cam'), ctx, 'file that is cut: ')
        t = os.path.join(d, 'cut.dat')
        n_rej = n_nan = 0
        # file order: rows bottom-to-top, row-major; sample k occupies bytes 834+fb+4k .. 834+fb+4k+3
        korder = np.arange(h * w).reshape(h, w)[::-1, :]     # korder[r, c] = file index of array sample (r, c)
        with open(t, 'wb') as fh:
            fh.write(raw)
        for cut in range(total - 1, -1, -1):     # every cut length; shrinking one scratch file is the cheapest way
            os.truncate(t, cut)
            n_complete = max(0, (cut - ZYGO_HEADER - fb) // 4)
            missing = korder >= n_complete
            outcome, out, wl = _read_cut(reader, t)
            if outcome == 'raise':
                n_rej += 1
                continue
            n_nan += 1
            _judge_cut(ctx, 'read_zygo_dat' if case['reader'] == 'io' else 'from_zygo_dat', cut, total, outcome, out, wl, (h, w), missing,
                       'header' if cut < ZYGO_HEADER else 'camera frame' if cut < ZYGO_HEADER + fb else
                       '%d complete samples + %d bytes' % (n_complete, (cut - ZYGO_HEADER - fb) % 4))
        # history: the intact file read after all the damaged ones gives what it gave before them
        U.check_equal(np.asarray(ctx.call(reader, p)), first, ('read_zygo_dat' if case['reader'] == 'io' else 'from_zygo_dat') + ':after-truncated-reads',
                      'intact file read again after %d reads of truncated copies' % total)
    ctx.tally('cut_points', total)
    ctx.tally('cut_points_in_data_block', total - ZYGO_HEADER - fb)
    ctx.tally('cut_points_in_camera_frame', fb)
    ctx.tally('cuts_rejected', n_rej)
    ctx.tally('cuts_read_nan_and_warning', n_nan)


_TOKEN = re.compile(r'\S+')


def strat_codev_trunc(tier):
    nmax = {'quick': 10, 'thorough': 20}[tier]
    d = _map_fields(nmax, CODEV_AMPS, NANS_SOME_VALID)
    d.update({'typ': st.sampled_from(['SUR', 'WFR']), 'nnb': st.booleans(), 'title': st.sampled_from(TITLES)})
    return st.fixed_dictionaries(d)


def check_codev_trunc(case, ctx):
    """every cut length of a written Code V grid INT file: reader raises, or missing samples NaN + warning (final-number cuts undecidable)."""
    from prysm.io import write_codev_gridint, read_codev_gridint
    _labels(case, ctx, CODEV_AMPS)
    ctx.nt(True)
    h, w = case['shape']
    z, want = typed_map(case, 1.0, float('inf'))

    def reader(path):
        return read_codev_gridint(path)[0]
    with tempfile.TemporaryDirectory() as d:
        p = os.path.join(d, 'full.int')
        ctx.call(write_codev_gridint, z, p, comment=case['title'], typ=case['typ'], nnb=case['nnb'])
        with open(p, newline='') as fh:
            text = fh.read()
        first = np.array(ctx.call(reader, p), copy=True)
        hdr = _codev_header(text)
        ctx.require(hdr is not None, 'codev:header', 'header line of the written file is not a GRD header')
        # the intact file is a round trip like any other: judged before the harness' model of the data block is applied
        if hdr['ssz'] != 0 and np.isfinite(hdr['ssz']):
            a = np.where(np.isnan(want), 0.0, np.abs(want))
            compare_map(first, want, 1000.0 * hdr['wvl'] / abs(hdr['ssz']) * (1 + 1e-9) + a * (1e-12 + (2.0 ** -19 if case.get('dtype', 'f8') == 'f4' else 0.0)),
                        'codev:intact-file', ctx)
        toks = [(mm.start() + hdr['data_offset'], mm.end() + hdr['data_offset']) for mm in _TOKEN.finditer(text[hdr['data_offset']:])]
        if not text.isascii() or len(toks) != h * w:
            # the harness' model of which samples a cut removes (one token per sample, one byte per character) would not apply
            raise RuntimeError('harness layout model: data block of a %dx%d map has %d tokens' % (h, w, len(toks)))
        last_s, last_e = toks[-1]
        ends = np.array([e for _, e in toks])
        korder = np.arange(h * w).reshape(h, w)[::-1, :]
        total = len(text)
        t = os.path.join(d, 'cut.int')
        n_rej = n_nan = n_und = n_lossless = n_strict = 0
        with open(t, 'w', newline='') as fh:
            fh.write(text)
        for cut in range(total - 1, -1, -1):     # every cut length (ASCII: bytes == characters)
            os.truncate(t, cut)
            outcome, out, wl = _read_cut(reader, t)
            if cut >= last_e:
                n_lossless += 1      # only trailing white space removed: nothing is missing
                continue
            if cut > last_s:
                n_und += 1           # inside the final number: a complete file with another last value
                continue
            n_strict += 1
            if outcome == 'raise':
                n_rej += 1
                continue
            n_nan += 1
            n_complete = int(np.sum(ends <= cut))
            # a token that ends exactly at the cut is complete only if something (white space) followed it in the
            # original; it is still a whole number in the prefix, so it counts as present
            missing = korder >= n_complete
            _judge_cut(ctx, 'read_codev_gridint', cut, total, outcome, out, wl, (h, w), missing,
                       'header' if cut < hdr['data_offset'] else '%d complete numbers' % n_complete)
        U.check_equal(np.asarray(ctx.call(reader, p)), first, 'read_codev_gridint:after-truncated-reads',
                      'intact file read again after %d reads of truncated copies' % total)
    ctx.tally('cut_points', total)
    ctx.tally('cut_points_whole_sample_lost', n_strict)
    ctx.tally('cut_points_inside_final_number_undecidable', n_und)
    ctx.tally('cut_points_only_trailing_whitespace_lost', n_lossless)
    ctx.tally('cuts_rejected', n_rej)
    ctx.tally('cuts_read_nan_and_warning', n_nan)


CLAUSES = [
    HypClause('zygo_roundtrip', strat_zygo, check_zygo, examples={'quick': 400, 'thorough': 1500}, shards={'quick': 3, 'thorough': 6}),
    HypClause('interferogram_roundtrip', strat_ifg, check_interferogram, examples={'quick': 400, 'thorough': 1500},
              shards={'quick': 3, 'thorough': 6}),
    HypClause('codev_roundtrip', strat_codev, check_codev, examples={'quick': 400, 'thorough': 1500}, shards={'quick': 3, 'thorough': 6}),
    HypClause('file_sequence', strat_sequence, check_sequence, examples={'quick': 250, 'thorough': 1000}, shards={'quick': 2, 'thorough': 4}),
    HypClause('zygo_truncation', strat_zygo_trunc, check_zygo_trunc, examples={'quick': 30, 'thorough': 250},
              shards={'quick': 6, 'thorough': 16}),
    HypClause('codev_truncation', strat_codev_trunc, check_codev_trunc, examples={'quick': 60, 'thorough': 400},
              shards={'quick': 3, 'thorough': 8}),
]
