"""C11 - Zernike (Noll, Fringe, ANSI) and XY index conventions are bijections onto valid orders."""
import math

import numpy as np

from hypothesis import strategies as st

from vlib.core import HypClause, EnumClause

RULE = ("Also call sequences: random interleavings of the six index functions with mistaken requests (float / zero / negative / None / string index, wrong-parity or |m| > n orders) caught in between, every valid answer compared with the integer reference.  Complete enumeration of every index j in 1..J (ANSI from 0) in blocks of 500 consecutive indices "
        "(J = 1e5 quick, 2e6 thorough; XY 2e4 / 2e5 because xy_j_to_mn is O(sqrt j) per call with a large constant) "
        "and of every valid (n,m) with n<=N for the inverse maps; plus Hypothesis-drawn j up to 1e12 (Fringe, ANSI), "
        "1e10 (Noll), 1e9 (XY) placed at and next to perfect squares and triangular numbers where float sqrt/ceil would "
        "first go wrong.  Oracle: integer-arithmetic reference models of each convention (math.isqrt), validity, "
        "injectivity/surjectivity per complete block, inverse round trips, published ordering rules.  A case is a block "
        "(or one j); non-trivial = contains an index > 100 (beyond what the repository's tests sample).")
ASSUMPTIONS = ["Python integer arithmetic and math.isqrt are exact", "indices above 2^50 are outside the claim"]

BLOCK = 500


# ---- integer reference models --------------------------------------------------------------------
def tri_row(j0):
    """largest n with n(n+1)/2 <= j0 (j0 zero-based)"""
    return (math.isqrt(8 * j0 + 1) - 1) // 2


def ref_noll(j):
    n = tri_row(j - 1)
    res = j - 1 - n * (n + 1) // 2
    am = 2 * ((res + 1) // 2) if n % 2 == 0 else 2 * (res // 2) + 1
    if am == 0:
        return n, 0
    return n, (am if j % 2 == 0 else -am)


def ref_ansi(j):
    n = tri_row(j)
    return n, 2 * j - n * (n + 2)


def ref_fringe(j):
    k = math.isqrt(j - 1) + 1
    s = 2 * (k - 1)
    p = j - ((k - 1) ** 2 + 1)
    n = s // 2 + p // 2
    m = (s - n) * (1 - 2 * (p % 2))
    return n, m


def ref_xy(j):
    d = tri_row(j - 1)
    p = j - 1 - d * (d + 1) // 2   # 0 -> X^d ... d -> Y^d
    return d - p, p


def valid_nm(n, m):
    return n >= abs(m) and (n - abs(m)) % 2 == 0


def _eq(a, b):
    try:
        return len(a) == 2 and int(a[0]) == b[0] and int(a[1]) == b[1] and a[0] == b[0] and a[1] == b[1]
    except Exception:  # noqa
        return False


# ---- exhaustive blocks ---------------------------------------------------------------------------
def enum_blocks(which, J):
    def gen(tier):
        top = J[tier]
        start = 0 if which == 'ansi' else 1
        for lo in range(start, top + 1, BLOCK):
            yield {'conv': which, 'lo': lo, 'hi': min(lo + BLOCK, top + 1)}
    return gen


def check_block(case, ctx):
    """every j in [lo,hi): forward map == integer reference model, image valid, inverse undoes it, ordering rules."""
    from prysm import polynomials as P
    conv, lo, hi = case['conv'], case['lo'], case['hi']
    ctx.nt(hi - 1 > 100)
    ctx.label(conv)
    ctx.tally('indices_checked', hi - lo)
    seen = set()
    prev = None
    for j in range(lo, hi):
        if conv == 'noll':
            got = ctx.call(P.noll_to_nm, j)
            want = ref_noll(j)
            ctx.require(_eq(got, want), 'noll_to_nm', 'noll_to_nm(%d) = %r, reference %r' % (j, got, want))
            n, m = int(got[0]), int(got[1])
            ctx.require(valid_nm(n, m), 'noll_to_nm:invalid', 'noll_to_nm(%d) = %r is not a valid order' % (j, got))
            if m != 0:
                ctx.require((j % 2 == 0) == (m > 0), 'noll_to_nm:parity', 'Noll %d -> m=%d: even index must be cosine (m>0)' % (j, m))
            if prev is not None:
                ctx.require(n >= prev[0] and (n > prev[0] or abs(m) >= abs(prev[1])), 'noll_to_nm:order',
                            'Noll ordering broken between %d->%r and %d->%r' % (j - 1, prev, j, (n, m)))
            prev = (n, m)
        elif conv == 'fringe':
            got = ctx.call(P.fringe_to_nm, j)
            want = ref_fringe(j)
            ctx.require(_eq(got, want), 'fringe_to_nm', 'fringe_to_nm(%d) = %r, reference %r' % (j, got, want))
            n, m = int(got[0]), int(got[1])
            ctx.require(valid_nm(n, m), 'fringe_to_nm:invalid', 'fringe_to_nm(%d) = %r is not a valid order' % (j, got))
            back = ctx.call(P.nm_to_fringe, n, m)
            ctx.require(back == j, 'nm_to_fringe', 'nm_to_fringe(%d,%d) = %r, expected %d' % (n, m, back, j))
            if prev is not None:
                ctx.require(n + abs(m) >= prev[0] + abs(prev[1]), 'fringe_to_nm:order', 'Fringe n+|m| decreased at %d' % j)
            prev = (n, m)
        elif conv == 'ansi':
            got = ctx.call(P.ansi_j_to_nm, j)
            want = ref_ansi(j)
            ctx.require(_eq(got, want), 'ansi_j_to_nm', 'ansi_j_to_nm(%d) = %r, reference %r' % (j, got, want))
            n, m = int(got[0]), int(got[1])
            ctx.require(valid_nm(n, m), 'ansi_j_to_nm:invalid', 'ansi_j_to_nm(%d) = %r is not a valid order' % (j, got))
            ctx.require(2 * j == n * (n + 2) + m, 'ansi:formula', 'j=%d != (n(n+2)+m)/2 for %r' % (j, got))
            back = ctx.call(P.nm_to_ansi_j, n, m)
            ctx.require(back == j, 'nm_to_ansi_j', 'nm_to_ansi_j(%d,%d) = %r, expected %d' % (n, m, back, j))
        elif conv == 'xy':
            from prysm.polynomials.xy import xy_j_to_mn
            got = ctx.call(xy_j_to_mn, j)
            want = ref_xy(j)
            ctx.require(_eq(got, want), 'xy_j_to_mn', 'xy_j_to_mn(%d) = %r, reference %r' % (j, got, want))
            ctx.require(got[0] >= 0 and got[1] >= 0, 'xy_j_to_mn:invalid', 'negative exponent for j=%d: %r' % (j, got))
        seen.add((int(got[0]), int(got[1])))
    ctx.require(len(seen) == hi - lo, conv + ':injective', 'block [%d,%d) maps to only %d distinct orders' % (lo, hi, len(seen)))


def enum_inverse(tier):
    N = {'quick': 300, 'thorough': 900}[tier]
    for n in range(0, N + 1):
        yield {'n': n}


def check_inverse(case, ctx):
    """all valid (n,m) of radial order n: nm_to_* then *_to_nm is the identity; rows of n are hit exactly by the right j range."""
    from prysm import polynomials as P
    n = case['n']
    ctx.nt(n > 12)
    js_ansi, js_fringe = [], []
    for m in range(-n, n + 1, 2):
        ja = ctx.call(P.nm_to_ansi_j, n, m)
        ctx.require(2 * ja == n * (n + 2) + m, 'nm_to_ansi_j', 'nm_to_ansi_j(%d,%d) = %r' % (n, m, ja))
        ctx.require(_eq(ctx.call(P.ansi_j_to_nm, ja), (n, m)), 'ansi_j_to_nm', 'ansi_j_to_nm(nm_to_ansi_j(%d,%d)) != identity' % (n, m))
        jf = ctx.call(P.nm_to_fringe, n, m)
        ctx.require(isinstance(jf, int) and jf >= 1, 'nm_to_fringe', 'nm_to_fringe(%d,%d) = %r' % (n, m, jf))
        ctx.require(_eq(ctx.call(P.fringe_to_nm, jf), (n, m)), 'fringe_to_nm', 'fringe_to_nm(nm_to_fringe(%d,%d)=%d) = %r' % (
            n, m, jf, P.fringe_to_nm(jf)))
        js_ansi.append(ja)
        js_fringe.append(jf)
    # surjectivity: ANSI row n is exactly j = n(n+1)/2 .. n(n+1)/2+n ; Noll row n is exactly n(n+1)/2+1 ..
    ctx.require(sorted(js_ansi) == list(range(n * (n + 1) // 2, n * (n + 1) // 2 + n + 1)), 'ansi:surjective', 'ANSI row %d' % n)
    ctx.require(len(set(js_fringe)) == n + 1, 'fringe:injective', 'Fringe indices of row %d collide' % n)
    if n <= 250:
        row = sorted(tuple(map(int, ctx.call(P.noll_to_nm, j))) for j in range(n * (n + 1) // 2 + 1, n * (n + 1) // 2 + n + 2))
        ctx.require(row == sorted((n, m) for m in range(-n, n + 1, 2)), 'noll:surjective', 'Noll row %d is not the complete set of orders' % n)
        from prysm.polynomials.xy import xy_j_to_mn
        row = sorted(tuple(map(int, ctx.call(xy_j_to_mn, j))) for j in range(n * (n + 1) // 2 + 1, n * (n + 1) // 2 + n + 2))
        ctx.require(row == sorted((n - p, p) for p in range(n + 1)), 'xy:surjective', 'XY degree %d block is not the complete set of monomials' % n)


# ---- targeted random -----------------------------------------------------------------------------
LIMITS = {'noll': 10**10, 'fringe': 10**12, 'ansi': 10**12, 'xy': 10**8}


def strat_targeted(tier):
    def build(conv):
        top = LIMITS[conv] if tier == 'thorough' else min(LIMITS[conv], 10**10 if conv != 'xy' else 10**7)
        k_sq = st.integers(1, math.isqrt(top) - 1)
        k_tri = st.integers(1, tri_row(top) - 1)
        return st.fixed_dictionaries({
            'conv': st.just(conv),
            'base': st.one_of(k_sq.map(lambda k: ['square', k]), k_tri.map(lambda k: ['tri', k]),
                              st.integers(1, top - 5).map(lambda k: ['plain', k])),
            'off': st.integers(-2, 2)})
    return st.sampled_from(['noll', 'fringe', 'ansi', 'xy']).flatmap(build)


def _j_of(case):
    kind, k = case['base']
    j = {'square': k * k, 'tri': k * (k + 1) // 2, 'plain': k}[kind] + case['off']
    return max(1, j)


def check_targeted(case, ctx):
    """one large j at / next to a perfect square or triangular number against the integer reference model."""
    from prysm import polynomials as P
    from prysm.polynomials.xy import xy_j_to_mn
    conv = case['conv']
    j = _j_of(case)
    ctx.nt(j > 100)
    ctx.label(conv, case['base'][0], 'j>1e6' if j > 10**6 else 'j<=1e6')
    if conv == 'noll':
        got, want = ctx.call(P.noll_to_nm, j), ref_noll(j)
    elif conv == 'fringe':
        got, want = ctx.call(P.fringe_to_nm, j), ref_fringe(j)
        ctx.require(ctx.call(P.nm_to_fringe, *want) == j, 'nm_to_fringe', 'nm_to_fringe%r != %d' % (want, j))
    elif conv == 'ansi':
        got, want = ctx.call(P.ansi_j_to_nm, j), ref_ansi(j)
        ctx.require(ctx.call(P.nm_to_ansi_j, *want) == j, 'nm_to_ansi_j', 'nm_to_ansi_j%r != %d' % (want, j))
    else:
        got, want = ctx.call(xy_j_to_mn, j), ref_xy(j)
    ctx.require(_eq(got, want), conv + '_to_nm:large', '%s index %d -> %r, reference %r' % (conv, j, got, want))


def enum_xy_table(tier):
    yield {'table': 'codev'}
    yield {'table': 'noll-first'}


CODEV = {2: (1, 0), 3: (0, 1), 4: (2, 0), 5: (1, 1), 6: (0, 2), 7: (3, 0), 8: (2, 1), 9: (1, 2), 10: (0, 3), 11: (4, 0),
         12: (3, 1), 13: (2, 2), 14: (1, 3), 15: (0, 4), 16: (5, 0), 17: (4, 1), 18: (3, 2), 19: (2, 3), 20: (1, 4), 21: (0, 5),
         23: (5, 1), 24: (4, 2), 25: (3, 3), 26: (2, 4), 27: (1, 5), 31: (5, 2), 32: (4, 3), 33: (3, 4), 34: (2, 5),
         40: (5, 3), 41: (4, 4), 42: (3, 5), 51: (4, 5), 61: (5, 5)}
# Noll 1976 table I, first 15 (n, m with m>0 cosine)
NOLL15 = {1: (0, 0), 2: (1, 1), 3: (1, -1), 4: (2, 0), 5: (2, -2), 6: (2, 2), 7: (3, -1), 8: (3, 1), 9: (3, -3), 10: (3, 3),
          11: (4, 0), 12: (4, 2), 13: (4, -2), 14: (4, 4), 15: (4, -4)}
FRINGE16 = {1: (0, 0), 2: (1, 1), 3: (1, -1), 4: (2, 0), 5: (2, 2), 6: (2, -2), 7: (3, 1), 8: (3, -1), 9: (4, 0), 10: (3, 3),
            11: (3, -3), 12: (4, 2), 13: (4, -2), 14: (5, 1), 15: (5, -1), 16: (6, 0)}


def check_tables(case, ctx):
    """published tables: Code V XY coefficient table (source comment), Noll's first 15, Fringe's first 16 - also pins the reference models."""
    from prysm import polynomials as P
    from prysm.polynomials.xy import xy_j_to_mn
    ctx.nt(True)
    if case['table'] == 'codev':
        for j, mn in CODEV.items():
            assert ref_xy(j) == mn, (j, mn)
            ctx.require(_eq(ctx.call(xy_j_to_mn, j), mn), 'xy_j_to_mn:table', 'xy_j_to_mn(%d) != Code V table %r' % (j, mn))
        ctx.require(_eq(ctx.call(xy_j_to_mn, 1), (0, 0)), 'xy_j_to_mn:table', 'j=1 is piston')
    else:
        for j, nm in NOLL15.items():
            assert ref_noll(j) == nm, (j, nm, ref_noll(j))
            ctx.require(_eq(ctx.call(P.noll_to_nm, j), nm), 'noll_to_nm:table', 'noll_to_nm(%d) != Noll table %r' % (j, nm))
        for j, nm in FRINGE16.items():
            assert ref_fringe(j) == nm, (j, nm, ref_fringe(j))
            ctx.require(_eq(ctx.call(P.fringe_to_nm, j), nm), 'fringe_to_nm:table', 'fringe_to_nm(%d) != Fringe table %r' % (j, nm))



# ---- the index / order arguments in the integer types callers actually hold ------------------------------------------
def strat_types(tier):
    def build(t):
        typ = t
        nmax = {'int': 400, 'np.int64': 400, 'np.int32': 400, '0d-array': 400, 'np.int16': 100, 'np.int8': 9}[typ]
        return st.integers(0, nmax).flatmap(lambda n: st.fixed_dictionaries({
            'type': st.just(typ), 'n': st.just(n), 'k': st.integers(0, n), 'j': st.integers(1, 10**6 if typ not in ('np.int16', 'np.int8') else 100)}))
    return st.sampled_from(['int', 'np.int64', 'np.int32', '0d-array', 'np.int16', 'np.int8']).flatmap(build)


def _typed(v, typ):
    import numpy as np
    if typ == 'int':
        return int(v)
    if typ == '0d-array':
        return np.array(v, dtype=np.int64)
    return getattr(np, typ[3:])(v)


def check_types(case, ctx):
    """the maps give the same answers whether indices / orders arrive as Python ints, numpy integer scalars of any width that
    holds them, or 0-d arrays, and they leave the caller's objects unchanged."""
    from prysm import polynomials as P
    from prysm.polynomials.xy import xy_j_to_mn
    typ, n, j = case['type'], case['n'], case['j']
    m = -n + 2 * case['k']
    ctx.nt(typ != 'int')
    ctx.label('type:' + typ)
    nn, mm = _typed(n, typ), _typed(m, typ)
    jf = ctx.call(P.nm_to_fringe, nn, mm)
    ctx.require(int(jf) >= 1 and _eq(ctx.call(P.fringe_to_nm, int(jf)), (n, m)), 'nm_to_fringe:' + typ,
                'nm_to_fringe(%s(%d), %s(%d)) = %r, which fringe_to_nm maps to %r' % (typ, n, typ, m, jf, P.fringe_to_nm(int(jf)) if int(jf) >= 1 else None))
    ja = ctx.call(P.nm_to_ansi_j, nn, mm)
    ctx.require(2 * int(ja) == n * (n + 2) + m, 'nm_to_ansi_j:' + typ, 'nm_to_ansi_j(%s(%d), %s(%d)) = %r' % (typ, n, typ, m, ja))
    ctx.require(int(nn) == n and int(mm) == m, 'inverse-maps:argument-modified', 'the caller\'s (n, m) objects were changed: now %r, %r' % (nn, mm))
    if typ in ('np.int16', 'np.int8'):
        # narrow integer orders are exercised on the (n,m) -> j maps only, in the range where n(n+2) itself fits the type;
        # an index j held in a narrow type overflows in the unchanged code's own 8*j (numpy semantics of the caller's dtype)
        return
    for name, fn, ref in (('noll_to_nm', P.noll_to_nm, ref_noll), ('fringe_to_nm', P.fringe_to_nm, ref_fringe),
                          ('ansi_j_to_nm', P.ansi_j_to_nm, ref_ansi), ('xy_j_to_mn', xy_j_to_mn, ref_xy)):
        jj = j if name != 'xy_j_to_mn' else min(j, 20000)
        jt = _typed(jj, typ)
        got = ctx.call(fn, jt)
        ctx.require(_eq(got, ref(jj)), name + ':' + typ, '%s(%s(%d)) = %r, reference %r' % (name, typ, jj, got, ref(jj)))
        ctx.require(int(jt) == jj, name + ':argument-modified', '%s changed the caller\'s index object from %d to %r' % (name, jj, jt))
        got2 = ctx.call(fn, jt)
        ctx.require(_eq(got2, ref(jj)), name + ':second-lookup', 'looking the same index object up twice gives %r then %r' % (got, got2))
    # unsigned numpy integers (an index taken from np.arange(..., dtype=np.uint16), a 0-d unsigned array): fringe_to_nm and xy_j_to_mn accept them
    # on the unchanged tree (observed); noll_to_nm / ansi_j_to_nm do integer arithmetic in the caller's dtype and are documented for `int` only, so
    # nothing is asserted for those two
    import numpy as np
    ut = [np.uint8, np.uint16, np.uint32, np.uint64][(n + j) % 4]
    ju = 1 + (j % 200 if ut is np.uint8 else j % 60000)
    for name, fn, ref in (('fringe_to_nm', P.fringe_to_nm, ref_fringe), ('xy_j_to_mn', xy_j_to_mn, ref_xy)):
        for form in ('scalar', '0d'):
            jt = ut(ju) if form == 'scalar' else np.array(ju, dtype=ut)
            got = ctx.call(fn, jt)
            ctx.require(_eq(got, ref(ju)), name + ':unsigned', '%s(%s %s(%d)) = %r, reference %r' % (name, form, ut.__name__, ju, got, ref(ju)))
    ctx.label('unsigned:' + ut.__name__)

# ---- call sequences: siblings interleaved, requests that fail in between --------------------------------------------------------------
def strat_sequences(tier):
    j = st.one_of(st.integers(1, 40), st.integers(1, 400), st.integers(1, 20000))
    n = st.one_of(st.integers(0, 8), st.integers(0, 60))
    good = st.one_of(
        st.tuples(st.sampled_from(['noll_to_nm', 'fringe_to_nm', 'xy_j_to_mn', 'ansi_j_to_nm']), j).map(lambda t: {'fn': t[0], 'j': t[1]}),
        st.tuples(st.sampled_from(['nm_to_ansi_j', 'nm_to_fringe']), n, st.integers(0, 60), st.booleans()).map(
            lambda t: {'fn': t[0], 'n': t[1], 'm': (t[2] % (t[1] + 1)) - ((t[2] % (t[1] + 1) - t[1]) % 2), 'neg': t[3]}))
    # requests a caller may issue by mistake; nothing is asserted about them (they may raise or return anything)
    junk = st.one_of(
        st.tuples(st.sampled_from(['noll_to_nm', 'fringe_to_nm', 'xy_j_to_mn', 'ansi_j_to_nm']),
                  st.sampled_from(['float', 'zero', 'negative', 'none', 'str', 'half'])).map(lambda t: {'fn': t[0], 'junk': t[1]}),
        st.tuples(st.sampled_from(['nm_to_ansi_j', 'nm_to_fringe']), st.integers(0, 12), st.integers(-14, 14),
                  st.sampled_from(['wrong-parity', 'm>n', 'float'])).map(lambda t: {'fn': t[0], 'n': t[1], 'm': t[2], 'junk': t[3]}))
    return st.fixed_dictionaries({'ops': st.lists(st.one_of(good, good, good, junk), min_size=2, max_size=14), 'seed': st.integers(0, 10**6),
                                  # how the arguments of the valid requests are passed: positionally, by keyword, or alternating
                                  'argstyle': st.sampled_from(['positional', 'positional', 'keyword', 'alternating']),
                                  'threads': st.sampled_from(['main', 'main', 'new-thread-per-request', 'one-worker-thread', 'alternating-threads'])})


class _Timeout(BaseException):
    pass


def _mistaken(fn, args, seconds=2):
    """issue a mistaken request the way a caller would (catching whatever comes); a request that does not come back within `seconds` is
    abandoned.  Returns 1 if it raised or was abandoned."""
    import signal

    def _alarm(*a):
        raise _Timeout()
    old = signal.signal(signal.SIGALRM, _alarm)
    signal.alarm(seconds)
    try:
        fn(*args)
        return 0
    except _Timeout:
        return 1
    except Exception:      # noqa - the caller of a mistaken request catches whatever comes
        return 1
    finally:
        signal.alarm(0)
        signal.signal(signal.SIGALRM, old)


def check_sequences(case, ctx):
    """any interleaving of the index maps and their inverses, with mistaken requests in between: every valid request is answered as by a fresh process."""
    from prysm import polynomials as P
    from prysm.polynomials.xy import xy_j_to_mn
    fns = {'noll_to_nm': P.noll_to_nm, 'fringe_to_nm': P.fringe_to_nm, 'ansi_j_to_nm': P.ansi_j_to_nm, 'xy_j_to_mn': xy_j_to_mn,
           'nm_to_ansi_j': P.nm_to_ansi_j, 'nm_to_fringe': P.nm_to_fringe}
    refs = {'noll_to_nm': ref_noll, 'fringe_to_nm': ref_fringe, 'ansi_j_to_nm': ref_ansi, 'xy_j_to_mn': ref_xy}
    njunk = nraise = 0
    hist = []
    style = case.get('argstyle', 'positional')
    ctx.label('args:' + style)
    kwnames = {'noll_to_nm': ('idx',), 'fringe_to_nm': ('idx',), 'ansi_j_to_nm': ('idx',), 'xy_j_to_mn': ('j',), 'nm_to_ansi_j': ('n', 'm'), 'nm_to_fringe': ('n', 'm')}

    # which thread asks: the one that imported the library, or worker threads the harness starts and joins one at a time (the harness owns the
    # schedule: never two threads at once) - a new thread for every request, or one long-lived worker fed through queues
    threads = case.get('threads', 'main')
    ctx.label('thread:' + threads)
    worker = {}

    def in_thread(call):
        import threading
        import queue
        if threads == 'new-thread-per-request':
            box = []

            def run():
                try:
                    box.append(('ok', call()))
                except BaseException as e:      # noqa - handed back to the asking thread
                    box.append(('err', e))
            t = threading.Thread(target=run)
            t.start()
            t.join()
        else:
            if not worker:
                worker['in'], worker['out'] = queue.Queue(), queue.Queue()

                def loop():
                    while True:
                        c = worker['in'].get()
                        if c is None:
                            return
                        try:
                            worker['out'].put(('ok', c()))
                        except BaseException as e:      # noqa
                            worker['out'].put(('err', e))
                worker['t'] = threading.Thread(target=loop, daemon=True)
                worker['t'].start()
            worker['in'].put(call)
            box = [worker['out'].get()]
        kind, val = box[0]
        if kind == 'err':
            raise val
        return val

    def request(name, fn, *args):
        bykw = style == 'keyword' or (style == 'alternating' and len(hist) % 2 == 0)
        if threads != 'main' and (threads != 'alternating-threads' or len(hist) % 2):
            if bykw:
                return in_thread(lambda: ctx.call(fn, **dict(zip(kwnames[name], args))))
            return in_thread(lambda: ctx.call(fn, *args))
        if bykw:
            return ctx.call(fn, **dict(zip(kwnames[name], args)))
        return ctx.call(fn, *args)
    try:
        for op in case['ops']:
            fn = fns[op['fn']]
            if 'junk' in op:
                njunk += 1
                if 'j' not in op and 'n' not in op:
                    base = 7 + len(hist)
                    arg = {'float': float(base), 'zero': 0, 'negative': -base, 'none': None, 'str': str(base), 'half': base + 0.5}[op['junk']]
                    args = (arg,)
                else:
                    n_, m_ = op['n'], op['m']
                    if op['junk'] == 'wrong-parity':
                        m_ = m_ if (n_ - m_) % 2 else m_ + 1
                    elif op['junk'] == 'm>n':
                        m_ = n_ + 2 * (1 + abs(m_))
                    else:
                        n_, m_ = float(n_) + 0.5, float(m_)
                    args = (n_, m_)
                if op['fn'] == 'xy_j_to_mn' and op['junk'] == 'half':
                    continue          # does not terminate on the unchanged tree (its search loop never meets a non-integer index)
                nraise += _mistaken(fn, args)
                hist.append('%s%r (mistaken)' % (op['fn'], args))
                continue
            if 'j' in op:
                jj = op['j'] - 1 if (op['fn'] == 'ansi_j_to_nm' and op['j'] % 3 == 0) else op['j']     # ANSI counts from 0
                got = request(op['fn'], fn, jj)
                want = refs[op['fn']](jj)
                hist.append('%s(%d)' % (op['fn'], jj))
                ctx.require(_eq(got, want), op['fn'] + ':after-history', '%s(%d) = %r, expected %r, after %s' % (op['fn'], jj, got, want, ', '.join(hist[:-1]) or 'nothing'))
            else:
                n_, m_ = op['n'], (-op['m'] if op['neg'] else op['m'])
                hist.append('%s(%d, %d)' % (op['fn'], n_, m_))
                got = request(op['fn'], fn, n_, m_)
                if op['fn'] == 'nm_to_ansi_j':
                    ok = (2 * got == n_ * (n_ + 2) + m_)
                else:
                    ok = isinstance(got, (int, np.integer)) and got >= 1 and ref_fringe(int(got)) == (n_, m_)
                ctx.require(bool(ok), op['fn'] + ':after-history', '%s(%d, %d) = %r after %s' % (op['fn'], n_, m_, got, ', '.join(hist[:-1]) or 'nothing'))
    finally:
        if worker:
            worker['in'].put(None)
            worker['t'].join(5)
    ctx.nt(njunk > 0 or len(set(o['fn'] for o in case['ops'])) > 2)
    ctx.label('mistaken-requests:%d' % min(njunk, 3), 'raised:%d' % min(nraise, 3), 'ops:%s' % ('<6' if len(case['ops']) < 6 else '>=6'))


def _with_prec(strat):
    def f(tier):
        return st.tuples(strat(tier), st.sampled_from([64, 64, 32])).map(lambda t: dict(t[0], prec=t[1]))
    return f


def _at_precision(inner):
    """prysm.conf.config.precision (32 / 64) is part of the environment of every call; an index map does not depend on it"""
    def check(case, ctx):
        prec = case.get('prec', 64)
        if prec != 64:
            ctx.label('config.precision=32')
        from vlib import util as U_
        with U_.precision(prec):
            inner(case, ctx)
    check.__doc__ = inner.__doc__
    return check


CLAUSES = [
    EnumClause('noll_blocks', enum_blocks('noll', {'quick': 100000, 'thorough': 2000000}), check_block),
    EnumClause('fringe_blocks', enum_blocks('fringe', {'quick': 100000, 'thorough': 2000000}), check_block),
    EnumClause('ansi_blocks', enum_blocks('ansi', {'quick': 100000, 'thorough': 2000000}), check_block),
    EnumClause('xy_blocks', enum_blocks('xy', {'quick': 20000, 'thorough': 200000}), check_block),
    EnumClause('inverse_rows', enum_inverse, check_inverse),
    EnumClause('published_tables', enum_xy_table, check_tables, shards={'quick': 2, 'thorough': 2}),
    HypClause('argument_types', _with_prec(strat_types), _at_precision(check_types), examples={'quick': 600, 'thorough': 4000}, shards={'quick': 2, 'thorough': 8}),
    HypClause('call_sequences', _with_prec(strat_sequences), _at_precision(check_sequences), examples={'quick': 800, 'thorough': 5000}, shards={'quick': 4, 'thorough': 16}),
    HypClause('targeted_large', _with_prec(strat_targeted), _at_precision(check_targeted), examples={'quick': 300, 'thorough': 1500}, shards={'quick': 4, 'thorough': 16}),
]
