"""C17 - thin-film and Fresnel coefficients conserve energy and agree with each other."""
import math

import numpy as np
from hypothesis import strategies as st

from vlib.core import HypClause
from vlib import util as U

RULE = ("Hypothesis-drawn stacks of 1-6 layers (index in [1,4], thickness in [0,2] um incl. exactly 0, wavelength "
        "0.3-2 um, ambient index 1-2.5, both polarisations, list-of-tuples and ndarray forms).  The angle of incidence is "
        "constructed, never rejected: aoi = f * asin(min(1, n_min/n0)) with f in [0, 0.995], so every case lies below "
        "total internal reflection for every lossless medium of the stack.  Oracles (harness arithmetic only): "
        "R + T*(n_s cos th_s)/(n0 cos th0) = 1 (<= 1 when interior layers absorb, index written n + i*kappa as in "
        "tests/test_thinfilm.py); one-layer stack vs fresnel_rs/rp/ts/tp, Fresnel energy balance, the closed forms "
        "-sin(a-b)/sin(a+b) and tan(a-b)/tan(a+b), r_p = 0 at Brewster's angle, Snell invariant; a zero-thickness layer "
        "inserted in front of any layer and a half-wave absentee layer (n d cos th = m lambda/2) leave r (resp. R, T) "
        "unchanged; a batched (L,2,*B) stack equals the per-element loop.  Non-trivial = oblique incidence (f > 0.02) "
        "and, for stack clauses, at least one layer of non-zero thickness in front of the exit medium.")
ASSUMPTIONS = ["the last entry of a stack is the exit medium (its own thickness only adds a phase to t), as in the code and its tests",
               "an absorbing index is written n + i*kappa (the sign used by tests/test_thinfilm.py); absorbing layers are interior only",
               "numpy trigonometric functions are correct to a few ulp"]

FMAX = 0.995
POL = st.sampled_from(['s', 'p'])


def _f():
    return st.one_of(U.nice_float(0.0, FMAX), U.nice_float(0.05, FMAX), U.nice_float(0.05, FMAX), U.nice_float(0.9, FMAX))


def _index():
    return st.one_of(U.nice_float(1.0, 4.0), U.nice_float(1.05, 4.0), U.nice_float(1.05, 4.0), st.sampled_from([1.0, 1.5, 2.0, 4.0, 1.38]))


def _thick():
    return st.one_of(U.nice_float(0.0, 2.0), U.nice_float(0.0, 2.0), st.sampled_from([0.0, 0.1, 0.5]))


def _layers(lo, hi):
    return st.lists(st.tuples(_index(), _thick()).map(list), min_size=lo, max_size=hi)


def _theta0(n0, nmin, f):
    """angle of incidence (rad): fraction f of the smallest limiting angle of the stack"""
    return f * math.asin(min(1.0, nmin / n0))


def _cos_in(n0, th0, n):
    """cos of the propagation angle inside a lossless medium n (harness' own Snell)"""
    s = n0 * math.sin(th0) / n
    return math.sqrt(max(0.0, 1.0 - s * s))


def _rt(ctx, stack, wvl, pol, aoi_deg, n0):
    from prysm import thinfilm
    r, t = ctx.call(thinfilm.multilayer_stack_rt, stack, wvl, pol, aoi_deg, n0)
    return r, t


def _RT(r, t, n0, th0, ns):
    """reflectance and transmittance with the admittance factor of the (lossless) exit medium"""
    R = abs(r) ** 2
    T = abs(t) ** 2 * ns * _cos_in(n0, th0, ns) / (n0 * math.cos(th0))
    return R, T


def _scalar(ctx, x, bucket, what):
    x = np.asarray(x)
    ctx.require(x.shape == () and np.isfinite(x), bucket, '%s is not a finite scalar: %r' % (what, x))
    return complex(x)


# ---- energy conservation -------------------------------------------------------------------------
def strat_energy(tier):
    return st.fixed_dictionaries({
        'layers': _layers(1, 6), 'wvl': U.nice_float(0.3, 2.0), 'n0': st.one_of(st.just(1.0), U.nice_float(1.0, 2.5)),
        'f': _f(), 'pol': POL, 'form': st.sampled_from(['list', 'array']),
        'kappa': st.one_of(st.just([]), st.lists(st.one_of(st.just(0.0), U.nice_float(0.0, 1.5)), min_size=1, max_size=5)),
    })


def check_energy(case, ctx):
    """R + T(n_s cos th_s / n0 cos th0) == 1 for lossless stacks; <= 1 when interior layers absorb."""
    layers, wvl, n0, f, pol = case['layers'], case['wvl'], case['n0'], case['f'], case['pol']
    L = len(layers)
    kap = [0.0] * L
    for i, k in enumerate(case['kappa'][:L - 1]):   # never the exit medium
        kap[i] = k
    absorbing = any(k > 0 for k in kap)
    lossless_n = [n for (n, d), k in zip(layers, kap) if k == 0]
    th0 = _theta0(n0, min(lossless_n), f)
    ns = layers[-1][0]
    if absorbing:
        stack = [(complex(n, k), d) for (n, d), k in zip(layers, kap)]
    else:
        stack = [(n, d) for n, d in layers]
    if case['form'] == 'array':
        stack = np.asarray(stack)
    ctx.nt(f > 0.02 and any(d > 0 for n, d in layers[:-1]))
    ctx.label('L=%d' % L, 'pol:' + pol, 'absorbing' if absorbing else 'lossless', 'form:' + case['form'],
              'normal' if f == 0 else ('oblique>0.9' if f > 0.9 else 'oblique'), 'n0=1' if n0 == 1 else 'n0>1')
    r, t = _rt(ctx, stack, wvl, pol, math.degrees(th0), n0)
    r = _scalar(ctx, r, 'stack_rt:nonfinite', 'r')
    t = _scalar(ctx, t, 'stack_rt:nonfinite', 't')
    R, T = _RT(r, t, n0, th0, ns)
    cmin = min([math.cos(th0)] + [_cos_in(n0, th0, n) for n in lossless_n])
    tol = 1e-10 / cmin ** 2   # observed <= 2e-14/cmin on correct code
    what = 'stack %r wvl=%r pol=%s aoi=%r deg n0=%r: R=%.17g T=%.17g R+T-1=%.3g (tol %.3g)' % (
        [tuple(x) for x in np.asarray(stack).tolist()] if not absorbing else stack, wvl, pol, math.degrees(th0), n0, R, T, R + T - 1, tol)
    if absorbing:
        ctx.require(R + T <= 1 + tol, 'energy:%s:absorbing-gain' % pol, what)
        ctx.require(R >= 0 and T >= 0, 'energy:%s:negative' % pol, what)
    else:
        ctx.require(abs(R + T - 1) <= tol, 'energy:%s:lossless' % pol, what)


# ---- single interface ----------------------------------------------------------------------------
def strat_fresnel(tier):
    return st.fixed_dictionaries({
        'n0': st.one_of(st.just(1.0), U.nice_float(1.0, 4.0), U.nice_float(1.3, 4.0)), 'n1': _index(), 'f': _f(), 'd': _thick(),
        'wvl': U.nice_float(0.3, 2.0)})


def check_fresnel(case, ctx):
    """one-layer stack == fresnel_r*/|t*|; Fresnel energy balance and closed forms; r_p(Brewster) = 0; Snell invariant."""
    from prysm import thinfilm as tf
    n0, n1, f, d, wvl = case['n0'], case['n1'], case['f'], case['d'], case['wvl']
    th0 = _theta0(n0, n1, f)
    s1 = n0 * math.sin(th0) / n1
    th1 = math.asin(min(1.0, s1))
    c0, c1 = math.cos(th0), math.cos(th1)
    ctx.nt(f > 0.02 and n0 != n1)
    ctx.label('n0<n1' if n0 < n1 else ('n0>n1' if n0 > n1 else 'n0==n1'), 'normal' if f == 0 else 'oblique', 'd=0' if d == 0 else 'd>0')
    adm = n1 * c1 / (n0 * c0)
    tol = 1e-10 / min(c0, c1) ** 2
    desc = 'n0=%r n1=%r th0=%r rad th1=%r rad' % (n0, n1, th0, th1)
    fr = {}
    for name in ('rs', 'ts', 'rp', 'tp'):
        v = ctx.call(getattr(tf, 'fresnel_' + name), n0, n1, th0, th1)
        fr[name] = _scalar(ctx, v, 'fresnel_%s:nonfinite' % name, 'fresnel_' + name)
    # energy balance of the closed-form coefficients
    for p in 'sp':
        e = abs(fr['r' + p]) ** 2 + abs(fr['t' + p]) ** 2 * adm
        ctx.require(abs(e - 1) <= tol, 'fresnel_%s:energy' % p,
                    '%s: |r%s|^2 + |t%s|^2 n1 c1/(n0 c0) = %.17g (r=%r t=%r)' % (desc, p, p, e, fr['r' + p], fr['t' + p]))
    # textbook angle forms (magnitudes; sign convention is fixed by the stack comparison below)
    if n0 != n1 and th0 > 1e-6:
        want_s = abs(math.sin(th0 - th1) / math.sin(th0 + th1))
        want_p = abs(math.tan(th0 - th1) / math.tan(th0 + th1))
        ctx.require(abs(abs(fr['rs']) - want_s) <= tol, 'fresnel_rs:closed-form', '%s: |rs|=%.17g want |sin(a-b)/sin(a+b)|=%.17g' % (desc, abs(fr['rs']), want_s))
        ctx.require(abs(abs(fr['rp']) - want_p) <= tol, 'fresnel_rp:closed-form', '%s: |rp|=%.17g want |tan(a-b)/tan(a+b)|=%.17g' % (desc, abs(fr['rp']), want_p))
    # one-layer stack (a single interface; the layer's own thickness only adds a phase to t)
    for p in 'sp':
        r, t = _rt(ctx, [(n1, d)], wvl, p, math.degrees(th0), n0)
        r = _scalar(ctx, r, 'stack_rt:nonfinite', 'r')
        t = _scalar(ctx, t, 'stack_rt:nonfinite', 't')
        ctx.require(abs(r - fr['r' + p]) <= tol, 'fresnel_r%s:vs-stack' % p,
                    '%s d=%r wvl=%r: one-layer stack r_%s=%r, fresnel_r%s=%r' % (desc, d, wvl, p, r, p, fr['r' + p]))
        ctx.require(abs(abs(t) - abs(fr['t' + p])) <= tol, 'fresnel_t%s:vs-stack' % p,
                    '%s d=%r wvl=%r: one-layer stack |t_%s|=%.17g, |fresnel_t%s|=%.17g' % (desc, d, wvl, p, abs(t), p, abs(fr['t' + p])))
    # Brewster
    thb = float(ctx.call(tf.brewsters_angle, n0, n1, False))
    thb_deg = float(ctx.call(tf.brewsters_angle, n0, n1))
    ctx.require(abs(math.tan(thb) - n1 / n0) <= 1e-12 * (n1 / n0) and abs(math.radians(thb_deg) - thb) <= 1e-14,
                'brewsters_angle', 'n0=%r n1=%r: %r rad / %r deg, tan should be n1/n0' % (n0, n1, thb, thb_deg))
    th1b = math.asin(n0 * math.sin(thb) / n1)   # always below the critical angle
    rpb = _scalar(ctx, ctx.call(tf.fresnel_rp, n0, n1, thb, th1b), 'fresnel_rp:nonfinite', 'fresnel_rp')
    ctx.require(abs(rpb) <= 1e-12, 'fresnel_rp:brewster', 'n0=%r n1=%r: fresnel_rp at Brewster angle %r rad = %r, expected 0' % (n0, n1, thb, rpb))
    rb, _ = _rt(ctx, [(n1, d)], wvl, 'p', thb_deg, n0)
    ctx.require(abs(complex(rb)) <= 1e-12, 'stack_rt:brewster', 'n0=%r n1=%r: stack r_p at Brewster angle = %r' % (n0, n1, rb))
    if n0 != n1:
        rsb = _scalar(ctx, ctx.call(tf.fresnel_rs, n0, n1, thb, th1b), 'fresnel_rs:nonfinite', 'fresnel_rs')
        ctx.require(abs(rsb) > 1e-6 * abs(n0 - n1), 'fresnel_rs:brewster', 's light must still be reflected at the Brewster angle, got %r' % rsb)
    # Snell
    for deg in (True, False):
        a = ctx.call(tf.snell_aor, n0, n1, math.degrees(th0) if deg else th0, deg)
        a = _scalar(ctx, a, 'snell_aor:nonfinite', 'snell_aor')
        ctx.require(abs(n1 * np.sin(a) - n0 * math.sin(th0)) <= 1e-12 * n0, 'snell_aor',
                    '%s degrees=%s: n1 sin(th1)=%r, n0 sin(th0)=%r' % (desc, deg, n1 * np.sin(a), n0 * math.sin(th0)))
    # critical angle: going from the denser medium into the rarer one at that angle refracts to 90 deg
    lo, hi = min(n0, n1), max(n0, n1)
    if lo < hi:
        thc = float(ctx.call(tf.critical_angle, lo, hi, False))
        thc_deg = float(ctx.call(tf.critical_angle, lo, hi))
        ctx.require(abs(math.sin(thc) - lo / hi) <= 1e-12 and abs(math.radians(thc_deg) - thc) <= 1e-14, 'critical_angle',
                    'critical_angle(%r, %r) = %r rad / %r deg; sin should be %r' % (lo, hi, thc, thc_deg, lo / hi))
        out = _scalar(ctx, ctx.call(tf.snell_aor, hi, lo, thc, False), 'snell_aor:nonfinite', 'snell_aor')
        ctx.require(abs(np.sin(out) - 1) <= 1e-12, 'critical_angle:refracts-to-90', 'sin(th1) at the critical angle = %r' % np.sin(out))


# ---- zero-thickness and absentee layers ----------------------------------------------------------
def strat_absentee(tier):
    return st.fixed_dictionaries({
        'layers': _layers(1, 5), 'wvl': U.nice_float(0.3, 2.0), 'n0': st.one_of(st.just(1.0), U.nice_float(1.0, 2.5)),
        'f': _f(), 'pol': POL, 'n_new': _index(), 'pos': st.integers(0, 4), 'm': st.integers(1, 3)})


def check_absentee(case, ctx):
    """zero-thickness layer in front of any layer changes r, t by nothing; half-wave layer leaves R, T unchanged."""
    layers, wvl, n0, f, pol = case['layers'], case['wvl'], case['n0'], case['f'], case['pol']
    nn, m = case['n_new'], case['m']
    L = len(layers)
    pos = case['pos'] % L          # insert *before* layer pos, so the exit medium stays the exit medium
    th0 = _theta0(n0, min([n for n, d in layers] + [nn]), f)
    aoi = math.degrees(th0)
    ns = layers[-1][0]
    base = [(n, d) for n, d in layers]
    ctx.nt(f > 0.02)
    ctx.label('L=%d' % L, 'pos=first' if pos == 0 else ('pos=before-exit' if pos == L - 1 else 'pos=inner'), 'm=%d' % m,
              'normal' if f == 0 else 'oblique', 'pol:' + pol)
    r0, t0 = _rt(ctx, base, wvl, pol, aoi, n0)
    r0 = _scalar(ctx, r0, 'stack_rt:nonfinite', 'r')
    t0 = _scalar(ctx, t0, 'stack_rt:nonfinite', 't')
    cmin = min([math.cos(th0)] + [_cos_in(n0, th0, n) for n in [x[0] for x in layers] + [nn]])
    tol = 1e-10 / cmin ** 2
    desc = 'stack %r + layer n=%r before #%d, wvl=%r pol=%s aoi=%r n0=%r' % (base, nn, pos, wvl, pol, aoi, n0)
    # zero thickness
    z = base[:pos] + [(nn, 0.0)] + base[pos:]
    r1, t1 = _rt(ctx, z, wvl, pol, aoi, n0)
    ctx.require(abs(complex(r1) - r0) <= tol * max(1, abs(r0)) and abs(complex(t1) - t0) <= tol * max(1, abs(t0)), 'zero-thickness:' + pol,
                '%s: d=0 changes r %r -> %r, t %r -> %r' % (desc, r0, r1, t0, t1))
    # half-wave absentee: n d cos(theta) = m lambda / 2
    dh = m * wvl / (2 * nn * _cos_in(n0, th0, nn))
    h = base[:pos] + [(nn, dh)] + base[pos:]
    r2, t2 = _rt(ctx, h, wvl, pol, aoi, n0)
    R0, T0 = _RT(r0, t0, n0, th0, ns)
    R2, T2 = _RT(complex(r2), complex(t2), n0, th0, ns)
    tolh = 1e-9 / cmin ** 2 * m
    ctx.require(abs(R2 - R0) <= tolh and abs(T2 - T0) <= tolh, 'absentee:' + pol,
                '%s: half-wave layer d=%r (m=%d) changes R %.17g -> %.17g, T %.17g -> %.17g' % (desc, dh, m, R0, R2, T0, T2))


# ---- batch == loop -------------------------------------------------------------------------------
def strat_batch(tier):
    mx = 4 if tier == 'quick' else 6
    bshape = st.one_of(st.lists(st.integers(1, mx), min_size=1, max_size=1), st.lists(st.integers(1, mx), min_size=2, max_size=3))
    return st.fixed_dictionaries({
        'L': st.integers(1, 5), 'bshape': bshape, 'seed': U.seeds, 'wvl': U.nice_float(0.3, 2.0),
        'n0': st.one_of(st.just(1.0), U.nice_float(1.0, 2.0)), 'f': _f(), 'pol': POL,
        'vary': st.sampled_from(['both', 'thickness', 'index']), 'absorbing': st.booleans()})


def check_batch(case, ctx):
    """multilayer_stack_rt on a (L, 2, *B) array == the same function called once per element of B."""
    from prysm import thinfilm as tf
    L, B, wvl, n0, f, pol = case['L'], tuple(case['bshape']), case['wvl'], case['n0'], case['f'], case['pol']
    rng = U.rng_of(case['seed'], 17)
    n = rng.uniform(1.0, 4.0, (L,) + B)
    d = rng.uniform(0.0, 2.0, (L,) + B)
    if case['vary'] == 'thickness':
        n = np.broadcast_to(n.reshape(L, -1)[:, :1].reshape((L,) + (1,) * len(B)), (L,) + B).copy()
    if case['vary'] == 'index':
        d = np.broadcast_to(d.reshape(L, -1)[:, :1].reshape((L,) + (1,) * len(B)), (L,) + B).copy()
    th0 = _theta0(n0, float(n.min()), f)
    aoi = math.degrees(th0)
    if case['absorbing'] and L > 1:
        n = n + 1j * rng.uniform(0, 1, (L,) + B) * (np.arange(L) < L - 1).reshape((L,) + (1,) * len(B))
    stack = np.stack([n, d], axis=1)   # (L, 2, *B)
    ctx.nt(f > 0.02 and int(np.prod(B)) > 1)
    ctx.label('ndim=%d' % len(B), 'L=%d' % L, 'size1' if int(np.prod(B)) == 1 else 'size>1', 'has-unit-axis' if 1 in B else 'no-unit-axis',
              'vary:' + case['vary'], 'pol:' + pol, 'complex' if np.iscomplexobj(n) else 'real', 'normal' if f == 0 else 'oblique')
    r, t = ctx.call(tf.multilayer_stack_rt, stack, wvl, pol, aoi, n0)
    U.check_shape(r, B, 'batch:r')
    U.check_shape(t, B, 'batch:t')
    rl = np.empty(B, complex)
    tl = np.empty(B, complex)
    for idx in np.ndindex(*B):
        one = [(n[(k,) + idx], d[(k,) + idx]) for k in range(L)]
        a, b = ctx.call(tf.multilayer_stack_rt, one, wvl, pol, aoi, n0)
        rl[idx], tl[idx] = complex(a), complex(b)
    U.check_close(r, rl, 1e-11, 'batch:%s:r' % pol, 'batched r vs loop, stack shape %s aoi=%r n0=%r wvl=%r' % (stack.shape, aoi, n0, wvl), atol=1e-13)
    U.check_close(t, tl, 1e-11, 'batch:%s:t' % pol, 'batched t vs loop, stack shape %s aoi=%r n0=%r wvl=%r' % (stack.shape, aoi, n0, wvl), atol=1e-13)


CLAUSES = [
    HypClause('energy', strat_energy, check_energy, examples={'quick': 1500, 'thorough': 8000}, shards={'quick': 2, 'thorough': 8}),
    HypClause('fresnel', strat_fresnel, check_fresnel, examples={'quick': 1200, 'thorough': 6000}, shards={'quick': 2, 'thorough': 8}),
    HypClause('absentee', strat_absentee, check_absentee, examples={'quick': 1000, 'thorough': 5000}, shards={'quick': 2, 'thorough': 8}),
    HypClause('batch', strat_batch, check_batch, examples={'quick': 300, 'thorough': 1500}, shards={'quick': 2, 'thorough': 8}),
]
