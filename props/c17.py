"""C17 - thin-film and Fresnel coefficients conserve energy and agree with each other."""
import math

import numpy as np
from hypothesis import strategies as st

from vlib.core import HypClause
from vlib import util as U

RULE = ("Hypothesis-drawn stacks of 1-6 layers (index in [1,4] and, for the stack clauses, up to 1000; thickness in [0,2] um incl. "
        "exactly 0, times 1 / 100 / 1e4 for thick layers; wavelength 0.3-2 um times 10**k, k in -100..100, thicknesses scaled with it; "
        "ambient index 1-2.5, both polarisations).  The angle of incidence is constructed, never rejected: "
        "aoi = f * asin(min(1, n_min/n0)) with f in [0, 1 - 1e-12], so every case lies below "
        "total internal reflection for every lossless medium of the stack.  Oracles (harness arithmetic only): "
        "R + T*(n_s cos th_s)/(n0 cos th0) = 1 (<= 1 when interior layers absorb, index written n + i*kappa as in "
        "tests/test_thinfilm.py: kappa up to 1.5 on any drawn index, and metal-like films with Re n from 0 to 3 - mostly below 1, incl. Ag "
        "0.05+4.2i, Au 0.2+3i, Al 0.96+6.6i - kappa 0.001 / 0.5..10, 0-0.3 um thick, on one or several interior layers; the angle of incidence is "
        "limited by the lossless media only, so Re n < n0 sin(aoi) is the common case; the same bound is asserted element by element on "
        "batched absorbing stacks, which also hold such films); one-layer stack vs fresnel_rs/rp/ts/tp, Fresnel energy balance, the closed forms "
        "-sin(a-b)/sin(a+b) and tan(a-b)/tan(a+b), r_p = 0 at Brewster's angle, Snell invariant; a zero-thickness layer "
        "inserted in front of any layer and a half-wave absentee layer (n d cos th = m lambda/2, m up to 1000) leave r (resp. R, T) "
        "unchanged; a batched (L,2,*B) stack equals the per-element loop.  Every stack is handed over in a drawn representation: list of "
        "tuples / list of lists / tuple of tuples / ndarray (C, Fortran, strided view), numbers as Python floats, all integers (Python "
        "ints or int64 / int32 arrays), mixed int/float, float32; batched stacks also as lists of (index map, thickness map) pairs, "
        "with thickness maps that hold exact zeros next to non-zero entries, whole zero layers and index maps equal to the ambient "
        "index in places.  Scalars (wavelength, angle, ambient index) as Python numbers, numpy scalars and 0-d arrays, positional / "
        "keyword / defaulted, 'S'/'P'.  Every call is made twice on the same objects (must agree), after an optional other call "
        "(other ambient index / polarisation / wavelength / a batched call) in the same process; every array-like handed over is "
        "compared with a copy taken before (bucket ...:argument-modified); kept batched results are re-checked after a later call "
        "(...:result-overwritten).  Float32 stacks in the energy clause go up to f = 0.995 only (the library forms n0/n_j in "
        "float32, so an angle within 1e-6 of the critical angle is beyond it for the library).  Non-trivial = oblique incidence (f > 0.02) "
        "and, for stack clauses, at least one layer of non-zero thickness in front of the exit medium.  Round-7 hardening, clause batch_large: "
        "maps with just more than 2**15 / 2**16 / 3 * 2**15 (thorough: 2**17, 5 * 2**15) elements per layer, never a multiple of 2**15, as 1-D "
        "sweeps and thin 2-D / 3-D shapes (1, 2, 3, 5, 7, 181 rows), 1-3 layers, real or absorbing, as (L,2,*B) arrays (C / Fortran) or lists / "
        "tuples of (index map, thickness map), with an immersed stack (ambient index > 1 in 5 of 6), oblique incidence (5 of 6) and either "
        "polarisation through every calling convention; the per-element loop is run on a sample of elements (both ends, both sides of every "
        "multiple of 2**15, a strided sweep of 24 with a drawn offset; about 35 elements) and R + T (admittance factor of the exit medium, "
        "harness arithmetic) is checked on EVERY element: == 1 for lossless maps, <= 1 for absorbing ones; non-trivial there = not a multiple of "
        "2**15 and (immersed or oblique).  "
        "Round-8 hardening, clauses frustrated_tir / frustrated_tir_batch: an immersed stack (ambient index 1.05-4) at an angle for which the "
        "transverse index s = n0 sin(aoi) = 1 + g (n0 - 1), g in [0.02, 0.9999], lies between 1 and n0.  Every film layer is drawn as "
        "evanescent (index 1 + u (s - 1) 0.999, u = 0 being an air gap; thickness from a drawn decay exponent x in [0, 12]: "
        "d = x lambda / (2 pi sqrt(s^2 - n^2)), exactly 0 included) or propagating (index s (1.002 + 2u), possibly rarer than the ambient; "
        "0-2 vacuum wavelengths thick); 0-5 films, also periodic; the exit medium always propagates, so the angle is below total internal "
        "reflection for the stack and light tunnels through (frustrated TIR).  Asserted: R + T = 1 with the admittance factor of the exit "
        "medium only; a zero-thickness layer of an evanescent or a propagating index inserted in front of any layer (also into a stack that "
        "has no evanescent layer) changes neither r nor t; a half-wave layer of a propagating index leaves R and T unchanged; the batched map "
        "(elements with and without evanescent layers side by side, thickness zeros, air gaps, also > 2**15 elements) equals the loop element "
        "by element (t on its own scale) and conserves energy on every element.  Non-trivial there = an evanescent layer of non-zero thickness "
        "or an inserted evanescent layer / an element that holds one.  Not asserted: absolute values of r, t of multilayers (the property "
        "states none), and stacks whose exit medium is evanescent (true TIR, outside the property).  Other additions: history 'raise-first' "
        "(unknown polarisation and a ragged stack requested and caught before the checked call); ambient index next to 1 (1 + 1e-12 .. 1.0003); "
        "the degrees switches of brewsters_angle / critical_angle / snell_aor given as numpy.True_/False_ and 1/0; batched pairs forms in "
        "which two layers share ONE ndarray object as index map / thickness map / both, or a layer's index map object is also its thickness "
        "map ('equal' = same values, separate objects).")
ASSUMPTIONS = ["the last entry of a stack is the exit medium (its own thickness only adds a phase to t), as in the code and its tests",
               "an absorbing index is written n + i*kappa (the sign used by tests/test_thinfilm.py); absorbing layers are interior only",
               "numpy trigonometric functions are correct to a few ulp",
               "integer-valued indices / thicknesses / angles are valid real numbers whatever their Python or numpy type; a float32 stack is "
               "evaluated by the library in float32 in places, so it is compared at float32 tolerance against its own rounded values"]

FMAX = 0.995
POL = st.sampled_from(['s', 'p'])
FORMS = ['list', 'list', 'lists', 'tuple', 'array', 'array', 'array-F', 'array-strided']
NUMS = ['float', 'float', 'float', 'int', 'int', 'mixed', 'f32', 'intarray32']
WEXP = [0, 0, 0, 0, -6, -3, 3, 6, -100, 100]
DMUL = [1, 1, 1, 1, 100, 10000]
PRE = ['none', 'none', 'other-n0', 'other-pol', 'other-wvl', 'batched-first', 'normal-first', 'raise-first']


def _f():
    return st.one_of(U.nice_float(0.0, FMAX), U.nice_float(0.05, FMAX), U.nice_float(0.05, FMAX), U.nice_float(0.9, FMAX))


def _f_wide():
    """... and right up to grazing incidence / the critical angle of the rarest medium"""
    return st.one_of(_f(), _f(), _f(), U.nice_float(0.995, 0.999999), st.sampled_from([0.0, 1 - 1e-9, 1 - 1e-12, 1e-12, 1e-300]))


def _index():
    return st.one_of(U.nice_float(1.0, 4.0), U.nice_float(1.05, 4.0), U.nice_float(1.05, 4.0), st.sampled_from([1.0, 1.5, 2.0, 4.0, 1.38]))


def _index_wide():
    return st.one_of(_index(), _index(), _index(), U.nice_float(1.0, 30.0), U.nice_float(1.0, 1000.0), st.sampled_from([1.0, 2.0, 3.0]))


def _n0():
    """ambient index: exactly 1 (the default), next to 1 (relative 1e-12 .. 1e-4 above it: not the vacuum special case), 1 .. 2.5"""
    return st.one_of(st.just(1.0), U.nice_float(1.0, 2.5), U.nice_float(1.0, 2.5), U.nice_float(1.0, 2.5), st.sampled_from([1.0 + 1e-12, 1.0 + 1e-9, 1.000001, 1.0001, 1.000293]))


def _thick():
    return st.one_of(U.nice_float(0.0, 2.0), U.nice_float(0.0, 2.0), st.sampled_from([0.0, 0.1, 0.5]))


def _metal():
    """a metal-like absorbing layer: Re n well below 1 up to 3, extinction 0.5-10 (Ag 0.05+4.2i, Au 0.2+3i, Al 0.96+6.6i / 1.44+7.6i), 0-0.3 um thick"""
    return st.fixed_dictionaries({
        'n': st.one_of(U.nice_float(0.01, 1.0), U.nice_float(0.01, 0.3), U.nice_float(0.5, 3.0), st.sampled_from([0.05, 0.2, 0.96, 1.44, 0.0])),
        'k': st.one_of(U.nice_float(0.5, 10.0), U.nice_float(2.0, 8.0), st.sampled_from([4.2, 3.0, 6.6, 7.6, 1e-3])),
        'd': st.one_of(U.nice_float(0.0, 0.3), U.nice_float(0.0, 0.05), st.sampled_from([0.0, 0.005, 0.02, 0.12]))})


def _metals():
    """which interior layers are replaced by a metal (none in two cases out of three)"""
    return st.one_of(st.just([]), st.just([]), st.lists(st.one_of(st.none(), _metal(), _metal()), min_size=1, max_size=5))


def _periodic_spec():
    """periodic coatings (quarter-wave mirrors (HL)^N, (HL)^N H, (ABC)^N AB ...): the first p film layers repeated `reps` times plus the first
    `extra` layers of one more period, in front of the exit medium; None in two cases out of three"""
    return st.one_of(st.none(), st.none(), st.fixed_dictionaries({'p': st.integers(1, 3), 'reps': st.integers(2, 5), 'extra': st.integers(0, 2)}))


def _periodic(layers, spec):
    if not spec or len(layers) < 2:
        return layers
    film, sub = list(layers[:-1]), layers[-1]
    p = min(spec['p'], len(film))
    group = film[:p]
    return group * spec['reps'] + group[:spec['extra'] % p] + [sub]


def _layers(lo, hi, index=_index):
    return st.lists(st.tuples(index(), _thick()).map(list), min_size=lo, max_size=hi)


def _theta0(n0, nmin, f):
    """angle of incidence (rad): fraction f of the smallest limiting angle of the stack"""
    return f * math.asin(min(1.0, nmin / n0))


def _cos_in(n0, th0, n):
    """cos of the propagation angle inside a lossless medium n (harness' own Snell)"""
    s = n0 * math.sin(th0) / n
    return math.sqrt(max(0.0, 1.0 - s * s))


def _rt(ctx, stack, wvl, pol, aoi_deg, n0):
    from prysm import thinfilm
    r, t = ctx.call(thinfilm.multilayer_stack_rt, stack, wvl, pol, aoi_deg, n0)
    return r, t


def _RT(r, t, n0, th0, ns):
    """reflectance and transmittance with the admittance factor of the (lossless) exit medium"""
    R = abs(r) ** 2
    T = abs(t) ** 2 * ns * _cos_in(n0, th0, ns) / (n0 * math.cos(th0))
    return R, T


def _scalar(ctx, x, bucket, what):
    x = np.asarray(x)
    ctx.require(x.shape == () and np.isfinite(x), bucket, '%s is not a finite scalar: %r' % (what, x))
    return complex(x)


# ---- representations of one and the same stack ---------------------------------------------------
def _numbers(layers, num):
    """the (index, thickness) pairs as the numbers that will really be handed over: Python floats, Python ints, a mix, or float32-rounded"""
    out = []
    for i, (n, d) in enumerate(layers):
        if num in ('int', 'intarray32') or (num == 'mixed' and i % 2 == 0):
            out.append((int(max(1, round(n))), int(round(d))))
        elif num == 'f32':
            out.append((float(np.float32(n)), float(np.float32(d))))
        else:
            out.append((float(n), float(d)))
    if num == 'f32':   # rounding to float32 must not push an index below 1
        out = [(max(n, 1.0), d) for n, d in out]
    return out


def _build(pairs, form, num):
    """pairs -> the object handed to the library.  Complex (absorbing) stacks use the same containers."""
    cplx = any(isinstance(n, complex) for n, d in pairs)
    if form == 'lists':
        return [[n, d] for n, d in pairs]
    if form == 'tuple':
        return tuple((n, d) for n, d in pairs)
    if form.startswith('array'):
        dt = None
        if not cplx:
            dt = {'f32': np.float32, 'intarray32': np.int32}.get(num)
        a = np.asarray([[n, d] for n, d in pairs], dtype=dt)
        how = {'array': 'C', 'array-F': 'F', 'array-strided': 'strided'}[form]
        return U.relayout(a, how)
    if num == 'f32' and not cplx:
        return [(np.float32(n), np.float32(d)) for n, d in pairs]
    return [(n, d) for n, d in pairs]


def _snapshot(obj):
    """a deep, comparable copy of anything array-like"""
    if isinstance(obj, np.ndarray):
        return ('a', obj.dtype.str, obj.shape, obj.copy())
    if isinstance(obj, (list, tuple)):
        return (type(obj).__name__, [_snapshot(x) for x in obj])
    return ('s', type(obj).__name__, obj)


def _same(a, b):
    if a[0] != b[0]:
        return False
    if a[0] == 'a':
        return a[1] == b[1] and a[2] == b[2] and bool(np.all((a[3] == b[3]) | ((a[3] != a[3]) & (b[3] != b[3]))))
    if a[0] == 's':
        return a[1] == b[1] and (a[2] == b[2] or (a[2] != a[2] and b[2] != b[2]))
    return len(a[1]) == len(b[1]) and all(_same(x, y) for x, y in zip(a[1], b[1]))


def _untouched(ctx, obj, snap, bucket, what):
    ctx.require(_same(_snapshot(obj), snap), bucket + ':argument-modified', '%s was modified by the call: now %r' % (what, obj if not isinstance(obj, np.ndarray) else obj.tolist()))


def _scalar_arg(v, how):
    if how == 'np':
        return np.float64(v)
    if how == '0d':
        return np.array(v)
    if how == 'int' and float(v) == int(v):
        return int(v)
    return v


ARGT = st.fixed_dictionaries({'wvl': st.sampled_from(['py', 'py', 'np', '0d']), 'aoi': st.sampled_from(['py', 'py', 'np', '0d', 'int']),
                              'n0': st.sampled_from(['py', 'py', 'np', '0d', 'int']), 'upper': st.booleans(),
                              'call': st.sampled_from(['positional', 'positional', 'keyword', 'defaults'])})
ARGT0 = {'wvl': 'py', 'aoi': 'py', 'n0': 'py', 'upper': False, 'call': 'positional'}


def _call_rt(ctx, stack, wvl, pol, aoi_deg, n0, argt=ARGT0):
    """multilayer_stack_rt through the drawn calling convention; returns (r, t, the argument objects that were handed over)"""
    from prysm import thinfilm
    w = _scalar_arg(wvl, argt['wvl'])
    a = _scalar_arg(aoi_deg, argt['aoi'])
    n = _scalar_arg(n0, argt['n0'])
    p = pol.upper() if argt['upper'] else pol
    snaps = [(x, _snapshot(x), name) for x, name in ((w, 'wavelength'), (a, 'aoi'), (n, 'ambient_index')) if isinstance(x, np.ndarray)]
    if argt['call'] == 'keyword':
        r, t = ctx.call(thinfilm.multilayer_stack_rt, stack=stack, wavelength=w, polarization=p, aoi=a, ambient_index=n)
    elif argt['call'] == 'defaults':
        kw = {}
        if aoi_deg != 0:
            kw['aoi'] = a
        if n0 != 1:
            kw['ambient_index'] = n
        r, t = ctx.call(thinfilm.multilayer_stack_rt, stack, w, p, **kw)
    else:
        r, t = ctx.call(thinfilm.multilayer_stack_rt, stack, w, p, a, n)
    for x, s, name in snaps:
        _untouched(ctx, x, s, 'stack_rt', 'the 0-d array given as %s' % name)
    return r, t


def _prior(ctx, pre, stack, wvl, pol, aoi, n0):
    """history inside one process: another valid evaluation (of the very same stack object) before the checked one"""
    from prysm import thinfilm
    if pre == 'other-n0':
        ctx.call(thinfilm.multilayer_stack_rt, stack, wvl, pol, 0.0, n0 + 0.25)
    elif pre == 'other-pol':
        ctx.call(thinfilm.multilayer_stack_rt, stack, wvl, 'p' if pol == 's' else 's', aoi, n0)
    elif pre == 'other-wvl':
        ctx.call(thinfilm.multilayer_stack_rt, stack, wvl * 1.37, pol, aoi, n0)
    elif pre == 'normal-first':
        ctx.call(thinfilm.multilayer_stack_rt, stack, wvl, pol)
    elif pre == 'batched-first':
        a = np.asarray(stack)
        if a.ndim == 2:
            ctx.call(thinfilm.multilayer_stack_rt, np.stack([a, a], axis=-1), wvl, pol, aoi, n0)
    elif pre == 'raise-first':
        _failing_call(ctx, stack, wvl, aoi, n0)


def _failing_call(ctx, stack, wvl, aoi, n0):
    """requests that are documented to fail (unknown polarisation -> ValueError) or fail in numpy (a ragged stack), caught by the caller;
    nothing is asserted about them - the valid request that follows must behave as if they had never been made"""
    from prysm import thinfilm
    for bad in ('x', 'sp'):
        try:
            thinfilm.multilayer_stack_rt(stack, wvl, bad, aoi, n0)
        except Exception:  # noqa - the failing request itself is not judged
            pass
    try:
        thinfilm.multilayer_stack_rt([(1.5,)], wvl, 's', aoi, n0)
    except Exception:  # noqa
        pass


def _twice(ctx, stack, wvl, pol, aoi, n0, argt, what):
    """evaluate, evaluate again on the same objects: same answer, nothing handed over has changed"""
    snap = _snapshot(stack)
    r, t = _call_rt(ctx, stack, wvl, pol, aoi, n0, argt)
    _untouched(ctx, stack, snap, 'stack_rt', 'the stack (%s)' % what)
    r2, t2 = _call_rt(ctx, stack, wvl, pol, aoi, n0, argt)
    _untouched(ctx, stack, snap, 'stack_rt', 'the stack (%s), second call' % what)
    ok = np.shape(r) == np.shape(r2) and np.allclose(r, r2, rtol=1e-12, atol=1e-13) and np.allclose(t, t2, rtol=1e-12, atol=1e-13)
    ctx.require(ok, 'stack_rt:not-repeatable', '%s: the same call twice gives r=%r then %r, t=%r then %r' % (what, r, r2, t, t2))
    return r, t


# ---- energy conservation -------------------------------------------------------------------------
def strat_energy(tier):
    return st.fixed_dictionaries({
        'layers': _layers(1, 6, _index_wide), 'wvl': U.nice_float(0.3, 2.0), 'n0': _n0(),
        'f': _f_wide(), 'pol': POL, 'form': st.sampled_from(FORMS), 'num': st.sampled_from(NUMS),
        'kappa': st.one_of(st.just([]), st.just([]), st.lists(st.one_of(st.just(0.0), U.nice_float(0.0, 1.5)), min_size=1, max_size=5)),
        'wexp': st.sampled_from(WEXP), 'dmul': st.sampled_from(DMUL), 'argt': ARGT, 'pre': st.sampled_from(PRE), 'metal': _metals(), 'periodic': _periodic_spec(),
    })


def _energy_tol(cmin, f32=False):
    """observed on correct code (4e4 stacks, indices to 1000, f to 1 - 1e-12, d/lambda to 1e4): |R+T-1| <= 1e-15/cmin^2 and <= 1.1e-12/cmin"""
    if f32:
        return 1e-5 / cmin ** 2     # observed <= 1e-7/cmin^2 when the library works on float32 numbers
    return min(1e-10 / cmin ** 2, 1e-9 / cmin)


def check_energy(case, ctx):
    """R + T(n_s cos th_s / n0 cos th0) == 1 for lossless stacks; <= 1 when interior layers absorb."""
    if case.get('periodic'):
        case = dict(case, layers=_periodic(case['layers'], case['periodic']))
        ctx.label('periodic-film', 'partial-last-period' if (len(case['layers']) - 1) % max(1, min(case['periodic']['p'], len(case['layers']) - 1)) else 'whole-periods')
    wvl, n0, f, pol = case['wvl'], case['n0'], case['f'], case['pol']
    form, num = case['form'], case.get('num', 'float')
    argt, pre = case.get('argt', ARGT0), case.get('pre', 'none')
    wexp = case.get('wexp', 0)
    if num == 'f32':
        wexp = max(-6, min(6, wexp))    # keep thicknesses inside the float32 range
    scale = 10.0 ** wexp
    L = len(case['layers'])
    kap = [0.0] * L
    for i, k in enumerate(case['kappa'][:L - 1]):   # never the exit medium
        kap[i] = k
    metal = {i: m for i, m in enumerate(case.get('metal', [])[:L - 1]) if m is not None}   # interior layers only
    absorbing = any(k > 0 for k in kap) or bool(metal)
    if absorbing and num != 'float':
        num = 'float'       # complex stacks have one numeric representation
    layers = _numbers(case['layers'], num)
    for i, m in metal.items():      # the far end of "absorbing layers": Re n < 1 and a large extinction coefficient
        layers[i] = (float(m['n']), float(m['d']))
        kap[i] = float(m['k'])
    dmul = 1 if absorbing else case.get('dmul', 1)   # sin / cos of the complex phase thickness overflow for kappa d / lambda > ~110: not asserted
    layers = [(n, d * dmul) for n, d in layers]
    if wexp:
        layers = [(n, d * scale) for n, d in layers]
        wvl = wvl * scale
        if num == 'f32':
            layers = [(n, float(np.float32(d))) for n, d in layers]
        elif num in ('int', 'mixed', 'intarray32'):
            num = 'float'   # a scaled thickness is not an integer any more
    if num == 'intarray32' and not form.startswith('array'):
        num = 'int'
    if num == 'int' and n0 == 1.0:
        n0 = 1
    lossless_n = [n for (n, d), k in zip(layers, kap) if k == 0]
    if num == 'f32' and f > FMAX:
        # the library forms n0 / n_j in float32 for a float32 stack (relative rounding 6e-8): an angle placed within 1e-6 .. 1e-12 of
        # the critical angle is then *beyond* it for the library (complex Snell angle, evanescent exit medium, |t| growing
        # exponentially with the exit medium's thickness), i.e. outside "below total internal reflection".  Float32 stacks go up to
        # f = 0.995, where 1 - sin(th_j) >= 3e-5 is far above the float32 rounding
        f = FMAX
    th0 = _theta0(n0, min(lossless_n), f)
    ns = layers[-1][0]
    if absorbing:
        pairs = [(complex(n, k), d) for (n, d), k in zip(layers, kap)]
    else:
        pairs = list(layers)
    stack = _build(pairs, form, num)
    ctx.nt(f > 0.02 and any(d > 0 for n, d in layers[:-1]))
    allint = np.asarray(stack).dtype.kind in 'iu'
    ctx.label('L=%d' % L, 'pol:' + pol, 'absorbing' if absorbing else 'lossless', 'form:' + form, 'num:' + num,
              'normal' if f == 0 else ('grazing>0.995' if f > FMAX else ('oblique>0.9' if f > 0.9 else 'oblique')), 'n0=1' if n0 == 1 else ('n0 next to 1' if n0 < 1.001 else 'n0>1'),
              'dtype:%s' % np.asarray(stack).dtype, 'all-int-oblique' if allint and f > 0.02 else 'not-all-int-oblique',
              'wexp:%s' % ('0' if wexp == 0 else 'extreme'), 'thick' if dmul > 1 else 'thin',
              'n>30' if max(lossless_n) > 30 else 'n<=30', 'pre:' + pre, 'call:' + argt['call'],
              'metal-layers=%d' % len(metal),
              'metal:Re(n)<n0*sin(aoi)' if any(m['n'] < n0 * math.sin(th0) for m in metal.values()) else 'metal:none-or-Re(n)-above-n0*sin(aoi)')
    aoi = math.degrees(th0)
    desc = 'stack %r (%s, %s) wvl=%r pol=%s aoi=%r deg n0=%r' % (pairs, form, np.asarray(stack).dtype, wvl, pol, aoi, n0)
    _prior(ctx, pre, stack, wvl, pol, aoi, n0)
    r, t = _twice(ctx, stack, wvl, pol, aoi, n0, argt, desc)
    r = _scalar(ctx, r, 'stack_rt:nonfinite', 'r')
    t = _scalar(ctx, t, 'stack_rt:nonfinite', 't')
    R, T = _RT(r, t, n0, th0, ns)
    cmin = min([math.cos(th0)] + [_cos_in(n0, th0, n) for n in lossless_n])
    cmin = max(cmin, 1e-150)
    tol = _energy_tol(cmin, num == 'f32')
    what = '%s: R=%.17g T=%.17g R+T-1=%.3g (tol %.3g)' % (desc, R, T, R + T - 1, tol)
    cls = ':all-integer-stack' if allint else (':float32-stack' if num == 'f32' else '')
    if absorbing:
        ctx.require(R + T <= 1 + tol, 'energy:%s:absorbing-gain%s' % (pol, ':metal-layer' if metal else ''), what)
        ctx.require(R >= 0 and T >= 0, 'energy:%s:negative' % pol, what)
    else:
        ctx.require(abs(R + T - 1) <= tol, 'energy:%s:lossless%s' % (pol, cls), what)


# ---- single interface ----------------------------------------------------------------------------
def strat_fresnel(tier):
    return st.fixed_dictionaries({
        'n0': st.one_of(st.just(1.0), U.nice_float(1.0, 4.0), U.nice_float(1.3, 4.0)), 'n1': _index(), 'f': _f_wide(), 'd': _thick(),
        'wvl': U.nice_float(0.3, 2.0), 'ints': st.sampled_from([False, False, True]), 'form': st.sampled_from(FORMS), 'argt': ARGT,
        'wexp': st.sampled_from(WEXP),
        'unit_kw': st.sampled_from(['positional', 'keyword', 'keyword']),      # how the degrees / radians switch of the angle helpers is passed
        'flag': st.sampled_from(['bool', 'bool', 'np', 'int'])})             # ... and as what: True / False, numpy.True_ / numpy.False_, 1 / 0


def check_fresnel(case, ctx):
    """one-layer stack == fresnel_r*/|t*|; Fresnel energy balance and closed forms; r_p(Brewster) = 0; Snell invariant."""
    from prysm import thinfilm as tf
    n0, n1, f, d, wvl = case['n0'], case['n1'], case['f'], case['d'], case['wvl']
    ints, form, argt = case.get('ints', False), case.get('form', 'list'), case.get('argt', ARGT0)
    scale = 10.0 ** case.get('wexp', 0)
    if ints:    # every number an integer (Python ints): still real indices >= 1 and a thickness >= 0
        n0, n1, d = int(max(1, round(n0))), int(max(1, round(n1))), int(round(d))
    else:
        d, wvl = d * scale, wvl * scale
    th0 = _theta0(n0, n1, f)
    s1 = n0 * math.sin(th0) / n1
    th1 = math.asin(min(1.0, s1))
    c0, c1 = math.cos(th0), math.cos(th1)
    ctx.nt(f > 0.02 and n0 != n1)
    ctx.label('n0<n1' if n0 < n1 else ('n0>n1' if n0 > n1 else 'n0==n1'), 'normal' if f == 0 else 'oblique', 'd=0' if d == 0 else 'd>0',
              'ints' if ints else 'floats', 'form:' + form, 'ints-oblique' if ints and f > 0.02 and n0 != n1 else 'other')
    adm = n1 * c1 / (n0 * c0)
    cm = max(min(c0, c1), 1e-150)
    tol = min(1e-10 / cm ** 2, 1e-9 / cm)
    desc = 'n0=%r n1=%r th0=%r rad th1=%r rad' % (n0, n1, th0, th1)
    fr = {}
    how = {'py': 'py', 'int': 'py'}.get(argt['aoi'], argt['aoi'])
    for name in ('rs', 'ts', 'rp', 'tp'):
        v = ctx.call(getattr(tf, 'fresnel_' + name), _scalar_arg(n0, argt['n0'] if not ints else 'py'), n1, _scalar_arg(th0, how), _scalar_arg(th1, how))
        fr[name] = _scalar(ctx, v, 'fresnel_%s:nonfinite' % name, 'fresnel_' + name)
        # array-valued angles are evaluated element by element
        tha, thb_ = np.array([th0, 0.5 * th0, 0.0]), np.array([th1, math.asin(min(1.0, n0 * math.sin(0.5 * th0) / n1)), 0.0])
        ka, kb = tha.copy(), thb_.copy()
        va = np.asarray(ctx.call(getattr(tf, 'fresnel_' + name), n0, n1, tha, thb_))
        ctx.require(va.shape == (3,) and abs(complex(va[0]) - fr[name]) <= 1e-14 * max(1.0, abs(fr[name])), 'fresnel_%s:array-vs-scalar' % name,
                    '%s: fresnel_%s on an array of angles gives %r, scalar call %r' % (desc, name, va, fr[name]))
        ctx.require(np.array_equal(tha, ka) and np.array_equal(thb_, kb), 'fresnel_%s:argument-modified' % name, 'the angle arrays were modified')
    # energy balance of the closed-form coefficients
    for p in 'sp':
        e = abs(fr['r' + p]) ** 2 + abs(fr['t' + p]) ** 2 * adm
        ctx.require(abs(e - 1) <= tol, 'fresnel_%s:energy' % p,
                    '%s: |r%s|^2 + |t%s|^2 n1 c1/(n0 c0) = %.17g (r=%r t=%r)' % (desc, p, p, e, fr['r' + p], fr['t' + p]))
    # textbook angle forms (magnitudes; sign convention is fixed by the stack comparison below)
    if n0 != n1 and th0 > 1e-6:
        want_s = abs(math.sin(th0 - th1) / math.sin(th0 + th1))
        want_p = abs(math.tan(th0 - th1) / math.tan(th0 + th1))
        ctx.require(abs(abs(fr['rs']) - want_s) <= tol, 'fresnel_rs:closed-form', '%s: |rs|=%.17g want |sin(a-b)/sin(a+b)|=%.17g' % (desc, abs(fr['rs']), want_s))
        ctx.require(abs(abs(fr['rp']) - want_p) <= tol, 'fresnel_rp:closed-form', '%s: |rp|=%.17g want |tan(a-b)/tan(a+b)|=%.17g' % (desc, abs(fr['rp']), want_p))
    # one-layer stack (a single interface; the layer's own thickness only adds a phase to t), in the drawn representation
    one = _build([(n1, d)], form, 'int' if ints else 'float')
    cls = ':all-integer-stack' if np.asarray(one).dtype.kind in 'iu' else ''
    for p in 'sp':
        r, t = _twice(ctx, one, wvl, p, math.degrees(th0), n0, argt, '%s one-layer stack %r' % (desc, one))
        r = _scalar(ctx, r, 'stack_rt:nonfinite', 'r')
        t = _scalar(ctx, t, 'stack_rt:nonfinite', 't')
        ctx.require(abs(r - fr['r' + p]) <= tol, 'fresnel_r%s:vs-stack%s' % (p, cls),
                    '%s d=%r wvl=%r: one-layer stack %r r_%s=%r, fresnel_r%s=%r' % (desc, d, wvl, one, p, r, p, fr['r' + p]))
        ctx.require(abs(abs(t) - abs(fr['t' + p])) <= tol, 'fresnel_t%s:vs-stack%s' % (p, cls),
                    '%s d=%r wvl=%r: one-layer stack %r |t_%s|=%.17g, |fresnel_t%s|=%.17g' % (desc, d, wvl, one, p, abs(t), p, abs(fr['t' + p])))
    # Brewster
    ukw = case.get('unit_kw', 'positional') == 'keyword'
    flag = case.get('flag', 'bool')
    yes, no = {'bool': (True, False), 'np': (np.True_, np.False_), 'int': (1, 0)}[flag]     # the switches are documented as bool; any truthy / falsy value is accepted
    ctx.label('unit-switch:' + ('keyword' if ukw else 'positional'), 'unit-switch given as:' + flag)
    thb = float(ctx.call(tf.brewsters_angle, n0, n1, deg=no)) if ukw else float(ctx.call(tf.brewsters_angle, n0, n1, no))
    thb_deg = float(ctx.call(tf.brewsters_angle, n0, n1, deg=yes)) if ukw else float(ctx.call(tf.brewsters_angle, n0, n1) if flag == 'bool' else ctx.call(tf.brewsters_angle, n0, n1, yes))
    ctx.require(abs(math.tan(thb) - n1 / n0) <= 1e-12 * (n1 / n0) and abs(math.radians(thb_deg) - thb) <= 1e-14,
                'brewsters_angle', 'n0=%r n1=%r: %r rad / %r deg, tan should be n1/n0' % (n0, n1, thb, thb_deg))
    th1b = math.asin(n0 * math.sin(thb) / n1)   # always below the critical angle
    rpb = _scalar(ctx, ctx.call(tf.fresnel_rp, n0, n1, thb, th1b), 'fresnel_rp:nonfinite', 'fresnel_rp')
    ctx.require(abs(rpb) <= 1e-12, 'fresnel_rp:brewster', 'n0=%r n1=%r: fresnel_rp at Brewster angle %r rad = %r, expected 0' % (n0, n1, thb, rpb))
    rb, _ = _rt(ctx, one, wvl, 'p', thb_deg, n0)
    ctx.require(abs(complex(rb)) <= 1e-12, 'stack_rt:brewster' + cls, 'n0=%r n1=%r: stack %r r_p at Brewster angle = %r' % (n0, n1, one, rb))
    if n0 != n1:
        rsb = _scalar(ctx, ctx.call(tf.fresnel_rs, n0, n1, thb, th1b), 'fresnel_rs:nonfinite', 'fresnel_rs')
        ctx.require(abs(rsb) > 1e-6 * abs(n0 - n1), 'fresnel_rs:brewster', 's light must still be reflected at the Brewster angle, got %r' % rsb)
    # Snell
    for deg in (True, False):
        dflag = yes if deg else no
        if ukw:
            a = ctx.call(tf.snell_aor, n0, n1, math.degrees(th0) if deg else th0, degrees=dflag)
        else:
            a = ctx.call(tf.snell_aor, n0, n1, math.degrees(th0) if deg else th0, dflag)
        a = _scalar(ctx, a, 'snell_aor:nonfinite', 'snell_aor')
        ctx.require(abs(n1 * np.sin(a) - n0 * math.sin(th0)) <= 1e-12 * n0, 'snell_aor',
                    '%s degrees=%s: n1 sin(th1)=%r, n0 sin(th0)=%r' % (desc, deg, n1 * np.sin(a), n0 * math.sin(th0)))
    # critical angle: going from the denser medium into the rarer one at that angle refracts to 90 deg
    lo, hi = min(n0, n1), max(n0, n1)
    if lo < hi:
        thc = float(ctx.call(tf.critical_angle, lo, hi, deg=no)) if ukw else float(ctx.call(tf.critical_angle, lo, hi, no))
        thc_deg = float(ctx.call(tf.critical_angle, lo, hi, deg=yes)) if ukw else float(ctx.call(tf.critical_angle, lo, hi) if flag == 'bool' else ctx.call(tf.critical_angle, lo, hi, yes))
        ctx.require(abs(math.sin(thc) - lo / hi) <= 1e-12 and abs(math.radians(thc_deg) - thc) <= 1e-14, 'critical_angle',
                    'critical_angle(%r, %r) = %r rad / %r deg; sin should be %r' % (lo, hi, thc, thc_deg, lo / hi))
        out = _scalar(ctx, ctx.call(tf.snell_aor, hi, lo, thc, no), 'snell_aor:nonfinite', 'snell_aor')
        ctx.require(abs(np.sin(out) - 1) <= 1e-12, 'critical_angle:refracts-to-90', 'sin(th1) at the critical angle = %r' % np.sin(out))


# ---- zero-thickness and absentee layers ----------------------------------------------------------
def strat_absentee(tier):
    return st.fixed_dictionaries({
        'layers': _layers(1, 5, _index_wide), 'wvl': U.nice_float(0.3, 2.0), 'n0': _n0(),
        'f': _f_wide(), 'pol': POL, 'n_new': _index_wide(), 'pos': st.one_of(st.integers(0, 4), st.integers(0, 20)), 'periodic': _periodic_spec(), 'm': st.sampled_from([1, 2, 3, 1, 2, 3, 50, 1000]),
        'form': st.sampled_from(FORMS), 'num': st.sampled_from(['float', 'float', 'int', 'mixed']), 'wexp': st.sampled_from(WEXP),
        'argt': ARGT, 'pre': st.sampled_from(PRE)})


def check_absentee(case, ctx):
    """zero-thickness layer in front of any layer changes r, t by nothing; half-wave layer leaves R, T unchanged."""
    if case.get('periodic'):
        case = dict(case, layers=_periodic(case['layers'], case['periodic']))
        ctx.label('periodic-film', 'partial-last-period' if (len(case['layers']) - 1) % max(1, min(case['periodic']['p'], len(case['layers']) - 1)) else 'whole-periods')
    wvl, n0, f, pol = case['wvl'], case['n0'], case['f'], case['pol']
    nn, m = case['n_new'], case['m']
    form, num, argt, pre = case.get('form', 'list'), case.get('num', 'float'), case.get('argt', ARGT0), case.get('pre', 'none')
    wexp = case.get('wexp', 0)
    if wexp:
        num = 'float'
    layers = _numbers(case['layers'], num)
    if wexp:
        layers = [(n, d * 10.0 ** wexp) for n, d in layers]
        wvl = wvl * 10.0 ** wexp
    if num == 'int':
        nn = int(max(1, round(nn)))
        if n0 == 1.0:
            n0 = 1
    L = len(layers)
    pos = case['pos'] % L          # insert *before* layer pos, so the exit medium stays the exit medium
    th0 = _theta0(n0, min([n for n, d in layers] + [nn]), f)
    aoi = math.degrees(th0)
    ns = layers[-1][0]
    base = _build(layers, form, num)
    ctx.nt(f > 0.02)
    ctx.label('L=%d' % L, 'pos=first' if pos == 0 else ('pos=before-exit' if pos == L - 1 else 'pos=inner'), 'm=%d' % m,
              'normal' if f == 0 else ('grazing>0.995' if f > FMAX else 'oblique'), 'pol:' + pol, 'form:' + form, 'num:' + num,
              'dtype:%s' % np.asarray(base).dtype, 'wexp:%s' % ('0' if wexp == 0 else 'extreme'), 'pre:' + pre)
    desc = 'stack %r (%s) + layer n=%r before #%d, wvl=%r pol=%s aoi=%r n0=%r' % (layers, form, nn, pos, wvl, pol, aoi, n0)
    _prior(ctx, pre, base, wvl, pol, aoi, n0)
    r0, t0 = _twice(ctx, base, wvl, pol, aoi, n0, argt, desc)
    r0 = _scalar(ctx, r0, 'stack_rt:nonfinite', 'r')
    t0 = _scalar(ctx, t0, 'stack_rt:nonfinite', 't')
    cmin = min([math.cos(th0)] + [_cos_in(n0, th0, n) for n in [x[0] for x in layers] + [nn]])
    cmin = max(cmin, 1e-150)
    tol = min(1e-10 / cmin ** 2, 1e-9 / cmin)
    # zero thickness (an integer 0 in an all-integer stack)
    z = _build(layers[:pos] + [(nn, 0 if num == 'int' else 0.0)] + layers[pos:], form, num)
    r1, t1 = _call_rt(ctx, z, wvl, pol, aoi, n0, argt)
    ctx.require(abs(complex(r1) - r0) <= tol * max(1, abs(r0)) and abs(complex(t1) - t0) <= tol * max(1, abs(t0)), 'zero-thickness:' + pol,
                '%s: d=0 changes r %r -> %r, t %r -> %r' % (desc, r0, r1, t0, t1))
    # half-wave absentee: n d cos(theta) = m lambda / 2
    cn = _cos_in(n0, th0, nn)
    dh = m * wvl / (2 * nn * cn) if cn > 0 else float('inf')   # cn == 0: the harness' own cosine has lost all digits (f within 1e-9 of grazing)
    if math.isfinite(dh):
        h = _build([(float(n), float(d)) for n, d in layers[:pos]] + [(float(nn), dh)] + [(float(n), float(d)) for n, d in layers[pos:]], form, 'float')
        r2, t2 = _call_rt(ctx, h, wvl, pol, aoi, n0, argt)
        R0, T0 = _RT(r0, t0, n0, th0, ns)
        R2, T2 = _RT(complex(r2), complex(t2), n0, th0, ns)
        tolh = 1e-9 / cmin ** 2 * m
        ctx.require(abs(R2 - R0) <= tolh and abs(T2 - T0) <= tolh, 'absentee:' + pol,
                    '%s: half-wave layer d=%r (m=%d) changes R %.17g -> %.17g, T %.17g -> %.17g' % (desc, dh, m, R0, R2, T0, T2))
    # the base stack once more, after the other coatings were evaluated
    r3, t3 = _call_rt(ctx, base, wvl, pol, aoi, n0, argt)
    ctx.require(abs(complex(r3) - r0) <= 1e-12 * max(1, abs(r0)) and abs(complex(t3) - t0) <= 1e-12 * max(1, abs(t0)), 'stack_rt:not-repeatable',
                '%s: the base stack evaluated again gives r %r -> %r, t %r -> %r' % (desc, r0, r3, t0, t3))


# ---- batch == loop -------------------------------------------------------------------------------
BFORMS = ['array', 'array', 'array', 'array-F', 'array-strided', 'pairs-lists', 'pairs-tuples']
BNUMS = ['float', 'int', 'float', 'f32', 'float', 'int', 'float']
SPECIALS = ['none', 'zeros', 'zeros', 'zeros-most', 'zero-layer', 'one-zero', 'ambient-index', 'equal-neighbour', 'zeros+ambient']


def strat_batch(tier):
    mx = 4 if tier == 'quick' else 6
    bshape = st.one_of(st.lists(st.integers(1, mx), min_size=1, max_size=1), st.lists(st.integers(1, mx), min_size=2, max_size=3))
    return st.fixed_dictionaries({
        'L': st.integers(1, 5), 'bshape': bshape, 'seed': U.seeds, 'wvl': U.nice_float(0.3, 2.0),
        'n0': st.one_of(st.just(1.0), U.nice_float(1.0, 2.0)), 'f': _f_wide(), 'pol': POL,
        'vary': st.sampled_from(['both', 'thickness', 'index']), 'absorbing': st.booleans(),
        'special': st.sampled_from(SPECIALS), 'form': st.sampled_from(BFORMS), 'num': st.sampled_from(BNUMS), 'wexp': st.sampled_from(WEXP),
        'argt': ARGT, 'order': st.sampled_from(['batch-first', 'batch-first', 'loop-first']), 'metal': st.booleans(),
        # periodic films: every batch element periodic, or (detune) all but one element detuned in one layer so that the batch as a whole is not
        'periodic': _periodic_spec(), 'detune': st.booleans(),
        # pairs forms: two consecutive layers given the SAME ndarray object as index map / thickness map / both, or one layer whose index map object
        # is also its thickness map (equal values: d = n um); 'equal' = the same values as separate objects (the control)
        'share': st.sampled_from(['none', 'index-maps', 'index-maps', 'thickness-maps', 'both-maps', 'index-is-thickness', 'index-is-thickness', 'equal'])})


def _batch_maps(case):
    """index and thickness maps (L, *B), with the drawn special values planted among generic ones"""
    L, B, n0 = case['L'], tuple(case['bshape']), case['n0']
    num, special = case.get('num', 'float'), case.get('special', 'none')
    rng = U.rng_of(case['seed'], 17)
    n = rng.uniform(1.0, 4.0, (L,) + B)
    d = rng.uniform(0.0, 2.0, (L,) + B)
    if case['vary'] == 'thickness':
        n = np.broadcast_to(n.reshape(L, -1)[:, :1].reshape((L,) + (1,) * len(B)), (L,) + B).copy()
    if case['vary'] == 'index':
        d = np.broadcast_to(d.reshape(L, -1)[:, :1].reshape((L,) + (1,) * len(B)), (L,) + B).copy()
    if num == 'int':
        n, d = np.maximum(1, np.rint(n)), np.rint(d * 1.5)
    r2 = U.rng_of(case['seed'], 18)
    u = r2.uniform(0, 1, (L,) + B)
    if special in ('zeros', 'zeros+ambient'):
        d[u < 0.3] = 0.0
    elif special == 'zeros-most':
        d[u < 0.8] = 0.0
    elif special == 'zero-layer':
        d[int(r2.integers(0, L))] = 0.0
    elif special == 'one-zero':
        d[np.unravel_index(int(np.argmin(u)), u.shape)] = 0.0
    if special in ('ambient-index', 'zeros+ambient') and n0 >= 1.0:
        v = r2.uniform(0, 1, (L,) + B)
        n[v < 0.3] = n0 if num != 'int' else max(1, round(n0))
    if special == 'equal-neighbour' and L > 1:
        k = int(r2.integers(0, L - 1))
        v = r2.uniform(0, 1, B) < 0.5
        n[k + 1][v] = n[k][v]
    return n, d


def check_batch(case, ctx):
    """multilayer_stack_rt on a (L, 2, *B) array == the same function called once per element of B."""
    from prysm import thinfilm as tf
    L, B, wvl, n0, f, pol = case['L'], tuple(case['bshape']), case['wvl'], case['n0'], case['f'], case['pol']
    form, num, argt, special = case.get('form', 'array'), case.get('num', 'float'), case.get('argt', ARGT0), case.get('special', 'none')
    wexp = case.get('wexp', 0)
    if wexp and num == 'int':
        num = 'float'
    if num == 'f32':
        wexp = max(-6, min(6, wexp))    # keep thicknesses inside the float32 range
    n, d = _batch_maps(dict(case, num=num))
    spec = case.get('periodic')
    if spec and L > 1:
        pp = min(spec['p'], L - 1)
        rows = list(range(pp)) * spec['reps'] + list(range(pp))[:spec['extra'] % pp] + [L - 1]
        n, d = n[rows].copy(), d[rows].copy()
        if case.get('detune') and int(np.prod(B)) > 1:
            # every element but the first gets another thickness in one film layer: single elements stay periodic or not independently of the batch
            k = int(U.rng_of(case['seed'], 23).integers(0, len(rows) - 1))
            flat = d[k].reshape(-1)
            flat[1:] = flat[1:] + (1 if num == 'int' else 0.37)
            d[k] = flat.reshape(d[k].shape)
        L = len(rows)
        ctx.label('periodic-film', 'detuned-batch' if case.get('detune') else 'whole-batch-periodic')
    if wexp:
        d = d * 10.0 ** wexp
        wvl = wvl * 10.0 ** wexp
    if num == 'f32':
        n, d = np.maximum(n.astype(np.float32), np.float32(1)), d.astype(np.float32)
    elif num == 'int':
        n, d = n.astype(np.int64), d.astype(np.int64)
        if n0 == 1.0:
            n0 = 1
    if num == 'f32' and f > FMAX:
        # as in the energy clause: a float32 stack is evaluated with n0 / n_j, sines and cosines in single precision (relative 6e-8).  Within
        # 1e-5 of grazing incidence / of the critical angle cos^2(theta) in a layer is of that size, so a layer whose index equals the ambient
        # index to float32 rounding is beyond its critical angle for one of the two evaluations and not for the other (|r| ~ 1 against
        # r ~ 1e-8): outside what single precision resolves, not a difference between batch and loop.  Float32 stacks go up to f = 0.995
        # (found by a background sweep, seed 21; replays/regression/C17-batch-float32-grazing-equal-index.json)
        f = FMAX
    th0 = _theta0(n0, float(n.min()), f)
    aoi = math.degrees(th0)
    cplx = case['absorbing'] and L > 1 and num == 'float'
    if cplx:
        rng = U.rng_of(case['seed'], 19)
        interior = (np.arange(L) < L - 1).reshape((L,) + (1,) * len(B))
        n = n + 1j * rng.uniform(0, 1, (L,) + B) * interior
        if case.get('metal', False):    # metal films among the interior samples: Re n from 0.01 to 3, extinction 0.5-10, 0-0.3 um
            mm = (rng.uniform(0, 1, (L,) + B) < 0.5) & interior
            nm = 10.0 ** rng.uniform(-2, 0.5, (L,) + B) + 1j * rng.uniform(0.5, 10.0, (L,) + B)
            dm = rng.uniform(0, 0.3, (L,) + B) * (10.0 ** wexp if wexp else 1.0)
            n = np.where(mm, nm, n)
            d = np.where(mm & (d != 0), dm, d)
    share = case.get('share', 'none')
    if share == 'index-is-thickness' and (wexp or num == 'f32'):
        share = 'none'        # the thickness must stay a few wavelengths; single precision: films twice as thick as the other float32 cases lose another bit of phase per layer (thorough tier, 12-layer periodic film: 1e-3 against a tolerance of 2e-4)
    if share != 'none' and L > 1 and not cplx:
        ks = int(U.rng_of(case['seed'], 29).integers(0, L - 1))
        if share in ('index-maps', 'both-maps', 'equal'):
            n[ks + 1] = n[ks]
        if share in ('thickness-maps', 'both-maps', 'equal'):
            d[ks + 1] = d[ks]
        if share == 'index-is-thickness':
            d[ks] = n[ks]         # a film 1 - 4 um thick (integer maps: the same numbers in the same type)
    else:
        share = 'none'
    if form.startswith('array'):
        stack = U.relayout(np.stack([n, d.astype(n.dtype) if cplx else d], axis=1), {'array': 'C', 'array-F': 'F', 'array-strided': 'strided'}[form])   # (L, 2, *B)
    else:
        pairs = [[n[k].copy(), (d[k].astype(n.dtype) if cplx else d[k]).copy()] for k in range(L)]
        if share in ('index-maps', 'both-maps'):
            pairs[ks + 1][0] = pairs[ks][0]
        if share in ('thickness-maps', 'both-maps'):
            pairs[ks + 1][1] = pairs[ks][1]
        if share == 'index-is-thickness' and pairs[ks][0].dtype == pairs[ks][1].dtype:
            pairs[ks][1] = pairs[ks][0]
        ctx.label('map objects shared between entries of the stack: ' + share)
        stack = pairs if form == 'pairs-lists' else tuple(tuple(p) for p in pairs)
    sshape = np.asarray(stack).shape
    nz = int(np.sum(d == 0))
    mixed_zero = any(0 < int(np.sum(d[k] == 0)) < d[k].size for k in range(L))
    ctx.nt(f > 0.02 and int(np.prod(B)) > 1)
    ctx.label('ndim=%d' % len(B), 'L=%d' % L, 'size1' if int(np.prod(B)) == 1 else 'size>1', 'has-unit-axis' if 1 in B else 'no-unit-axis',
              'vary:' + case['vary'], 'pol:' + pol, 'complex' if cplx else 'real', 'normal' if f == 0 else 'oblique',
              'special:' + special, 'form:' + form, 'num:' + num, 'layer-with-zero-and-nonzero-thickness' if mixed_zero else 'no-mixed-zero-layer',
              'wexp:%s' % ('0' if wexp == 0 else 'extreme'), 'order:' + case.get('order', 'batch-first'), 'call:' + argt['call'],
              'metal-films' if cplx and case.get('metal', False) else 'no-metal-films')
    desc = 'stack shape %s (%s, %s) special=%s (%d zero thicknesses) aoi=%r n0=%r wvl=%r' % (sshape, form, np.asarray(stack).dtype, special, nz, aoi, n0, wvl)
    rl = np.empty(B, complex)
    tl = np.empty(B, complex)

    def loop():
        for idx in np.ndindex(*B):
            one = [(n[(k,) + idx], d[(k,) + idx]) for k in range(L)]
            a, b = ctx.call(tf.multilayer_stack_rt, one, wvl, pol, aoi, n0)
            rl[idx], tl[idx] = complex(a), complex(b)
    if case.get('order', 'batch-first') == 'loop-first':
        loop()
    r, t = _twice(ctx, stack, wvl, pol, aoi, n0, argt, desc)
    U.check_shape(r, B, 'batch:r')
    U.check_shape(t, B, 'batch:t')
    keep_r, keep_t = np.array(r, copy=True), np.array(t, copy=True)
    if case.get('order', 'batch-first') != 'loop-first':
        loop()
    # next to grazing incidence / the critical angle a last-bit difference in a sine is amplified by 1/cos (1/cos^2 in the worst case)
    cmin = max(min([math.cos(th0)] + [_cos_in(n0, th0, float(x)) for x in np.real(n[np.imag(n) == 0]).ravel()]), 1e-150)
    if num == 'f32':
        # the batched and the scalar path round differently in float32: the rounding of each layer's phase thickness 2 pi n d / lambda (relative
        # 6e-8) reaches r and t amplified by 1 / cos.  Observed on correct code (8000 float32 stacks of the thorough tier, periodic films of up
        # to 18 layers included): |difference| <= 14 * 6e-8 * (sum of phase thicknesses + number of layers) / cos; the former fixed bound
        # 1e-4 + 1e-5 / cos was reached to 60 % by such stacks and exceeded at thorough seeds 1 and 2.  100 x the observed factor:
        phase_sum = float(np.max(np.sum(2.0 * np.pi * np.abs(n) * np.abs(d) / wvl, axis=0)))
        rt_ = max(1e-4 + 1e-5 / cmin, 1e-4 * (phase_sum + L) / cmin)
    elif f > FMAX:
        rt_ = 1e-11 + 1e-13 / cmin ** 2
    else:
        rt_ = 1e-11
    zb = ':thickness-map-with-zeros' if mixed_zero else ''
    # r and t are amplitude coefficients of order one.  In float32 a coefficient that is zero by cancellation (an interface between equal indices
    # next to grazing incidence) is rounding residue in both paths, so single precision is compared on the scale of one, not of the value itself
    # (found by a background sweep)
    at_ = rt_ if num == 'f32' else rt_ * 0.01
    U.check_close(r, rl, rt_, 'batch:%s:r%s' % (pol, zb), 'batched r vs loop, %s' % desc, atol=at_)
    U.check_close(t, tl, rt_, 'batch:%s:t%s' % (pol, zb), 'batched t vs loop, %s' % desc, atol=at_)
    if cplx:    # the energy bound of absorbing stacks, element by element of the batched result
        ns = np.real(n[-1])
        cs = np.sqrt(np.maximum(0.0, 1.0 - (n0 * math.sin(th0) / ns) ** 2))
        Rb = np.abs(np.asarray(r)) ** 2
        Tb = np.abs(np.asarray(t)) ** 2 * ns * cs / (n0 * math.cos(th0))
        tole = _energy_tol(cmin)
        ctx.require(bool(np.all(np.isfinite(Rb + Tb))) and bool(np.all(Rb + Tb <= 1 + tole)), 'batch:energy:%s:absorbing-gain' % pol,
                    'batched absorbing stack: max R+T-1 = %.3g (tol %.3g), %s' % (float(np.max(Rb + Tb - 1)), tole, desc))
    # the caller owns the results: another batch of the same shape (layers reversed in the interior, other wavelength), then the first results again
    other = np.stack([np.real(n) + 0.5, np.real(d) * 0.5 + 0.125 * (wvl if wexp else 1.0)], axis=1)
    ctx.call(tf.multilayer_stack_rt, other, wvl * 1.1, pol, 0.0, n0)
    U.check_equal(np.asarray(r), keep_r, 'batch:result-overwritten', 'r of the first batched call changed after a later call (%s)' % desc)
    U.check_equal(np.asarray(t), keep_t, 'batch:result-overwritten', 't of the first batched call changed after a later call (%s)' % desc)


# ---- batches that cross internal block / threshold sizes --------------------------------------------
BIG_BASES = {'quick': [2 ** 15, 2 ** 15, 2 ** 16, 2 ** 16, 3 * 2 ** 15], 'thorough': [2 ** 15, 2 ** 16, 3 * 2 ** 15, 2 ** 17, 5 * 2 ** 15]}


def strat_batch_large(tier):
    """maps with just more than 2**15 / 2**16 / 3 * 2**15 ... elements (never a multiple of 2**15), thin shapes, few layers, and every option of
    the call non-default: immersed stack (ambient index > 1), oblique incidence, either polarisation"""
    return st.fixed_dictionaries({
        'base': st.sampled_from(BIG_BASES[tier]), 'extra': st.one_of(st.integers(1, 40), st.integers(1, 3000)),
        'rows': st.sampled_from([0, 0, 1, 2, 3, 5, 7, 181]),      # 0: a 1-D sweep; else (rows, cols), also as (cols, rows) and (rows, 1, cols)
        'orient': st.sampled_from(['rc', 'cr', 'r1c']),
        'L': st.integers(1, 3), 'seed': U.seeds, 'wvl': U.nice_float(0.3, 2.0), 'n0': st.one_of(st.sampled_from([1.33, 1.5, 2.25]), U.nice_float(1.05, 2.0), st.just(1.0), U.nice_float(1.05, 2.0), U.nice_float(1.05, 2.0), U.nice_float(1.2, 2.0)),
        'f': st.one_of(st.sampled_from([0.5, 0.9, 0.2]), U.nice_float(0.05, FMAX), st.just(0.0), U.nice_float(0.05, FMAX), U.nice_float(0.3, FMAX), U.nice_float(0.3, FMAX)), 'pol': POL,
        'vary': st.sampled_from(['both', 'both', 'thickness', 'index']),
        'absorbing': st.sampled_from([False, False, True]), 'special': st.sampled_from(SPECIALS),
        'form': st.sampled_from(['array', 'array', 'array-F', 'pairs-lists', 'pairs-tuples']), 'argt': ARGT})


def big_shape(case):
    total = case['base'] + case['extra']
    rows = case['rows']
    if rows == 0:
        return (total,)
    cols = total // rows + 1
    return {'rc': (rows, cols), 'cr': (cols, rows), 'r1c': (rows, 1, cols)}[case['orient']]


def check_batch_large(case, ctx):
    """a batched stack with more than 2**15 / 2**16 elements: a sample of its elements (both ends, both sides of every multiple of 2**15,
    a strided sweep) equals the per-element loop, and every element of a lossless map conserves energy (absorbing: R + T <= 1)."""
    from prysm import thinfilm as tf
    B = big_shape(case)
    N = int(np.prod(B))
    L, wvl, n0, f, pol, form, argt = case['L'], case['wvl'], case['n0'], case['f'], case['pol'], case['form'], case['argt']
    n, d = _batch_maps(dict(case, bshape=list(B), num='float'))
    th0 = _theta0(n0, float(n.min()), f)
    aoi = math.degrees(th0)
    cplx = case['absorbing'] and L > 1
    if cplx:
        rng = U.rng_of(case['seed'], 19)
        interior = (np.arange(L) < L - 1).reshape((L,) + (1,) * len(B))
        n = n + 1j * rng.uniform(0, 1, (L,) + B) * interior
    dd = d.astype(n.dtype) if cplx else d
    if form.startswith('array'):
        stack = U.relayout(np.stack([n, dd], axis=1), {'array': 'C', 'array-F': 'F'}[form])
    elif form == 'pairs-lists':
        stack = [[n[k].copy(), dd[k].copy()] for k in range(L)]
    else:
        stack = tuple((n[k].copy(), dd[k].copy()) for k in range(L))
    ctx.nt(N % 2 ** 15 != 0 and (n0 != 1 or f > 0.02))
    ctx.label('elements:%d*2^15+' % (N // 2 ** 15), 'ndim=%d' % len(B), 'L=%d' % L, 'pol:' + pol, 'complex' if cplx else 'real', 'normal' if f == 0 else 'oblique',
              'n0=1' if n0 == 1 else 'n0>1', 'form:' + form, 'call:' + argt['call'], 'special:' + case['special'], 'vary:' + case['vary'],
              'all-options-non-default' if (n0 != 1 and f > 0.02) else 'some-option-default')
    desc = 'stack shape %s (%d elements per layer, %s, %s) aoi=%r n0=%r wvl=%r pol=%s' % (np.asarray(stack).shape, N, form, np.asarray(stack).dtype, aoi, n0, wvl, pol)
    snap = None if form.startswith('array') else _snapshot(stack)
    keep = np.array(stack, copy=True) if form.startswith('array') else None
    r, t = _call_rt(ctx, stack, wvl, pol, aoi, n0, argt)
    if keep is not None:
        ctx.require(np.array_equal(np.asarray(stack), keep), 'stack_rt:argument-modified', 'the stack array was modified by the call (%s)' % desc)
    else:
        _untouched(ctx, stack, snap, 'stack_rt', 'the stack (%s)' % desc)
    U.check_shape(r, B, 'batch:large:r')
    U.check_shape(t, B, 'batch:large:t')
    r, t = np.asarray(r), np.asarray(t)
    ctx.require(bool(np.all(np.isfinite(r))) and bool(np.all(np.isfinite(t))), 'batch:large:nonfinite',
                '%d of %d elements of r / t are not finite (%s)' % (int(np.sum(~(np.isfinite(r) & np.isfinite(t)))), N, desc))
    # the sample: both ends, both sides of every multiple of 2**15, and a strided sweep with a drawn offset
    pick = {0, 1, N - 2, N - 1}
    for b in range(2 ** 15, N, 2 ** 15):
        pick |= {b - 1, b, b + 1}
    step = max(1, N // 24)
    pick |= set(range(case['seed'] % step, N, step))
    pick = sorted(k for k in pick if 0 <= k < N)
    nf, df = n.reshape(L, N), d.reshape(L, N)
    rl = np.empty(len(pick), complex)
    tl = np.empty(len(pick), complex)
    for j, k in enumerate(pick):
        one = [(complex(nf[i, k]) if cplx else float(nf[i, k]), float(df[i, k])) for i in range(L)]
        a, b_ = ctx.call(tf.multilayer_stack_rt, one, wvl, pol, aoi, n0)
        rl[j], tl[j] = complex(a), complex(b_)
    ctx.tally('elements-compared-with-the-loop', len(pick))
    rt_ = 1e-11
    U.check_close(r.reshape(N)[pick], rl, rt_, 'batch:large:%s:r' % pol, 'batched r vs loop at flat indices %s.., %s' % (pick[:8], desc), atol=rt_ * 0.01)
    U.check_close(t.reshape(N)[pick], tl, rt_, 'batch:large:%s:t' % pol, 'batched t vs loop at flat indices %s.., %s' % (pick[:8], desc), atol=rt_ * 0.01)
    # energy, every element (harness arithmetic)
    ns = np.real(n[-1])
    s0 = n0 * math.sin(th0)
    cs = np.sqrt(np.maximum(0.0, 1.0 - (s0 / ns) ** 2))
    Rb = np.abs(r) ** 2
    Tb = np.abs(t) ** 2 * ns * cs / (n0 * math.cos(th0))
    lossless = np.real(n[np.imag(n) == 0]) if cplx else n
    cmin = max(min(math.cos(th0), float(np.sqrt(max(0.0, 1.0 - (s0 / float(lossless.min())) ** 2)))), 1e-150)
    tole = _energy_tol(cmin)
    e = Rb + Tb - 1
    if cplx:
        bad = ~(e <= tole)
    else:
        bad = ~(np.abs(e) <= tole)
    if bad.any():
        k = int(np.flatnonzero(bad.reshape(N))[0])
        ctx.fail('batch:large:energy:%s:%s' % (pol, 'absorbing-gain' if cplx else 'lossless'),
                 '%d of %d elements: R + T - 1 = %.3g at flat index %d (first), max |.| %.3g, tol %.3g; %s' % (int(bad.sum()), N, float(e.reshape(N)[k]), k, float(np.nanmax(np.abs(e))), tole, desc))


# ---- frustrated total internal reflection: evanescent film layers, propagating exit medium ----------------
# The transverse index s = n0 sin(aoi) lies strictly between 1 and n0 (an immersed / prism-coupled stack at oblique incidence).  A film layer
# is *evanescent* when its index is in [1, s) - the wave decays through it like exp(-x), x = 2 pi d sqrt(s^2 - n^2) / lambda - and *propagating*
# when its index exceeds s.  The exit medium always propagates, so the incidence is below total internal reflection for the stack as a whole:
# light tunnels through the thin evanescent layers, T > 0, and every sentence of the property applies (lossless => R + T = 1 with the
# admittance factor of the exit medium alone; a zero-thickness layer of ANY index >= 1 changes nothing; a half-wave layer of a propagating
# index is an absentee; a batched map equals the loop).  Everything is constructed from fractions, nothing is rejected.
EV_MARGIN = 0.999      # an evanescent index stays 1e-3 (s - 1) below s,
PROP_MARGIN = 1.002    # a propagating one 2e-3 s above it: cos in a propagating layer >= 0.063


def _ftir_s(n0, g):
    return 1.0 + g * (n0 - 1.0)


def _ftir_index(kind, u, s):
    if kind == 'ev':
        return 1.0 + u * (s - 1.0) * EV_MARGIN       # u == 0: exactly 1.0 (an air gap)
    return s * (PROP_MARGIN + 2.0 * u)


def _ftir_thickness(kind, n, x, s, wvl):
    """x is the decay exponent of an evanescent layer (amplitude factor exp(-x)), or the thickness of a propagating one in quarter vacuum wavelengths"""
    if kind == 'ev':
        return x * wvl / (2.0 * math.pi * math.sqrt(s * s - n * n))
    return x * wvl / 4.0


def _ftir_cos(kind, n, s):
    """|cos| of the (real or purely imaginary) propagation angle"""
    return math.sqrt(abs(1.0 - (s / n) ** 2))


def _g():
    return st.one_of(U.nice_float(0.02, 0.98), U.nice_float(0.02, 0.98), U.nice_float(0.3, 0.9), st.sampled_from([0.5, 0.1, 0.9, 0.999, 0.9999]))


def _n0_immersed():
    return st.one_of(U.nice_float(1.05, 2.5), U.nice_float(1.3, 4.0), st.sampled_from([1.5, 1.33, 1.7, 2.25, 1.05, 4.0]))


def _u():
    return st.one_of(U.nice_float(0.0, 1.0), U.nice_float(0.0, 1.0), st.sampled_from([0.0, 0.0, 1.0, 0.5]))


def _x():
    return st.one_of(U.nice_float(0.0, 3.0), U.nice_float(0.0, 3.0), U.nice_float(0.0, 1.0), U.nice_float(0.0, 8.0), st.sampled_from([0.0, 0.0, 1e-9, 0.3, 12.0]))


def _ftir_film():
    return st.fixed_dictionaries({'kind': st.sampled_from(['ev', 'ev', 'prop']), 'u': _u(), 'x': _x()})


def strat_ftir(tier):
    return st.fixed_dictionaries({
        'n0': _n0_immersed(), 'g': _g(), 'films': st.lists(_ftir_film(), min_size=0, max_size=5),
        'exit': st.fixed_dictionaries({'u': _u(), 'x': _x()}), 'wvl': U.nice_float(0.3, 2.0), 'pol': POL,
        'ins': st.fixed_dictionaries({'kind': st.sampled_from(['ev', 'ev', 'prop']), 'u': _u(), 'pos': st.one_of(st.integers(0, 5), st.integers(0, 20)), 'm': st.sampled_from([1, 2, 3, 50])}),
        'form': st.sampled_from(FORMS), 'wexp': st.sampled_from(WEXP), 'argt': ARGT, 'pre': st.sampled_from(PRE),
        'periodic': _periodic_spec()})


def _ftir_layers(case):
    """[(kind, index, thickness)] of the films and the exit medium, the transverse index s, the angle of incidence (rad) and the wavelength"""
    n0, wvl = case['n0'], case['wvl'] * 10.0 ** case.get('wexp', 0)
    s = _ftir_s(n0, case['g'])
    out = []
    for fm in list(case['films']) + [dict(case['exit'], kind='prop')]:
        n = _ftir_index(fm['kind'], fm['u'], s)
        out.append((fm['kind'], n, _ftir_thickness(fm['kind'], n, fm['x'], s, wvl)))
    return out, s, math.asin(s / n0), wvl


def check_ftir(case, ctx):
    """immersed stack beyond the critical angle of some film layers (evanescent), exit medium propagating: R + T = 1; a zero-thickness layer of any index changes nothing; a propagating half-wave layer is an absentee."""
    n0, pol, form, argt, pre = case['n0'], case['pol'], case['form'], case['argt'], case['pre']
    kl, s, th0, wvl = _ftir_layers(case)
    if case.get('periodic') and len(kl) > 1:
        kl = _periodic(kl, case['periodic'])
        ctx.label('periodic-film')
    aoi = math.degrees(th0)
    layers = [(n, d) for k, n, d in kl]
    films = kl[:-1]
    ns = kl[-1][1]
    n_ev = sum(1 for k, n, d in films if k == 'ev')
    n_ev_thick = sum(1 for k, n, d in films if k == 'ev' and d > 0)
    xsum = sum(2.0 * math.pi * d * math.sqrt(s * s - n * n) / wvl for k, n, d in films if k == 'ev')
    ins = case['ins']
    nn = _ftir_index(ins['kind'], ins['u'], s)
    pos = ins['pos'] % len(layers)
    ctx.nt(n_ev_thick > 0 or ins['kind'] == 'ev')
    ctx.label('evanescent-layers=%s' % (n_ev if n_ev < 3 else '3+'), 'pol:' + pol, 'form:' + form, 'pre:' + pre, 'call:' + argt['call'],
              'wexp:%s' % ('0' if case.get('wexp', 0) == 0 else 'extreme'), 'inserted:' + ins['kind'],
              'total decay exponent: %s' % ('0' if xsum == 0 else '<1' if xsum < 1 else '1..4' if xsum < 4 else '4..10' if xsum < 10 else '>=10'),
              'L=%d' % len(layers))
    if n_ev == 0 and ins['kind'] == 'ev':
        ctx.label('no evanescent layer in the stack, the inserted zero-thickness layer is one')
    if any(a[0] == 'ev' and b[0] == 'ev' for a, b in zip(films, films[1:])):
        ctx.label('two evanescent layers in a row')
    if films and films[0][0] == 'ev':
        ctx.label('evanescent layer next to the ambient')
    if films and films[-1][0] == 'ev':
        ctx.label('evanescent layer next to the exit medium')
    if any(k == 'ev' and n == 1.0 for k, n, d in films):
        ctx.label('air gap (index exactly 1)')
    if any(k == 'prop' and n < n0 for k, n, d in kl):
        ctx.label('propagating layer rarer than the ambient')
    base = _build(layers, form, 'float')
    desc = 'stack %r (%s) wvl=%r pol=%s aoi=%r deg n0=%r (n0 sin aoi = %r; layer kinds %s)' % (layers, form, wvl, pol, aoi, n0, s, [k for k, n, d in kl])
    _prior(ctx, pre, base, wvl, pol, aoi, n0)
    r0, t0 = _twice(ctx, base, wvl, pol, aoi, n0, argt, desc)
    r0 = _scalar(ctx, r0, 'stack_rt:nonfinite:evanescent-layer', 'r')
    t0 = _scalar(ctx, t0, 'stack_rt:nonfinite:evanescent-layer', 't')
    R, T = _RT(r0, t0, n0, th0, ns)
    ctx.label('T: %s' % ('>0.1' if T > 0.1 else '1e-3..0.1' if T > 1e-3 else '1e-6..1e-3' if T > 1e-6 else '<1e-6'))
    cmin = min([math.cos(th0)] + [_ftir_cos(k, n, s) for k, n, d in kl] + [_ftir_cos(ins['kind'], nn, s)])
    tol = _energy_tol(cmin)     # observed on correct code (8e4 stacks, decay exponents to 50): |R+T-1| <= 3.5e-15/cmin^2 and <= 1.4e-13/cmin
    ev = ':evanescent-layer' if n_ev_thick else ''
    ctx.require(abs(R + T - 1) <= tol, 'energy:%s:lossless%s' % (pol, ev), '%s: R=%.17g T=%.17g R+T-1=%.3g (tol %.3g)' % (desc, R, T, R + T - 1, tol))
    # a zero-thickness layer of an evanescent or a propagating index, in front of any layer
    z = _build(layers[:pos] + [(nn, 0.0)] + layers[pos:], form, 'float')
    r1, t1 = _call_rt(ctx, z, wvl, pol, aoi, n0, argt)
    r1 = _scalar(ctx, r1, 'stack_rt:nonfinite:evanescent-layer', 'r')
    t1 = _scalar(ctx, t1, 'stack_rt:nonfinite:evanescent-layer', 't')
    zk = ':evanescent-index' if ins['kind'] == 'ev' else ev
    ctx.require(abs(r1 - r0) <= tol * max(1, abs(r0)) and abs(t1 - t0) <= tol * max(1, abs(t0)), 'zero-thickness:%s%s' % (pol, zk),
                '%s + layer n=%r (%s) d=0 before #%d: r %r -> %r, t %r -> %r' % (desc, nn, ins['kind'], pos, r0, r1, t0, t1))
    # half-wave absentee (propagating index only: n d cos th = m lambda / 2 has no solution in an evanescent layer)
    if ins['kind'] == 'prop':
        m = ins['m']
        dh = m * wvl / (2 * nn * _cos_in(n0, th0, nn))
        h = _build(layers[:pos] + [(nn, dh)] + layers[pos:], form, 'float')
        r2, t2 = _call_rt(ctx, h, wvl, pol, aoi, n0, argt)
        R2, T2 = _RT(_scalar(ctx, r2, 'stack_rt:nonfinite:evanescent-layer', 'r'), _scalar(ctx, t2, 'stack_rt:nonfinite:evanescent-layer', 't'), n0, th0, ns)
        tolh = 1e-9 / cmin ** 2 * m
        ctx.require(abs(R2 - R) <= tolh and abs(T2 - T) <= tolh, 'absentee:%s%s' % (pol, ev),
                    '%s: half-wave layer n=%r d=%r (m=%d) before #%d changes R %.17g -> %.17g, T %.17g -> %.17g' % (desc, nn, dh, m, pos, R, R2, T, T2))
    r3, t3 = _call_rt(ctx, base, wvl, pol, aoi, n0, argt)
    ctx.require(abs(complex(r3) - r0) <= 1e-12 * max(1, abs(r0)) and abs(complex(t3) - t0) <= 1e-12 * max(1, abs(t0)), 'stack_rt:not-repeatable',
                '%s: the base stack evaluated again gives r %r -> %r, t %r -> %r' % (desc, r0, r3, t0, t3))


def strat_ftir_batch(tier):
    mx = 4 if tier == 'quick' else 6
    bshape = st.one_of(st.lists(st.integers(1, mx), min_size=1, max_size=1), st.lists(st.integers(1, mx), min_size=2, max_size=3),
                       st.lists(st.integers(2, mx), min_size=2, max_size=2))
    big = st.sampled_from([[2 ** 15 + 3], [3, 10923], [2 ** 15 + 3], [2 ** 16 + 1]] if tier == 'quick' else [[2 ** 15 + 3], [3, 10923], [2 ** 16 + 1], [7, 1, 9363], [2 ** 17 + 5]])
    return st.fixed_dictionaries({
        'L': st.integers(2, 5), 'bshape': st.one_of(*([bshape] * 14 + [big])), 'seed': U.seeds, 'wvl': U.nice_float(0.3, 2.0), 'n0': _n0_immersed(), 'g': _g(), 'pol': POL,
        'evfrac': st.sampled_from([0.5, 0.5, 0.2, 0.8, 1.0, 0.0]), 'xmax': st.sampled_from([3.0, 3.0, 1.0, 8.0]),
        'vary': st.sampled_from(['both', 'both', 'thickness', 'index']), 'special': st.sampled_from(['none', 'zeros', 'zero-layer', 'one-zero', 'air']),
        'form': st.sampled_from(BFORMS), 'wexp': st.sampled_from(WEXP), 'argt': ARGT, 'order': st.sampled_from(['batch-first', 'batch-first', 'loop-first'])})


def check_ftir_batch(case, ctx):
    """a batched immersed stack in which some elements hold evanescent film layers and others do not == the per-element loop; R + T = 1 on every element."""
    from prysm import thinfilm as tf
    L, B, n0, pol, form, argt = case['L'], tuple(case['bshape']), case['n0'], case['pol'], case['form'], case['argt']
    wvl = case['wvl'] * 10.0 ** case.get('wexp', 0)
    N = int(np.prod(B))
    s = _ftir_s(n0, case['g'])
    th0 = math.asin(s / n0)
    aoi = math.degrees(th0)
    rng = U.rng_of(case['seed'], 31)
    film = (np.arange(L) < L - 1).reshape((L,) + (1,) * len(B))
    evm = (rng.uniform(0, 1, (L,) + B) < case['evfrac']) & film
    u = rng.uniform(0, 1, (L,) + B)
    x = rng.uniform(0, 1, (L,) + B) * case['xmax']
    if case['vary'] == 'thickness':     # one index (and one kind) per layer, thickness maps
        first = (slice(None),) + (0,) * len(B)
        evm = np.broadcast_to(evm[first].reshape((L,) + (1,) * len(B)), (L,) + B).copy()
        u = np.broadcast_to(u[first].reshape((L,) + (1,) * len(B)), (L,) + B).copy()
    if case['vary'] == 'index':
        first = (slice(None),) + (0,) * len(B)
        x = np.broadcast_to(x[first].reshape((L,) + (1,) * len(B)), (L,) + B).copy()
    sp = case['special']
    v = rng.uniform(0, 1, (L,) + B)
    if sp == 'zeros':
        x[v < 0.3] = 0.0
    elif sp == 'zero-layer':
        x[int(rng.integers(0, L))] = 0.0
    elif sp == 'one-zero':
        x[np.unravel_index(int(np.argmin(v)), v.shape)] = 0.0
    elif sp == 'air':
        u[evm & (v < 0.5)] = 0.0
    n = np.where(evm, 1.0 + u * (s - 1.0) * EV_MARGIN, s * (PROP_MARGIN + 2.0 * u))
    d = np.where(evm, x * wvl / (2.0 * math.pi * np.sqrt(np.where(evm, s * s - n * n, 1.0))), x * wvl / 4.0)
    if form.startswith('array'):
        stack = U.relayout(np.stack([n, d], axis=1), {'array': 'C', 'array-F': 'F', 'array-strided': 'strided'}[form])
    elif form == 'pairs-lists':
        stack = [[n[k].copy(), d[k].copy()] for k in range(L)]
    else:
        stack = tuple((n[k].copy(), d[k].copy()) for k in range(L))
    anyev = evm.reshape(L, N).any(axis=0)
    big = N > 2 ** 15
    ctx.nt(bool(anyev.any()))
    ctx.label('ndim=%d' % len(B), 'L=%d' % L, 'pol:' + pol, 'form:' + form, 'vary:' + case['vary'], 'special:' + sp, 'call:' + argt['call'],
              'elements with an evanescent layer: %s' % ('none' if not anyev.any() else 'all' if anyev.all() else 'some'),
              'more than 2^15 elements' if big else 'small map', 'wexp:%s' % ('0' if case.get('wexp', 0) == 0 else 'extreme'), 'order:' + case['order'])
    desc = 'stack shape %s (%s) aoi=%r n0=%r (n0 sin aoi = %r) wvl=%r pol=%s, %d of %d elements hold an evanescent layer' % (
        np.asarray(stack).shape, form, aoi, n0, s, wvl, pol, int(anyev.sum()), N)
    if big:
        pick = sorted({0, 1, N - 2, N - 1, 2 ** 15 - 1, 2 ** 15, 2 ** 15 + 1} | set(range(case['seed'] % (N // 16), N, N // 16)))
        pick = [k for k in pick if 0 <= k < N]
    else:
        pick = list(range(N))
    nf, df = n.reshape(L, N), d.reshape(L, N)
    rl, tl = np.empty(len(pick), complex), np.empty(len(pick), complex)

    def loop():
        for j, k in enumerate(pick):
            one = [(float(nf[i, k]), float(df[i, k])) for i in range(L)]
            a, b = ctx.call(tf.multilayer_stack_rt, one, wvl, pol, aoi, n0)
            rl[j], tl[j] = complex(a), complex(b)
    if case['order'] == 'loop-first':
        loop()
    if big:
        snap = np.array(stack, copy=True) if form.startswith('array') else _snapshot(stack)
        r, t = _call_rt(ctx, stack, wvl, pol, aoi, n0, argt)
        same = np.array_equal(np.asarray(stack), snap) if form.startswith('array') else _same(_snapshot(stack), snap)
        ctx.require(same, 'stack_rt:argument-modified', 'the stack was modified by the call (%s)' % desc)
    else:
        r, t = _twice(ctx, stack, wvl, pol, aoi, n0, argt, desc)
    U.check_shape(r, B, 'batch:r')
    U.check_shape(t, B, 'batch:t')
    r, t = np.asarray(r), np.asarray(t)
    if case['order'] != 'loop-first':
        loop()
    ctx.require(bool(np.all(np.isfinite(r))) and bool(np.all(np.isfinite(t))), 'batch:nonfinite:evanescent-layer',
                '%d of %d elements of r / t are not finite (%s)' % (int(np.sum(~(np.isfinite(r) & np.isfinite(t)))), N, desc))
    rt_ = 1e-11
    # t of an element is compared on its own scale (tunnelling makes |t| differ by orders of magnitude between elements)
    rb, tb = r.reshape(N)[pick], t.reshape(N)[pick]
    bad = ~((np.abs(rb - rl) <= rt_ * np.maximum(1.0, np.abs(rl))) & (np.abs(tb - tl) <= rt_ * np.abs(tl) + 1e-300))
    if bad.any():
        j = int(np.flatnonzero(bad)[0])
        ctx.fail('batch:%s:%s' % (pol, 'evanescent-layer' if anyev[pick[j]] else 'beside-evanescent-elements'),
                 '%d of %d compared elements differ from the loop; flat index %d (layers %r): batched r=%r t=%r, loop r=%r t=%r; %s' % (
                     int(bad.sum()), len(pick), pick[j], [(float(nf[i, pick[j]]), float(df[i, pick[j]])) for i in range(L)], rb[j], tb[j], rl[j], tl[j], desc))
    # energy on every element (harness arithmetic; the admittance factor of the exit medium only)
    ns = n[-1]
    Rb = np.abs(r) ** 2
    Tb = np.abs(t) ** 2 * ns * np.sqrt(1.0 - (s / ns) ** 2) / (n0 * math.cos(th0))
    cmin = min(math.cos(th0), float(np.sqrt(np.abs(1.0 - (s / n) ** 2)).min()))
    tole = _energy_tol(cmin)
    e = (Rb + Tb - 1).reshape(N)
    bad = ~(np.abs(e) <= tole)
    if bad.any():
        k = int(np.flatnonzero(bad)[0])
        ctx.fail('batch:energy:%s:lossless:%s' % (pol, 'evanescent-layer' if anyev[k] else 'beside-evanescent-elements'),
                 '%d of %d elements (%d of them with an evanescent layer): R + T - 1 = %.3g at flat index %d (layers %r), tol %.3g; %s' % (
                     int(bad.sum()), N, int((bad & anyev).sum()), float(e[k]), k, [(float(nf[i, k]), float(df[i, k])) for i in range(L)], tole, desc))


CLAUSES = [
    HypClause('energy', strat_energy, check_energy, examples={'quick': 1500, 'thorough': 8000}, shards={'quick': 2, 'thorough': 8}),
    HypClause('fresnel', strat_fresnel, check_fresnel, examples={'quick': 1200, 'thorough': 6000}, shards={'quick': 2, 'thorough': 8}),
    HypClause('absentee', strat_absentee, check_absentee, examples={'quick': 1000, 'thorough': 5000}, shards={'quick': 2, 'thorough': 8}),
    HypClause('batch', strat_batch, check_batch, examples={'quick': 400, 'thorough': 1500}, shards={'quick': 2, 'thorough': 8}),
    HypClause('batch_large', strat_batch_large, check_batch_large, examples={'quick': 40, 'thorough': 300}, shards={'quick': 4, 'thorough': 10}),
    HypClause('frustrated_tir', strat_ftir, check_ftir, examples={'quick': 1000, 'thorough': 5000}, shards={'quick': 2, 'thorough': 8}),
    HypClause('frustrated_tir_batch', strat_ftir_batch, check_ftir_batch, examples={'quick': 300, 'thorough': 1500}, shards={'quick': 2, 'thorough': 8}),
]
