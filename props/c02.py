"""C02 - propagators conserve energy and invert each other."""
import math

import numpy as np
from hypothesis import strategies as st

from vlib.core import HypClause
from vlib import util as U

RULE = ("Hypothesis cases. (1) FFT route: complex/real fields of every shape incl. 1xN and Nx1, Q int or float >= 1, "
        "through prysm.propagation.focus/unfocus and Wavefront.focus/unfocus: Parseval, unfocus(focus(f,Q),1) == f "
        "embedded at the origin sample of the padded grid, focus(unfocus(g)) == g, pad energy.  (2) band-complete pairs "
        "for mdft and czt: per-axis Q = k/n (k >= n), forward onto (ky,kx) samples (the full Nyquist band), inverse back "
        "with Q=1: returns f, energy conserved; also the pair taken in the other order (inverse first).  (3) free space: "
        "|H|=1, P(0)=id, P(-z)P(z)=id, P(z2)P(z1)=P(z1+z2), energy, through angular_spectrum, a precomputed transfer "
        "function and Wavefront.free_space, Q in {1,2}, precision 32/64.  Non-trivial = non-square or an odd axis or complex "
        "field or Q>1 or z<0 or a composite distance.")
ASSUMPTIONS = ["float64 sums; rtol 1e-9 at 64 bit, 2e-3 at 32 bit", "harness origin-preserving embed (vlib.util.embed), independent of prysm.pad2d"]


def _energy(a):
    return float(np.sum(np.abs(a) ** 2))


# decimal exponent of an overall amplitude factor: every clause of the property is homogeneous in the field, so a field of
# 1e-12 or 1e+30 (heights in metres, photon counts) must behave exactly like an O(1) one
MAG = st.sampled_from([0, 0, 0, 0, -9, -12, 9, -30, 30, -100, 100])


def _mag(case, prec=64):
    e = case.get('mag', 0)
    if prec == 32:
        e = max(-12, min(12, e))      # complex64 holds 1e+-38; energies are squared
    return 10.0 ** e, ('mag:1' if e == 0 else ('mag:tiny' if e < 0 else 'mag:huge'))


def _reset():
    from prysm.fttools import mdft, czt
    mdft.clear()
    czt.clear()


# ---- (1) FFT route ------------------------------------------------------------------------------------
def strat_fft(tier):
    nmax = {'quick': 40, 'thorough': 96}[tier]
    ax = U.axis_len(nmax)
    return st.fixed_dictionaries({
        'shape': st.one_of(st.tuples(ax, ax).map(list), ax.map(lambda k: [k, k]), ax.map(lambda k: [1, k]), ax.map(lambda k: [k, 1])),
        'Q': st.one_of(st.integers(1, 4), st.sampled_from([1, 2, 1.5, 1.25, 3]), U.nice_float(1, 3).map(lambda v: round(v, 2))),
        'kind': U.field_kinds, 'via': st.sampled_from(['function', 'wavefront']), 'layout': U.layouts, 'seed': U.seeds, 'mag': MAG, 'fftbackend': U.fft_backends})


def check_fft(case, ctx):
    """focus/unfocus are unitary and mutually inverse; zero padding adds no energy."""
    be = case.get('fftbackend', 'scipy')
    if be != 'scipy':
        ctx.label('fft-backend:' + be)
    with U.fft_backend(be):
        _check_fft_inner(case, ctx)


def _check_fft_inner(case, ctx):
    from prysm import propagation as P
    from prysm.fttools import pad2d
    shape, Q = case['shape'], case['Q']
    mag, maglabel = _mag(case)
    f = U.relayout(U.field(case['seed'], shape, case['kind']) * mag, case.get('layout', 'C'))
    ctx.label(maglabel)
    padded = tuple(math.ceil(s * Q) for s in shape) if Q != 1 else tuple(shape)
    ctx.nt(shape[0] != shape[1] or shape[0] % 2 == 1 or shape[1] % 2 == 1 or case['kind'] != 'real' or Q > 1)
    ctx.label('via:' + case['via'], 'square' if shape[0] == shape[1] else ('row-or-col' if 1 in shape else 'nonsquare'),
              'Q=1' if Q == 1 else 'Q>1', 'odd-axis' if (shape[0] % 2 or shape[1] % 2) else 'even')
    E = _energy(f)
    tol = 1e-9

    if case['via'] == 'function':
        foc = lambda a, q: ctx.call(P.focus, a, q)        # noqa
        unf = lambda a, q: ctx.call(P.unfocus, a, q)      # noqa
    else:
        def foc(a, q):
            return ctx.call(P.Wavefront(a, 0.6, 0.1, 'pupil').focus, 50.0, q).data

        def unf(a, q):
            return ctx.call(P.Wavefront(a, 0.6, 0.1, 'psf').unfocus, 50.0, q).data
    F = foc(f, Q)
    U.check_shape(F, padded, 'focus')
    ctx.within(abs(_energy(F) - E), tol * max(E, 1e-300), 'focus:energy', 'focus %s Q=%r: energy %.15g -> %.15g' % (shape, Q, E, _energy(F)))
    back = unf(F, 1)
    U.check_close(back, U.embed(f.astype(complex), padded), tol, 'unfocus(focus)', 'unfocus(focus(f,Q=%r),1) vs f embedded in %s' % (Q, padded),
                  atol=tol * math.sqrt(E))
    G = unf(f, Q)
    U.check_shape(G, padded, 'unfocus')
    ctx.within(abs(_energy(G) - E), tol * max(E, 1e-300), 'unfocus:energy', 'unfocus %s Q=%r: energy %.15g -> %.15g' % (shape, Q, E, _energy(G)))
    back2 = foc(G, 1)
    U.check_close(back2, U.embed(f.astype(complex), padded), tol, 'focus(unfocus)', 'focus(unfocus(f,Q=%r),1) vs f embedded in %s' % (Q, padded),
                  atol=tol * math.sqrt(E))
    p = ctx.call(pad2d, f, Q)
    ctx.require(abs(_energy(p) - E) <= 1e-12 * max(E, 1e-300) and np.count_nonzero(p) == np.count_nonzero(f), 'pad2d:energy',
                'zero padding by Q=%r changed the energy or the number of non-zero samples' % (Q,))


# ---- (2) band-complete mdft / czt pairs ----------------------------------------------------------------
# (n, k) for which the floating-point product n * (k / n) is not exactly k: "shape * Q == samples_out" holds only to rounding there
INEXACT = [(n, k) for n in range(1, 41) for k in range(n, n + 41) if n * (k / n) != k]


def _sh():
    return st.one_of(st.just(0), st.integers(-3, 3), st.integers(-8, 8).map(lambda v: v / 4), U.nice_float(-4, 4).map(lambda v: round(v, 3)))


def strat_pairs(tier):
    nmax = {'quick': 14, 'thorough': 40}[tier]
    ax = U.axis_len(nmax)

    def extra():
        return st.one_of(st.just(0), st.integers(0, 6), st.integers(0, nmax))
    return st.fixed_dictionaries({
        'shape': st.one_of(st.tuples(ax, ax).map(list), ax.map(lambda k: [k, k])),
        'extra': st.tuples(extra(), extra()).map(list),       # k = n + extra  (per axis)
        'kind': U.field_kinds, 'method': st.sampled_from(['mdft', 'czt']), 'order': st.sampled_from(['fwd-inv', 'inv-fwd']),
        'prec': st.sampled_from([64, 64, 64, 32]), 'seed': U.seeds, 'mag': MAG, 'fftbackend': U.fft_backends,
        # what the shared executor did before the checked pair: nothing (cleared), the same geometry with another shift, or 40 other geometries
        # interleaved with the forward leg of this one (bounded caches: the geometry is hit again and again while others come and go)
        'hist': st.sampled_from(['none', 'none', 'none', 'other-shift', 'interleaved-many', 'one-axis-twins', 'one-axis-twins']),
        # the pair through the executors, or through focus_fixed_sampling / unfocus_fixed_sampling (functions or Wavefront methods) with physical
        # spacings chosen so that the focal grid is the full band (square geometry: one dx per plane)
        'via': st.sampled_from(['executor', 'executor', 'executor', 'function', 'wavefront']),
        'phys': st.fixed_dictionaries({'dx': st.sampled_from([0.1, 0.37, 1.0, 2.5]), 'wvl': st.sampled_from([0.5, 0.6328, 1.55]), 'efl': st.sampled_from([10.0, 100.0, 1234.5])}),
        # the same output shift (x, y) handed to both legs: the pair stays mutually inverse (the executors shift the coordinates of both planes)
        'shift': st.one_of(st.just([0, 0]), st.just([0, 0]), st.tuples(_sh(), _sh()).map(list)),
        # per axis: -1 = keep the drawn (n, extra), otherwise an index into INEXACT (small sizes first in the quick tier)
        'inexact': st.one_of(st.just([-1, -1]), st.just([-1, -1]), st.tuples(st.integers(-1, {'quick': 24, 'thorough': len(INEXACT) - 1}[tier]),
                                                                             st.integers(-1, {'quick': 24, 'thorough': len(INEXACT) - 1}[tier])).map(list))})


def check_pairs(case, ctx):
    """a transform onto the full Nyquist band (n*Q samples) followed by the inverse with Q=1 returns the field; energy conserved."""
    be = case.get('fftbackend', 'scipy')
    if be != 'scipy':
        ctx.label('fft-backend:' + be)
    with U.fft_backend(be):
        _check_pairs_inner(case, ctx)


def _check_pairs_inner(case, ctx):
    from prysm.fttools import mdft, czt
    _reset()
    shape, extra, method, prec = list(case['shape']), list(case['extra']), case['method'], case['prec']
    for ax_, idx in enumerate(case.get('inexact', [-1, -1])):
        if idx >= 0:
            shape[ax_], extra[ax_] = INEXACT[idx][0], INEXACT[idx][1] - INEXACT[idx][0]
            ctx.label('n*(k/n)!=k')
    if case.get('via', 'executor') != 'executor':
        # one spacing per plane: the full band has lambda f / (dx_a dx_b) samples on *both* axes whatever the (possibly non-square) shape of the
        # starting plane, so the band-complete grid is square with k >= max(shape)
        kk = max(shape) + extra[0]
        extra[0], extra[1] = kk - shape[0], kk - shape[1]
    k = (shape[0] + extra[0], shape[1] + extra[1])
    Q = (k[0] / shape[0], k[1] / shape[1])
    mag, maglabel = _mag(case, prec)
    f = U.field(case['seed'], shape, case['kind']).astype(complex) * mag
    ctx.label(maglabel)
    ctx.nt(shape[0] != shape[1] or shape[0] % 2 == 1 or shape[1] % 2 == 1 or case['kind'] != 'real' or extra != [0, 0])
    ctx.label(method, case['order'], 'prec%d' % prec, 'square' if shape[0] == shape[1] else 'nonsquare',
              'Q=1' if extra == [0, 0] else 'Q>1', 'peraxisQ' if Q[0] != Q[1] else 'isoQ',
              'parity-mix' if any((a % 2) != (b % 2) for a, b in zip(shape, k)) else 'parity-same')
    ex = mdft if method == 'mdft' else czt
    fwd, inv = (ex.dft2, ex.idft2) if method == 'mdft' else (ex.czt2, ex.iczt2)
    if case['order'] == 'inv-fwd':
        fwd, inv = inv, fwd
    via = case.get('via', 'executor')
    if via != 'executor':
        from prysm import propagation as P
        ctx.label('via:' + via)
        ph = case['phys']
        k_ = k[0]
        dxa = ph['dx']                                       # spacing of the plane we start in
        dxb = ph['wvl'] * ph['efl'] / (dxa * k_)             # spacing of the full-band plane: n Q = k on both axes
        first_is_focus = case['order'] != 'inv-fwd'

        def fwd(a, Q_, out_, s_=(0, 0)):      # noqa - same call shape as the executors, shift in samples of the output plane
            o = (int(out_[0]), int(out_[1]))
            su = (s_[0] * dxb, s_[1] * dxb)
            if via == 'function':
                return ctx.call(P.focus_fixed_sampling if first_is_focus else P.unfocus_fixed_sampling, a, dxa, ph['efl'], ph['wvl'], dxb, o, shift=su, method=method)
            w = P.Wavefront(a, ph['wvl'], dxa, space='pupil' if first_is_focus else 'psf')
            return (w.focus_fixed_sampling if first_is_focus else w.unfocus_fixed_sampling)(ph['efl'], dxb, o, shift=su, method=method).data

        def inv(a, Q_, out_, s_=(0, 0)):      # noqa
            o = (int(out_[0]), int(out_[1]))
            su = (s_[0] * dxa, s_[1] * dxa)
            if via == 'function':
                return ctx.call(P.unfocus_fixed_sampling if first_is_focus else P.focus_fixed_sampling, a, dxb, ph['efl'], ph['wvl'], dxa, o, shift=su, method=method)
            w = P.Wavefront(a, ph['wvl'], dxb, space='psf' if first_is_focus else 'pupil')
            return (w.unfocus_fixed_sampling if first_is_focus else w.focus_fixed_sampling)(ph['efl'], dxa, o, shift=su, method=method).data
    tol = 1e-9 if prec == 64 else 2e-3
    E = _energy(f)
    bucket = '%s-pair' % method
    if method == 'czt':
        if shape[0] != shape[1] or Q[0] != Q[1]:
            bucket += ':nonsquare-or-peraxisQ'
        if any(a % 2 == 0 and b % 2 == 1 for a, b in zip(shape, k)) or any(b % 2 == 0 and a % 2 == 1 for a, b in zip(shape, k)):
            bucket += ':even<->odd'
    sh = tuple(case.get('shift', [0, 0]))
    shifted = any(v != 0 for v in sh)
    if shifted:
        ctx.label('shifted', 'one-axis-shift' if (sh[0] == 0) != (sh[1] == 0) else 'both-axes-shift')
        bucket += ':shifted'
        ctx.nt(True)
    hist = case.get('hist', 'none')
    if hist != 'none':
        ctx.label('history:' + hist)
    with U.precision(prec):
        if hist == 'other-shift':
            osh = (0, 0) if shifted else (-1, 0.5)
            ctx.call(inv, np.asarray(ctx.call(fwd, f, Q, k, osh)), 1, tuple(shape), osh)
        elif hist == 'one-axis-twins' and via == 'executor':
            # earlier pairs that equal the checked one on one axis (length, Q, output samples, shift) and differ on the other axis only
            for axis in (0, 1):
                for dn, dk in ((1, 2), (3, 3)):
                    s2, k2 = list(shape), list(k)
                    s2[1 - axis] += dn
                    k2[1 - axis] = s2[1 - axis] + extra[1 - axis] + dk
                    Q2 = (k2[0] / s2[0], k2[1] / s2[1])
                    Q2 = tuple(Q[i] if i == axis else Q2[i] for i in (0, 1))
                    t = np.ones(tuple(s2), dtype=complex)
                    ctx.call(inv, np.asarray(ctx.call(fwd, t, Q2, tuple(k2), sh)), 1, tuple(s2), sh)
        elif hist == 'interleaved-many':
            tiny = np.ones((2, 3), dtype=complex)
            for i in range(40):
                ctx.call(fwd, tiny, 1 + i / 64, (3, 2))
                ctx.call(inv, tiny, 1 + i / 64, (3, 2))
                Fi = ctx.call(fwd, f, Q, k, sh)
                if i % 8 == 7:
                    ctx.call(inv, np.asarray(Fi), 1, tuple(shape), sh)
        F = ctx.call(fwd, f, Q, k, sh) if shifted else ctx.call(fwd, f, Q, k)
        U.check_shape(F, k, bucket)
        ctx.within(abs(_energy(F) - E), 10 * tol * max(E, 1e-300), bucket + ':energy',
                    '%s %s onto the full band %s: energy %.15g -> %.15g' % (method, shape, k, E, _energy(F)))
        g = ctx.call(inv, np.asarray(F), 1, tuple(shape), sh) if shifted else ctx.call(inv, np.asarray(F), 1, tuple(shape))
    U.check_close(g, f, tol, bucket + ':roundtrip', '%s %s %s->%s->%s' % (method, case['order'], shape, k, shape), atol=tol * math.sqrt(E))


# ---- (3) free space ---------------------------------------------------------------------------------------
def strat_free(tier):
    nmax = {'quick': 32, 'thorough': 96}[tier]
    ax = U.axis_len(nmax)
    z = st.one_of(st.sampled_from([0.0, 1.0, -1.0, 10.0, 250.0]), U.nice_float(-500, 500).map(lambda v: round(v, 3)))
    return st.fixed_dictionaries({
        'shape': st.one_of(st.tuples(ax, ax).map(list), ax.map(lambda k: [k, k])),
        # spacings from a millimetre down to well below half a wavelength (dx < 0.0005*wvl: every plane-wave component is evanescent
        # in the exact theory, but the library's paraxial kernel is a pure phase at every frequency)
        'wvl': st.sampled_from([0.5, 0.6328, 1.55, 10.6]), 'dx': st.sampled_from([0.01, 0.05, 0.2, 1.0, 2e-4, 1e-3]),
        'z1': z, 'z2': z, 'Q': st.sampled_from([1, 1, 2]), 'via': st.sampled_from(['function', 'tf', 'wavefront']),
        'kind': U.field_kinds, 'prec': st.sampled_from([64, 64, 64, 32]), 'layout': U.layouts, 'seed': U.seeds,
        'scalar_type': st.sampled_from(['float', 'float', 'np.float64', '0d-array']), 'mag': MAG, 'space': st.sampled_from(['pupil', 'psf'])})


def check_free(case, ctx):
    """angular-spectrum propagation: |H|=1, identity at z=0, P(-z)P(z)=id, P(z2)P(z1)=P(z1+z2), energy conserved."""
    from prysm import propagation as P
    shape, wvl, dx, z1, z2, Q, via, prec = (case[k] for k in ('shape', 'wvl', 'dx', 'z1', 'z2', 'Q', 'via', 'prec'))
    if dx < 0.01:
        # keep the kernel's largest phase (pi wvl z / (2 dx)^2) in the range double precision resolves to the stated tolerance
        z1, z2 = z1 * (dx / 0.01) ** 2, z2 * (dx / 0.01) ** 2
        ctx.label('sub-wavelength-sampling' if dx < 0.0005 * wvl else 'fine-sampling')
    mag, maglabel = _mag(case, prec)
    f = U.relayout(U.field(case['seed'], shape, case['kind']).astype(complex) * mag, case.get('layout', 'C'))
    ctx.label(maglabel)
    f_before = f.copy()
    # the scalar arguments may be Python floats, numpy scalars or 0-d arrays; the callee must not change the caller's objects
    styp = case.get('scalar_type', 'float')
    wvl0, dx0 = wvl, dx
    if styp == 'np.float64':
        wvl, dx = np.float64(wvl), np.float64(dx)
    elif styp == '0d-array':
        wvl, dx = np.array(wvl, dtype=float), np.array(dx, dtype=float)
    ctx.label('scalars:' + styp)
    ctx.nt(shape[0] != shape[1] or shape[0] % 2 == 1 or shape[1] % 2 == 1 or case['kind'] != 'real' or Q > 1 or z1 < 0 or z2 != 0)
    ctx.label('via:' + via, 'prec%d' % prec, 'Q=%d' % Q, 'z1<0' if z1 < 0 else ('z1=0' if z1 == 0 else 'z1>0'),
              'square' if shape[0] == shape[1] else 'nonsquare')
    tol = 1e-9 if prec == 64 else 5e-3
    E = _energy(f)
    padded = tuple(math.ceil(s * Q) for s in shape)
    f0 = U.embed(f, padded)     # the field on the grid the propagation actually runs on
    with U.precision(prec):
        def prop(a, z, q):
            if via == 'function':
                return ctx.call(P.angular_spectrum, a, wvl, dx, z, q)
            if via == 'tf':
                shp = tuple(math.ceil(s * q) for s in a.shape)
                tf = ctx.call(P.angular_spectrum_transfer_function, shp, wvl, dx, z)
                a2 = U.embed(a, shp) if q != 1 else a
                return ctx.call(P.angular_spectrum, a2, wvl, dx, z, 1, tf)
            w = P.Wavefront(a, wvl, dx)
            wo = ctx.call(w.free_space, z, q)
            ctx.require(float(wo.dx) == dx0 and float(wo.wavelength) == wvl0, 'free_space:metadata', 'dx / wavelength changed')
            return wo.data
        H = ctx.call(P.angular_spectrum_transfer_function, tuple(padded), wvl, dx, z1)
        U.check_shape(H, padded, 'transfer_function')
        ctx.within(float(np.abs(np.abs(H) - 1).max()), 1e-12 if prec == 64 else 1e-5, 'transfer_function:modulus',
                    '|H| deviates from 1 by %.3g' % float(np.abs(np.abs(H) - 1).max()))
        if True:
            Hsq = ctx.call(P.angular_spectrum_transfer_function, int(padded[0]), wvl, dx, z1)
            U.check_shape(Hsq, (padded[0], padded[0]), 'transfer_function:int-samples')
        g0 = prop(f, 0.0, Q)
        U.check_close(g0, f0, tol, 'free_space:z=0', 'P(0) f != f (embedded in %s)' % (padded,), atol=tol * math.sqrt(E))
        g1 = prop(f, z1, Q)
        U.check_shape(g1, padded, 'free_space')
        ctx.within(abs(_energy(g1) - E), 10 * tol * max(E, 1e-300), 'free_space:energy', 'energy %.15g -> %.15g at z=%g' % (E, _energy(g1), z1))
        gb = prop(np.asarray(g1), -z1, 1)
        U.check_close(gb, f0, tol, 'free_space:inverse', 'P(-z)P(z) f != f for z=%g' % z1, atol=tol * math.sqrt(E))
        g12 = prop(np.asarray(g1), z2, 1)
        gs = prop(f, z1 + z2, Q)
        U.check_close(g12, gs, tol, 'free_space:additive', 'P(z2)P(z1) != P(z1+z2) for z1=%g z2=%g' % (z1, z2), atol=tol * math.sqrt(E))
        U.check_equal(f, f_before, 'free_space:input-modified', 'propagation modified its input array')
        if via == 'wavefront':
            # hops chained on the returned Wavefront objects (no re-wrapping in between), from a wavefront labelled 'pupil' or 'psf'
            # (free space propagation works on whatever plane the wavefront is in; dx is taken as given)
            sp = case.get('space', 'pupil')
            ctx.label('wavefront-space:' + sp)
            w0 = P.Wavefront(f.copy(), wvl, dx, space=sp)
            c1 = ctx.call(w0.free_space, z1, Q)
            ctx.require(float(c1.dx) == dx0 and c1.space == sp, 'free_space:metadata', 'dx / space of the propagated wavefront: %r %r (was %r %r)' % (float(c1.dx), c1.space, dx0, sp))
            cb = ctx.call(c1.free_space, -z1, 1)
            U.check_close(np.asarray(cb.data), f0, tol, 'free_space:chained:inverse', 'w.free_space(z).free_space(-z) != w (space=%s) for z=%g' % (sp, z1), atol=tol * math.sqrt(E))
            c12 = ctx.call(c1.free_space, z2, 1)
            U.check_close(np.asarray(c12.data), gs, tol, 'free_space:chained:additive', 'w.free_space(z1).free_space(z2) != w.free_space(z1+z2) (space=%s)' % sp, atol=tol * math.sqrt(E))
            ctx.require(float(c12.dx) == dx0 and float(cb.dx) == dx0, 'free_space:metadata', 'dx drifted along a chain of propagations: %r, %r (was %r)' % (float(c12.dx), float(cb.dx), dx0))
            # one Wavefront object across several propagations, its public data array edited in place or reassigned in between: every
            # result follows the data the object holds at the time of the call
            wh = P.Wavefront(f.copy(), wvl, dx)
            h1 = np.array(ctx.call(wh.free_space, z1, Q).data, copy=True)
            U.check_close(h1, g1, tol, 'free_space:same-object', 'first propagation from a re-used Wavefront', atol=tol * math.sqrt(E))
            wh.data *= (0.5 - 1.5j)
            h2 = np.array(ctx.call(wh.free_space, z1, Q).data, copy=True)
            U.check_close(h2, (0.5 - 1.5j) * np.asarray(g1), tol, 'free_space:stale-after-inplace-edit',
                          'same Wavefront, data scaled in place between two propagations: the second result does not follow the data', atol=2 * tol * math.sqrt(E))
            wh.data = U.embed(np.asarray(g1), padded) if tuple(np.shape(wh.data)) != tuple(padded) else np.array(g1, copy=True)
            if tuple(np.shape(wh.data)) == tuple(np.shape(f)):
                h3 = np.asarray(ctx.call(wh.free_space, -z1, 1).data)
                U.check_close(h3, f0, tol, 'free_space:stale-after-reassignment', 'same Wavefront, data reassigned to P(z) f, then P(-z): does not return f',
                              atol=2 * tol * math.sqrt(E))
        ctx.require(float(wvl) == wvl0 and float(dx) == dx0, 'free_space:argument-modified',
                    'the wavelength / spacing objects of the caller were changed in place: wvl %r -> %r, dx %r -> %r' % (wvl0, float(wvl), dx0, float(dx)))
        # a transfer function handed out earlier stays what it was (no aliasing with anything later calls reuse)
        H2 = ctx.call(P.angular_spectrum_transfer_function, tuple(padded), wvl, dx, z1)
        Hc = np.array(H2, copy=True)
        H2 *= 0
        H3 = ctx.call(P.angular_spectrum_transfer_function, tuple(padded), wvl, dx, z1)
        U.check_equal(np.asarray(H3), Hc, 'transfer_function:aliased-state', 'a caller editing a returned transfer function in place changed later ones')


CLAUSES = [
    HypClause('fft_unitary_inverse', strat_fft, check_fft, examples={'quick': 500, 'thorough': 3000}, shards={'quick': 4, 'thorough': 16}),
    HypClause('band_complete_pairs', strat_pairs, check_pairs, examples={'quick': 500, 'thorough': 3000}, shards={'quick': 6, 'thorough': 16}),
    HypClause('free_space_group', strat_free, check_free, examples={'quick': 400, 'thorough': 2500}, shards={'quick': 6, 'thorough': 16}),
]
