"""C07 - polynomial bases equal their mathematical definitions and are orthogonal."""
import math
from fractions import Fraction

import numpy as np
from hypothesis import strategies as st
from scipy import special as sps

from vlib.core import HypClause, EnumClause
from vlib import util as U
# shared point / shape / parameter generators of the two polynomial properties live in c09
from props.c09 import (H, make_points, shaped, point_shapes, array_shapes, shape_label, shape_tuple, size_of, ab_pairs, ab_class, orders, n_class,
                       variants, var_of, var_labels, present, as32, contain, rtol_of, reuse_check, call, settle_kind, HERMITES, nm_pairs as nm_pairs_ext,
                       with_big_shapes, q2d_contain, NEAR_RELS, NEAR_BASES, CHEBY_PAIRS, near_special_pairs, order_as, params_as, prefail, settle_sum_kind,
                       coefs_of, BIG_SHAPES, ab_pairs9, ab_class9, single_session, single, session_close, session_of, edit_check, now64, editable)

RULE = ("Values: Hypothesis draws family, order (0..3 forced, otherwise uniform to 40 quick / 120 thorough; Zernike n to 30 / 60, "
        "Dickson n to 40 / 80, Q2d n to 12, |m| to 10; Gram matrices to N = 40 / 120 for the Jacobi family - capped at 40 when a weight "
        "exponent is below -0.9, where the Gauss-Jacobi rule itself degrades - complete Zernike sets to n = 14 / 44, Qbfs to 40 / 80), shape parameters (tabulated pairs, Chebyshev half-integers, alpha+beta in {0,-1}, reals in "
        "(-1,6]; Laguerre alpha in (-1,6]; Dickson alpha in [-3,3]) and the shape of the coordinate argument (Python float, "
        "0-D, 1-D, 2-D, 3-D, optionally holding the end points of the domain); coordinate values are expanded from a drawn "
        "integer.  Oracles: scipy.special.eval_* (second implementation), U_n -+ U_(n-1) and the closed trigonometric forms "
        "for Chebyshev 3rd/4th kind, exact rational arithmetic (fractions) for the Dickson closed sums and the Zernike radial "
        "factorial sum, the functional identity D_n(u+a/u,a)=u^n+(a/u)^n, x^m y^n, cos/sin(a t) r^b H^c, u^4 P_n^(0,4)(2u^2-1), "
        "Forbes' tabulated Qbfs n<=5.  Orthogonality: Gram matrices by quadrature that is exact for the degrees involved - "
        "Gauss-Jacobi (scipy.special.roots_jacobi) for the Jacobi family against the textbook norms h_n, Gauss-Legendre in r^2 "
        "times uniform theta for Zernike (unit RMS and mutual orthogonality, norm=True; (1+delta_m0)/(2n+2) for norm=False), "
        "Gauss-Chebyshev in u times uniform theta for the Qbfs / 2D-Q slope (gradient) inner products with slopes taken by "
        "complex step of the value routine.  For Qbfs n>5 and 2D-Q the definition is checked through its uniqueness theorem: "
        "complete sets n=0..N whose slope Gram matrix is the identity, each member a polynomial of degree n in u^2 (Chebyshev "
        "interpolation on [0,1]: no coefficient above n) with leading sign (-1)^n, are the Gram-Schmidt polynomials of Forbes.  "
        "Every value / sequence case also draws HOW the arguments are presented (sub-dict v, shared with C09): dtype of the evaluation points "
        "(float64, float32 - checked to 3e-4 (n+10) of the largest value, n <= 150 -, complex128 with zero imaginary part and, for the routines the unchanged "
        "code accepts them in - the single-order evaluators, Dickson, XY / Hopkins, Qbfs / Qcon / Q2d, zernike_nm with a radial Jacobi order >= 1 - "
        "integer-valued points as int64/int32/int16/int8 arrays, numpy integer scalars and Python ints), numpy scalars next to Python floats and 0-D "
        "arrays, memory layout of N-D arrays (C, Fortran, transposed view, strided view; also for the quadrature grids of the Gram clauses), order "
        "lists as list / tuple / ndarray, a float32 evaluation immediately before the checked one, rarely an array of more than 2**16 points, and a "
        "re-use check (kept result unchanged after a call with another order; after the caller overwrites its result in place the same call is still "
        "right); every array / list argument must come back unchanged.  Zernike (n, m) include the extremes m = +-n, 0 / +-1 and n up to 120.  "
        "The Jacobi-family Gram matrices are formed twice: with the Gauss-Jacobi weights, and with their factor (1-x)^a (1+x)^b replaced by "
        "prysm.polynomials.jacobi.weight(a, b, nodes) (orthogonal under the library's own weight); jacobi.weight itself is compared point by point with "
        "(1-x)^alpha (1+x)^beta for symmetric and asymmetric pairs (parameters as Python numbers, numpy scalars, 0-D arrays; end points where both exponents "
        "are >= 0).  The 2D-Q / Qbfs polynomials and their slopes are also taken through the sum evaluators with one coefficient set to 1 "
        "(compute_z_zprime_Q2d through Q2d_nm_c_to_a_b or a hand-built table - drawn sets of 1..6 (n, m), n <= 8 / 12, |m| <= 20, so that azimuthal orders "
        "without a term are empty rows before and between populated ones; compute_z_zprime_Qbfs for n = 0..N): the sag must be Q2d(n, m) / Qbfs(n), and the "
        "returned analytic slopes must be orthonormal among themselves and against the complex-step slopes of Q2d / Qbfs under Forbes' inner product.  "
        "One Forbes term u^m [a cos(m t) + b sin(m t)] Q_n^m(u^2) is also given to both families of compute_z_zprime_Q2d at once - (a, b) = (1, 1), "
        "(.5, .5), (cos, sin) of a drawn angle, (1, -1), (1, 0), (0, 1); through the packer or a hand-built table whose sine rows are equal values in "
        "separate objects, the same row objects, or the very table object given as cosine table -: the sag must be hypot(a, b) Q2d(n, m, u, t - atan2(b, a)/m) "
        "and the returned slopes / hypot(a, b) orthonormal among themselves and against the complex-step slopes of the turned Q2d.  zernike_nm, Q2d, xy "
        "and hopkins are also called with one array object for two coordinate arguments (r and t, x and y, r and H).  "
        "Jacobi parameter pairs (values, Gram matrices, jacobi.weight, jacobi_seq) are also drawn nearly, but not exactly, on every special case that is "
        "defined by an equality: alpha ~ beta, alpha ~ -beta, alpha + beta ~ -1, the four Chebyshev half-integer pairs, (0, 0), (0, m) - one or both parameters "
        "displaced by a relative 1e-12 .. 1e-4 (unchanged code against scipy there: <= 3e-12 up to order 120).  Boolean options (norm= of zernike_nm / "
        "zernike_nm_seq, cartesian_grid= of xy) are given as the object True / False, as a numpy bool (element of a boolean array, result of a comparison of "
        "numpy scalars) and as 1 / 0; the (n, m) terms of Q2d_nm_c_to_a_b ('iterable') also as zip(ns, ms) / a generator expression.  "
        "Every routine of the package that sums polynomials (jacobi_sum_clenshaw and row 0 of jacobi_sum_clenshaw_der, clenshaw_qbfs and row 0 of "
        "clenshaw_qbfs_der, clenshaw_q2d and row 0 of clenshaw_q2d_der, the sags of compute_z_zprime_Qbfs / _Qcon / _Q2d) is also evaluated with the "
        "coefficient of one order set to c - 1, -1, 2.5, 1e-17, 1e30; integer for integer containers - and all others zero (optionally followed by zero "
        "orders): the result must be c times the polynomial of that order, at Python floats / ints, numpy scalars, 0-D ... 3-D arrays (rarely > 2**16 "
        "points) of every dtype and layout the routine accepts, with or without a caller-supplied alphas= workspace (fresh, or used before by a call of "
        "the same shape with other coefficients and points).  Forbes' slope orthonormality is also formed from slopes taken ONE evaluation point per call "
        "(Python float, np.float64, np.float32, 0-D array, length-1 array) through compute_z_zprime_Qbfs / compute_z_zprime_Q2d (m = 0 table only, or the "
        "cosine and sine families of one azimuthal order), node by node of the quadrature rule.  Jacobi parameter pairs include alpha = -beta != 0 "
        "(Chebyshev 3rd / 4th kind and relatives) and alpha = beta as classes of their own.  Orders are also handed over as np.int64 (what an np.arange "
        "loop yields), shape parameters as np.float64 scalars; one case in four makes a request that fails (evaluation points None, exception caught by "
        "the caller) immediately before the checked call.  "
        "History classes shared with C09 (sub-dict v): the float32 evaluation that precedes the checked one is made with single-precision data under the "
        "double-precision configuration, or as the start of a session under prysm.conf.config.precision = 32 (single-precision data, or the very argument objects; "
        "one time in four on cold memo tables, vlib.util.cold_start()): the double-precision answer that follows is also compared at RT / 10 (bucket "
        "...:after-single-precision-session) for every evaluator that runs through memoised tables (recurrence coefficients, f / g / h of Forbes, the change of basis "
        "of list / tuple / ndarray coefficients in the sum evaluators); nothing is asserted about the accuracy of the request made under the single-precision "
        "configuration.  After the checked call the caller edits its coordinate arrays IN PLACE (x -> mid + (x - mid)/2, r *= 1/2, t += 0.375; u^2 kept in step with u) "
        "and calls again with the same array objects - every single-order and sequence evaluator, one- and two-index families, jacobi.weight, the sum evaluators -: "
        "the result must be the polynomial at the values the arrays hold now (...:coordinates-edited-in-place).  "
        "Non-trivial = order >= 6 or non-tabulated shape parameter or scalar / N-D points or a Gram entry with m != n or a non-default presentation "
        "of the arguments.")
ASSUMPTIONS = [
    "scipy.special eval_jacobi/legendre/chebyt/chebyu/hermite/hermitenorm/genlaguerre and roots_jacobi are correct to ~1e-13 "
    "for degree <= 120 (roots_jacobi is cross-checked per case against the exact zeroth moment and rejected otherwise)",
    "Python integer / Fraction arithmetic is exact",
    "float32 input is only required to reproduce the float64 answer to 3e-4 (n + 10) of the largest value, n <= 150 (observed <= 2e-7 (n + 10) on the unchanged code)",
    "complex-step differentiation of the Q value routines (pure arithmetic) gives their slopes to rounding",
    "Forbes' inner products: <f,g> = (2/pi) int_0^1 f g (1-u^2)^-1/2 du for Qbfs slopes, (1/pi^2) int int grad f . grad g "
    "(1-u^2)^-1/2 du dtheta for 2D-Q (oe-18-19-19700, oe-20-3-2483); leading sign (-1)^n follows from positive f_n in their recurrences",
]

RT = 1e-8   # relative to the largest |reference| over the drawn points; observed <= 1e-12 up to n = 200
# after a session that started under the single-precision configuration the double-precision values are compared at RT * SESSION_FACTOR (a remnant of
# single precision in a memoised table is 1e-8 .. 1e-7 of the scale, growing with the order)
SESSION_FACTOR = 1e-1


def gram_assert(ctx, G, want, tol, describe):
    """max |G - want| <= tol, else fail with describe(i, j) -> (bucket, message) for the worst entry"""
    d = np.abs(G - want)
    if not np.all(d <= tol):
        i, j = np.unravel_index(int(np.argmax(np.where(np.isfinite(d), d, np.inf))), d.shape)
        bucket, msg = describe(int(i), int(j))
        ctx.fail(bucket, msg + ': got %.12g, expected %.12g (tol %.1g)' % (G[i, j], want[i, j], tol))
    return float(np.max(d))


# ---- one-variable families against scipy ------------------------------------------------------------
def fam_table():
    from prysm import polynomials as P
    return {
        'jacobi': (P.jacobi, (-1.0, 1.0)), 'legendre': (P.legendre, (-1.0, 1.0)),
        'cheby1': (P.cheby1, (-1.0, 1.0)), 'cheby2': (P.cheby2, (-1.0, 1.0)), 'cheby3': (P.cheby3, (-1.0, 1.0)), 'cheby4': (P.cheby4, (-1.0, 1.0)),
        'hermite_He': (P.hermite_He, (-4.0, 4.0)), 'hermite_H': (P.hermite_H, (-4.0, 4.0)), 'laguerre': (P.laguerre, (0.0, 20.0)),
    }


def ref_value(fam, n, p, x):
    if fam == 'jacobi':
        return sps.eval_jacobi(n, p[0], p[1], x)
    if fam == 'legendre':
        return sps.eval_legendre(n, x)
    if fam == 'cheby1':
        return sps.eval_chebyt(n, x)
    if fam == 'cheby2':
        return sps.eval_chebyu(n, x)
    if fam == 'cheby3':   # V_n = U_n - U_(n-1)
        return sps.eval_chebyu(n, x) - (sps.eval_chebyu(n - 1, x) if n else 0.0)
    if fam == 'cheby4':   # W_n = U_n + U_(n-1)
        return sps.eval_chebyu(n, x) + (sps.eval_chebyu(n - 1, x) if n else 0.0)
    if fam == 'hermite_He':
        return sps.eval_hermitenorm(n, x)
    if fam == 'hermite_H':
        return sps.eval_hermite(n, x)
    if fam == 'laguerre':
        return sps.eval_genlaguerre(n, p[0], x)
    raise ValueError(fam)


def trig_value(fam, n, x):
    th = np.arccos(x)
    return {'cheby1': lambda: np.cos(n * th), 'cheby2': lambda: np.sin((n + 1) * th) / np.sin(th),
            'cheby3': lambda: np.cos((n + 0.5) * th) / np.cos(th / 2), 'cheby4': lambda: np.sin((n + 0.5) * th) / np.sin(th / 2)}[fam]()


# shape parameters nearly, but not exactly, on a special case: NEAR_RELS, NEAR_BASES, CHEBY_PAIRS, near_special_pairs live in c09 (shared)


ab_pairs7 = ab_pairs9       # c09.ab_pairs (tabulated, mirrored, equal, general, on / next to the lines alpha + beta = 0, -1, far ends) and the nearly-special pairs
ab_class7 = ab_class9       # class label of a pair; pairs next to (not on) an equality-defined special case get their own classes


FAMS = ['jacobi', 'jacobi', 'jacobi', 'legendre', 'cheby1', 'cheby2', 'cheby3', 'cheby4', 'hermite_He', 'hermite_H', 'laguerre', 'laguerre']


def fam_params(fam):
    if fam == 'jacobi':
        return ab_pairs7()
    if fam == 'laguerre':
        return st.one_of(st.sampled_from([0, 0.5, 1, 2, -0.5, -0.99, 6.0]), U.nice_float(-0.99, 6.0)).map(lambda a: [a])
    return st.just([])


HIGH_ORDERS = [150, 170, 171, 172, 200, 256, 300, 400, 500]     # still well inside the meaningful range of the recurrences
HIGH_FAMS = ('legendre', 'cheby1', 'cheby2', 'cheby3', 'cheby4')      # families whose scipy / trig references stay accurate there


def strat_values(tier):
    def n_of(fam):
        if fam in HIGH_FAMS:
            return st.one_of(orders(tier), orders(tier), orders(tier), st.sampled_from(HIGH_ORDERS))
        return orders(tier)
    return with_big_shapes(st.sampled_from(FAMS).flatmap(lambda fam: st.fixed_dictionaries({
        'fam': st.just(fam), 'n': n_of(fam), 'p': fam_params(fam), 'shape': point_shapes(), 'edge': st.booleans(), 'seed': U.seeds, 'v': variants()})))


def check_values(case, ctx):
    """jacobi / legendre / cheby1-4 / hermite_He / hermite_H / laguerre (n, ..., x) == scipy.special (and closed trig forms), shape of x kept,
    for every presentation of x (dtype, layout, scalar kind), with the arguments left unchanged and the results independent of each other."""
    fam, n, p, shape = case['fam'], case['n'], case['p'], case['shape']
    fn, (lo, hi) = fam_table()[fam]
    v = settle_kind(var_of(case), fam, n)
    x, base = make_points(case['seed'], shape, lo, hi, case['edge'], kind=v['xkind'])
    xarg = present(x, shape, v)
    ctx.label(fam, n_class(n), shape_label(shape), 'edge' if case['edge'] else 'interior', 'size>2^16' if size_of(shape) > 65536 else 'size<=2^16')
    if fam == 'jacobi':
        ctx.label(ab_class7(*p))
    ctx.label('n-as:' + v['n_as'])
    if p:
        ctx.label('params-as:' + v['p_as'])
    nt = var_labels(ctx, v, shape)
    ctx.nt(nt or n >= 6 or isinstance(shape, str) or len(shape) != 1 or (fam == 'jacobi' and ab_class(*p) != 'ab:tabulated') or
           (fam == 'laguerre' and p[0] not in (0, 0.5, 1)) or v['n_as'] != 'int' or (p and v['p_as'] != 'python'))
    narg, parg = order_as(n, v), params_as(p, v)       # what is handed over; n and p stay the plain numbers the reference is built from
    if v['pre32']:
        with single_session(ctx, v):
            g32 = call(ctx, 'float32', fn, n, *p, single(v, xarg))
        U.check_shape(g32, shape_tuple(shape), fam + ':float32', '%s(%d, %s, float32 x)' % (fam, n, p))
    want_full = ref_value(fam, n, p, base)
    scale = float(np.max(np.abs(want_full)))
    want = shaped(want_full, shape)
    bucket = '%s:%s' % (fam, n_class(n))
    rt = rtol_of(v, n, RT)
    what = '%s(n=%d, params=%s, x: %s %s) vs scipy.special' % (fam, n, p, v['xkind'], shape_label(shape))

    def verify(got, bucket, want=want):
        U.check_shape(got, np.shape(want), bucket, '%s(%d, %s, x) for x of shape %s' % (fam, n, p, shape))
        U.check_close(got, want, rt, bucket, what, atol=rt * scale)
    prefail(ctx, v, fn, narg, *parg, None)
    got = call(ctx, n_class(n), fn, narg, *parg, xarg)
    verify(got, bucket)
    session_close(ctx, v, got, want, rt, bucket, what, scale, factor=SESSION_FACTOR)
    n2 = n + 1 if not (fam in HERMITES and v['xkind'] == 'int' and n + 1 > 15) else n - 1
    reuse_check(ctx, v, bucket, got, (xarg,), lambda: ctx.call(fn, n2, *p, xarg), lambda: ctx.call(fn, narg, *parg, xarg), verify)
    if fam in ('cheby1', 'cheby2', 'cheby3', 'cheby4'):
        inner = base[np.abs(base) <= 0.95]
        if inner.size:
            g = ctx.call(fn, n, inner)
            t = trig_value(fam, n, inner)
            U.check_close(g, t, RT, bucket + ':trig', '%s(n=%d) vs closed trigonometric form' % (fam, n), atol=RT * max(1.0, float(np.max(np.abs(t)))))   # natural scale of T, U, V, W: >= 1
        # normalisation at the end points, exactly as the definitions fix it
        one = {'cheby1': 1.0, 'cheby2': n + 1.0, 'cheby3': 1.0, 'cheby4': 2 * n + 1.0}[fam]
        mone = {'cheby1': (-1.0) ** n, 'cheby2': (-1.0) ** n * (n + 1), 'cheby3': (-1.0) ** n * (2 * n + 1), 'cheby4': (-1.0) ** n}[fam]
        ends = ctx.call(fn, n, np.array([1.0, -1.0]))
        U.check_close(ends, np.array([one, mone]), 1e-9, bucket + ':endpoints', '%s(n=%d) at x=+1,-1' % (fam, n))
    edit_check(ctx, v, bucket, [(xarg, lo, hi, False)], lambda: ctx.call(fn, narg, *parg, xarg), lambda g, b_: verify(g, b_, want=ref_value(fam, n, p, now64(xarg))))


# ---- Dickson ---------------------------------------------------------------------------------------
def dickson_exact(kind, n, a, x):
    """closed sums in exact rational arithmetic: D_n = sum n/(n-i) C(n-i,i) (-a)^i x^(n-2i), E_n = sum C(n-i,i) (-a)^i x^(n-2i)"""
    a = Fraction(a)
    out = []
    for xv in np.ravel(x):
        X = Fraction(float(xv))
        if n == 0:
            out.append(2.0 if kind == 1 else 1.0)
            continue
        tot = Fraction(0)
        for i in range(n // 2 + 1):
            c = math.comb(n - i, i)
            if kind == 1:
                c = Fraction(n * c, n - i)
            tot += c * (-a) ** i * X ** (n - 2 * i)
        out.append(float(tot))
    return np.array(out)


def strat_dickson(tier):
    N = {'quick': 40, 'thorough': 80}[tier]
    return st.fixed_dictionaries({
        'kind': st.sampled_from([1, 2]), 'n': st.one_of(st.sampled_from([0, 1, 2, 3]), st.integers(0, N)),     # the exact rational oracle costs O(n^2) big-number operations per point
        'a': st.one_of(st.sampled_from([-1, 0, 1, 2, -2, 0.5]), U.nice_float(-3.0, 3.0), st.sampled_from([-3.0, 3.0, 1e-300, -1e-12])),
        'shape': point_shapes(), 'edge': st.booleans(), 'seed': U.seeds, 'v': variants(),
        # the lowest orders together with the special parameter value (alpha = 0: monomials, but D_0 = 2 for the first kind) are drawn as pairs
        'special': st.one_of(st.none(), st.none(), st.none(), st.sampled_from([[0, 0], [1, 0], [2, 0], [0, 1], [0, -1], [0, 0.0], [3, 0]])),
    }).map(lambda c: dict(c, n=c['special'][0], a=c['special'][1]) if c.get('special') else c)


def check_dickson(case, ctx):
    """dickson1 / dickson2 == closed sums (exact rational arithmetic) and D_n(u + a/u, a) == u^n + (a/u)^n."""
    from prysm.polynomials import dickson1, dickson2
    kind, n, a, shape = case['kind'], case['n'], case['a'], case['shape']
    fn = dickson1 if kind == 1 else dickson2
    v = var_of(case)
    # integer points and an integer alpha make the unchanged recurrence run in integer arithmetic: exact below 2^63 (n <= 20 on
    # [-3,3] with |alpha| <= 3, 64-bit only); float32 values leave the single-precision range beyond n ~ 60
    if (v['xkind'] == 'int' and n > 20) or (v['xkind'] == 'f32' and n > 60):
        v['xkind'] = 'f64'
    v['itype'] = 'int64'
    x, base = make_points(case['seed'], shape, -3.0, 3.0, case['edge'], edges=(0.0, 3.0), kind=v['xkind'])
    xarg = present(x, shape, v)
    ctx.label('dickson%d' % kind, n_class(n), shape_label(shape), 'a=0' if a == 0 else 'a<0' if a < 0 else 'a>0')
    nt = var_labels(ctx, v, shape)
    ctx.nt(nt or n >= 6 or a not in (-1, 0, 1) or isinstance(shape, str) or len(shape) != 1)
    if v['pre32']:
        with single_session(ctx, v):
            call(ctx, 'float32', fn, n, a, single(v, xarg))
    want_full = dickson_exact(kind, n, a, base)
    want = shaped(want_full, shape)
    bucket = 'dickson%d:%s' % (kind, n_class(n))
    rt = rtol_of(v, n, RT)

    def verify(got, bucket, want=want):
        U.check_shape(got, np.shape(want), bucket, 'dickson%d(%d, %r, x) for x of shape %s' % (kind, n, a, shape))
        U.check_close(got, want, rt, bucket, 'dickson%d(n=%d, alpha=%r, x: %s %s) vs exact closed sum' % (kind, n, a, v['xkind'], shape_label(shape)),
                      atol=rt * float(np.max(np.abs(want_full))))
    got = call(ctx, n_class(n), fn, n, a, xarg)
    verify(got, bucket)
    reuse_check(ctx, v, bucket, got, (xarg,), lambda: ctx.call(fn, n + 1 if n < 20 else n - 1, a, xarg), lambda: ctx.call(fn, n, a, xarg), verify)
    edit_check(ctx, v, bucket, [(xarg, -3.0, 3.0, False)], lambda: ctx.call(fn, n, a, xarg),
               lambda g, b_: verify(g, b_, want=dickson_exact(kind, n, a, now64(xarg)).reshape(np.shape(xarg))))
    if kind == 1:
        r = U.rng_of(case['seed'], 9)
        u = r.uniform(0.5, 2.0, 8) * r.choice([-1.0, 1.0], 8)
        lhs = ctx.call(dickson1, n, a, u + a / u)
        rhs = u ** n + (a / u) ** n
        U.check_close(lhs, rhs, RT, bucket + ':identity', 'D_n(u + a/u, a) = u^n + (a/u)^n, n=%d, a=%r' % (n, a), atol=RT * float(np.max(np.abs(rhs))))


# one object given for two coordinate arguments (r and t, x and y, r and H): the second then holds the values of the first
ALIAS = st.sampled_from([False, False, False, False, True])


# ---- XY monomials and Hopkins -------------------------------------------------------------------------
def strat_xy(tier):
    e = st.one_of(st.sampled_from([0, 0, 1, 2]), st.integers(0, 12))
    s = st.integers(1, 6)
    return st.fixed_dictionaries({
        'fn': st.sampled_from(['xy', 'xy', 'hopkins']), 'm': e, 'n': e, 'a': st.one_of(st.integers(-6, 6), st.sampled_from([-40, 40])), 'b': e, 'c': e,
        'grid': st.sampled_from(['mesh', 'mesh', 'free']), 'gshape': st.tuples(s, s).map(list), 'shape': point_shapes(), 'seed': U.seeds,
        'v': variants(('f64', 'f32', 'int')),
        # a coordinate that is exactly zero everywhere: the on-axis field point H = 0 (H^0 = 1), the pupil centre r = 0, the meridian t = 0
        'zero': st.sampled_from(['none', 'none', 'none', 'H', 'H', 'r', 't']), 'alias': ALIAS,
        # cartesian_grid= as the object True / False (True: left at its default), a numpy bool, 1 / 0
        'cart_as': st.sampled_from(FLAG_KINDS)})


def ipow(x, k):
    out = np.ones_like(np.asarray(x, dtype=float))
    for _ in range(k):
        out = out * x
    return out


def check_xy(case, ctx):
    """xy(m, n, x, y) == x^m y^n (meshgrid with cartesian_grid=True, any shape with False); hopkins(a,b,c,r,t,H) == cos/sin(|a| t) r^b H^c."""
    from prysm.polynomials import xy, hopkins
    r = U.rng_of(case['seed'], 1)
    v = var_of(case, ('f64', 'f32', 'int'))
    if v['itype'] in ('int8', 'int16'):
        v['itype'] = 'int32'       # 2^24 must fit: integer points are raised to integer powers in integer arithmetic
    kind = v['xkind']
    rt = rtol_of(v, 24, 1e-12)
    if case['fn'] == 'xy':
        m, n, grid = case['m'], case['n'], case['grid']
        ctx.label('xy', 'grid:' + grid, 'zero-exponent' if 0 in (m, n) else 'exponents>0')
        if grid == 'mesh':
            ny, nx = case['gshape']
            shape = [ny, nx]
            xv, yv = r.uniform(-2, 2, nx), r.uniform(-2, 2, ny)
            if kind == 'int':
                xv, yv = np.trunc(xv), np.trunc(yv)
            if kind == 'f32':
                xv, yv = xv.astype(np.float32).astype(float), yv.astype(np.float32).astype(float)
            x, y = np.meshgrid(xv, yv)
            ctx.label('square' if ny == nx else 'non-square')
            kw = {}
        else:
            shape = case['shape']
            ctx.label(shape_label(shape))
            x, _ = make_points(case['seed'], shape, -2.0, 2.0, False, salt=1, kind=kind)
            y, _ = make_points(case['seed'], shape, -2.0, 2.0, False, salt=2, kind=kind)
            kw = {'cartesian_grid': False}
        cart_as = case.get('cart_as', 'bool')
        if cart_as != 'bool':
            kw = {'cartesian_grid': flag_as(grid == 'mesh', cart_as)}
        alias = bool(case.get('alias', False)) and grid == 'free'
        if alias:
            y = x
        ctx.label('x-is-y' if alias else 'x-and-y-separate', 'cartesian_grid-as:' + cart_as)
        nt = var_labels(ctx, v, shape)
        ctx.nt(nt or m + n >= 6 or 0 in (m, n) or grid == 'free' or case.get('cart_as', 'bool') != 'bool')
        xarg = present(x, shape, v)
        yarg = xarg if alias else present(y, shape, v, layout=v['layout2'])
        want = ipow(x, m) * ipow(y, n)

        def verify(got, bucket, want=want):
            U.check_shape(got, np.shape(want), bucket, 'xy(%d,%d) %s' % (m, n, grid))
            U.check_close(got, want, rt, bucket, 'xy(m=%d, n=%d, x: %s) vs x^m y^n' % (m, n, kind))
        if v['pre32']:
            with single_session(ctx, v):
                x32 = single(v, xarg)
                call(ctx, 'float32', xy, m, n, x32, x32 if alias else single(v, yarg), **kw)
        got = call(ctx, grid + (':x-is-y' if alias else ''), xy, m, n, xarg, yarg, **kw)
        verify(got, ('xy:x-is-y' if alias else 'xy') + ('' if cart_as == 'bool' else ':cartesian_grid-given-as-' + cart_as))
        reuse_check(ctx, v, 'xy', got, (xarg, yarg), lambda: ctx.call(xy, n + 1, m, xarg, yarg, **kw), lambda: ctx.call(xy, m, n, xarg, yarg, **kw), verify)
        edit_check(ctx, v, 'xy', [(xarg, -2.0, 2.0, False), (yarg, -2.0, 2.0, False)], lambda: ctx.call(xy, m, n, xarg, yarg, **kw),
                   lambda g, b_: verify(g, b_, want=ipow(now64(xarg), m) * ipow(now64(yarg), n)))
    else:
        a, b, c, shape = case['a'], case['b'], case['c'], case['shape']
        ctx.label('hopkins', 'a<0' if a < 0 else 'a=0' if a == 0 else 'a>0', shape_label(shape), '|a|>6' if abs(a) > 6 else '|a|<=6')
        var_labels(ctx, v, shape)
        ctx.nt(True)
        rr, _ = make_points(case['seed'], shape, 0.0, 1.0, True, salt=1, kind=kind)
        t, _ = make_points(case['seed'], shape, -math.pi, 2 * math.pi, False, salt=2, kind='f32' if kind == 'f32' else 'f64')
        Hh, _ = make_points(case['seed'], shape, -1.0, 1.0, False, salt=3, kind=kind)
        zero = case.get('zero', 'none')
        if zero == 'H':
            Hh = Hh * 0
        elif zero == 'r':
            rr = rr * 0
        elif zero == 't':
            t = t * 0
        alias = bool(case.get('alias', False)) and zero != 'H'
        if alias:
            Hh = rr             # the field coordinate is the very object given as pupil radius
        ctx.label('all-zero:' + zero, 'r-is-H' if alias else 'r-and-H-separate')
        rarg = present(rr, shape, v)
        targ = present(t, shape, v, layout=v['layout2'], kind='f32' if kind == 'f32' else 'f64')
        harg = rarg if alias else present(Hh, shape, v)
        az = np.sin(abs(a) * np.asarray(t)) if a < 0 else np.cos(a * np.asarray(t))
        want = az * ipow(rr, b) * ipow(Hh, c)
        rth = max(rt, 1e-5 * (1 + abs(a))) if kind == 'f32' else rt      # float32 angle: |a| * eps32 * |t| in the argument of cos / sin

        def verify(got, bucket, want=want):
            U.check_shape(got, np.shape(want), bucket, 'hopkins(%d,%d,%d)' % (a, b, c))
            U.check_close(got, want, rth, bucket, 'hopkins(a=%d, b=%d, c=%d, r: %s) vs cos/sin(|a| t) r^b H^c' % (a, b, c, kind), atol=1e-15 if kind != 'f32' else rth)
        if v['pre32']:
            with single_session(ctx, v):
                r32 = single(v, rarg)
                call(ctx, 'float32', hopkins, a, b, c, r32, single(v, targ), r32 if alias else single(v, harg))
        got = call(ctx, ('a<0' if a < 0 else 'a>=0') + (':r-is-H' if alias else ''), hopkins, a, b, c, rarg, targ, harg)
        verify(got, 'hopkins:r-is-H' if alias else 'hopkins')
        reuse_check(ctx, v, 'hopkins', got, (rarg, targ, harg), lambda: ctx.call(hopkins, -a, c, b + 1, rarg, targ, harg),
                    lambda: ctx.call(hopkins, a, b, c, rarg, targ, harg), verify)

        def want_now():
            tn = now64(targ)
            return (np.sin(abs(a) * tn) if a < 0 else np.cos(a * tn)) * ipow(now64(rarg), b) * ipow(now64(harg), c)
        edit_check(ctx, v, 'hopkins', [(rarg, 0.0, 1.0, False), (targ, -math.pi, 2 * math.pi, True), (harg, -1.0, 1.0, False)],
                   lambda: ctx.call(hopkins, a, b, c, rarg, targ, harg), lambda g, b_: verify(g, b_, want=want_now()))


# a boolean option as callers actually hold it: the object True / False, a numpy bool (an element of a boolean array, the result of a
# comparison of numpy scalars), or 1 / 0.  Truthy is truthy: every routine documents 'bool' and tests the truth value.
FLAG_KINDS = ['bool', 'bool', 'bool', 'np.bool_', 'comparison', 'int']


def flag_as(value, how):
    value = bool(value)
    if how == 'np.bool_':
        return np.array([True, False])[0 if value else 1]
    if how == 'comparison':
        return np.float64(1.0) > 0 if value else np.float64(1.0) < 0
    if how == 'int':
        return 1 if value else 0
    return value


# ---- Zernike -------------------------------------------------------------------------------------------
def zernike_radial_exact(n, am, r):
    """R_n^|m|(r) = sum_k (-1)^k (n-k)! / (k! ((n+|m|)/2-k)! ((n-|m|)/2-k)!) r^(n-2k), exact rational arithmetic"""
    f = math.factorial
    out = []
    for rv in np.ravel(r):
        R = Fraction(float(rv))
        tot = Fraction(0)
        for k in range((n - am) // 2 + 1):
            c = Fraction((-1) ** k * f(n - k), f(k) * f((n + am) // 2 - k) * f((n - am) // 2 - k))
            tot += c * R ** (n - 2 * k)
        out.append(float(tot))
    return np.array(out)


def nm_pairs(nmax):
    return st.one_of(st.integers(0, nmax), st.integers(0, 8)).flatmap(lambda n: st.integers(0, n).map(lambda k: [n, -n + 2 * k]))


ZERNIKE_HIGH = [80, 100, 120]      # unchanged code: <= 1e-14 against the exact sum up to n = 200; the exact oracle costs O(n^2) big-number operations


def strat_zernike(tier):
    nmax = {'quick': 30, 'thorough': 60}[tier]
    nm = st.one_of(nm_pairs_ext(nmax), nm_pairs_ext(nmax), nm_pairs_ext(nmax), nm_pairs_ext(nmax, ZERNIKE_HIGH))   # incl. the extremes m = +-n, 0 / +-1
    return st.fixed_dictionaries({'nm': nm, 'norm': st.booleans(), 'shape': point_shapes(), 'edge': st.booleans(), 'seed': U.seeds,
                                  'v': variants(('f64', 'f32', 'int')), 'alias': ALIAS, 'norm_as': st.sampled_from(FLAG_KINDS)})


def check_zernike(case, ctx):
    """zernike_nm(n, m, r, t, norm) == N_nm R_n^|m|(r) cos(m t) | sin(|m| t), R from the explicit factorial sum, N = sqrt(2(n+1)/(1+delta_m0))."""
    from prysm.polynomials import zernike_nm, zernike_norm
    (n, m), norm, shape = case['nm'], case['norm'], case['shape']
    norm_as = case.get('norm_as', 'bool')
    narg = flag_as(norm, norm_as)          # what is handed over as norm=; `norm` stays the plain bool the reference is built from
    am = abs(m)
    v = var_of(case, ('f64', 'f32', 'int'))
    # integer-typed radii are accepted by the unchanged zernike_nm only when the radial Jacobi order (n-|m|)/2 is >= 1 (order 0
    # scales an integer array by a float in place); |m| itself must fit the integer type; float32 range: see C09
    if v['xkind'] == 'int' and (n - am) // 2 == 0:
        v['xkind'] = 'f64'
    if n > 100:
        v['itype'] = 'int64'
        if v['xkind'] == 'f32':
            v['xkind'] = 'f64'
    if case.get('alias', False) and v['xkind'] == 'int':
        v['xkind'] = 'f64'          # the azimuth is never integer-typed (cos of an int8 array is half precision in numpy)
    kind = v['xkind']
    r, rbase = make_points(case['seed'], shape, 0.0, 1.0, case['edge'], salt=1, kind=kind)
    t, tbase = make_points(case['seed'], shape, -math.pi, 2 * math.pi, False, salt=2, kind='f32' if kind == 'f32' else 'f64')
    rarg = present(r, shape, v)
    targ = present(t, shape, v, layout=v['layout2'], kind='f32' if kind == 'f32' else 'f64')
    alias = bool(case.get('alias', False))
    if alias:
        t, tbase, targ = r, rbase, rarg
    ctx.label(n_class(n), 'm=0' if m == 0 else 'm<0' if m < 0 else 'm>0', 'norm' if norm else 'no-norm', shape_label(shape),
              'edge' if case['edge'] else 'interior', 'm=+-n' if am == n and n else 'm-inner', 'r-is-t' if alias else 'r-and-t-separate',
              'norm-as:' + norm_as)
    nt = var_labels(ctx, v, shape)
    ctx.nt(nt or n >= 6 or isinstance(shape, str) or len(shape) != 1 or alias or norm_as != 'bool')
    if v['pre32']:
        with single_session(ctx, v):
            r32 = single(v, rarg)
            call(ctx, 'float32', zernike_nm, n, m, r32, r32 if alias else single(v, targ), norm=norm)
    az = np.ones_like(tbase) if m == 0 else np.sin(am * tbase) if m < 0 else np.cos(m * tbase)
    N = math.sqrt(2 * (n + 1) / (2 if m == 0 else 1)) if norm else 1.0
    want_full = N * zernike_radial_exact(n, am, rbase) * az
    want = shaped(want_full, shape)
    bucket = 'zernike_nm:%s%s%s' % ('m=0' if m == 0 else 'm!=0', ':r-is-t' if alias else '', '' if norm_as == 'bool' else ':norm-given-as-' + norm_as)
    rt = rtol_of(v, n, RT)

    what = 'zernike_nm(n=%d, m=%d, norm=%r, r: %s %s) vs explicit radial sum' % (n, m, narg, kind, shape_label(shape))

    def verify(got, bucket, want=want):
        U.check_shape(got, np.shape(want), bucket, 'zernike_nm(%d,%d) for r of shape %s' % (n, m, shape))
        U.check_close(got, want, rt, bucket, what, atol=rt * N)
    ctx.label('n-as:' + v['n_as'])
    prefail(ctx, v, zernike_nm, n, m, None, None, norm=narg)
    got = call(ctx, 'm=0' if m == 0 else 'm!=0', zernike_nm, order_as(n, v), order_as(m, v), rarg, targ, norm=narg)
    verify(got, bucket)
    session_close(ctx, v, got, want, rt, bucket, what, N, factor=SESSION_FACTOR)
    reuse_check(ctx, v, bucket, got, (rarg, targ), lambda: ctx.call(zernike_nm, n + 2, m, rarg, targ, norm=flag_as(not norm, norm_as)),
                lambda: ctx.call(zernike_nm, n, m, rarg, targ, norm=narg), verify)

    def want_now():
        rn, tn = now64(rarg), now64(targ)
        azn = np.ones_like(tn) if m == 0 else np.sin(am * tn) if m < 0 else np.cos(m * tn)
        return N * zernike_radial_exact(n, am, rn).reshape(rn.shape) * azn
    edit_check(ctx, v, bucket, [(rarg, 0.0, 1.0, False), (targ, -math.pi, 2 * math.pi, not alias)], lambda: ctx.call(zernike_nm, n, m, rarg, targ, norm=narg),
               lambda g, b_: verify(g, b_, want=want_now()))
    zn = ctx.call(zernike_norm, n, m)
    ctx.require(abs(zn - math.sqrt(2 * (n + 1) / (2 if m == 0 else 1))) <= 1e-12 * zn, 'zernike_norm',
                'zernike_norm(%d,%d) = %r' % (n, m, zn))


def disk_quadrature(nmax, mmax):
    """Gauss-Legendre in s = r^2 on [0,1] times uniform theta; exact for products of two Zernikes of order <= nmax: returns r, t (2-D), w with sum(w)=1"""
    K = nmax // 2 + 2
    T = 2 * mmax + 3
    xs, ws = np.polynomial.legendre.leggauss(K)
    s = (xs + 1) / 2
    ws = ws / 2
    th = 2 * np.pi * np.arange(T) / T
    R, TH = np.meshgrid(np.sqrt(s), th, indexing='ij')
    W = np.repeat(ws[:, None], T, axis=1) / T
    return R, TH, W


def zernike_gram_check(ctx, nms, norm, bucket, layout='C'):
    from prysm.polynomials import zernike_nm
    nmax = max(n for n, _ in nms)
    mmax = max(abs(m) for _, m in nms)
    R, TH, W = disk_quadrature(nmax, mmax)
    R, TH = U.relayout(R, layout), U.relayout(TH, layout)       # same nodes, another memory layout of the two grids
    Z = np.array([np.asarray(call(ctx, 'gram', zernike_nm, n, m, R, TH, norm=norm)).ravel() for n, m in nms])
    G = (Z * W.ravel()) @ Z.T
    want = np.diag([1.0 if norm else (2 if m == 0 else 1) / (2 * (n + 1)) for n, m in nms])

    def describe(i, j):
        which = 'rms' if i == j else 'same-m' if nms[i][1] == nms[j][1] else 'same-|m|' if abs(nms[i][1]) == abs(nms[j][1]) else 'different-m'
        return '%s:%s' % (bucket, which), 'disk mean of Z%s * Z%s (norm=%s)' % (tuple(nms[i]), tuple(nms[j]), norm)
    return gram_assert(ctx, G, want, 1e-9, describe)


def strat_zernike_gram(tier):
    nmax = {'quick': 24, 'thorough': 60}[tier]
    def same_m(t):   # a radial family: same m, several n (the non-trivial orthogonality)
        m, n0, k = t
        return [[abs(m) + 2 * (n0 + i), m] for i in range(k)]
    fam = st.tuples(st.integers(-10, 10), st.integers(0, 4), st.integers(2, 5)).map(same_m)
    free = st.lists(nm_pairs(nmax), min_size=2, max_size=12)
    return st.fixed_dictionaries({'nms': st.tuples(fam, free).map(lambda t: t[0] + t[1]), 'norm': st.sampled_from([True, True, False]), 'layout': U.layouts})


def check_zernike_gram(case, ctx):
    """disk mean of Z_j Z_k == delta_jk (unit RMS, orthogonal) for drawn mode subsets containing a same-m radial family; exact quadrature."""
    nms = []
    for e in case['nms']:
        if list(e) not in nms:
            nms.append(list(e))
    ctx.nt(True)
    ctx.label('norm' if case['norm'] else 'no-norm', 'modes=%d' % (len(nms) // 4 * 4), 'layout:' + case.get('layout', 'C'))
    ctx.tally('gram_entries', len(nms) ** 2)
    zernike_gram_check(ctx, nms, case['norm'], 'zernike_gram', case.get('layout', 'C'))


def enum_zernike_complete(tier):
    for i, N in enumerate({'quick': [3, 6, 10, 14], 'thorough': [3, 6, 10, 14, 20, 28, 36, 44]}[tier]):
        yield {'N': N, 'norm': True, 'layout': U.LAYOUTS[1:][i % 4]}
    yield {'N': 8, 'norm': False, 'layout': 'strided'}


def check_zernike_complete(case, ctx):
    """the complete set of all (n,m), n <= N, is orthonormal over the unit disk."""
    N = case['N']
    nms = [[n, m] for n in range(N + 1) for m in range(-n, n + 1, 2)]
    ctx.nt(True)
    ctx.tally('gram_entries', len(nms) ** 2)
    zernike_gram_check(ctx, nms, case['norm'], 'zernike_gram', case.get('layout', 'C'))


# ---- Jacobi family orthogonality -------------------------------------------------------------------------
def jacobi_h(n, a, b):
    """textbook squared norm of P_n^(a,b) under (1-x)^a (1+x)^b (DLMF 18.3.1)"""
    if n == 0:
        return math.exp((a + b + 1) * math.log(2) + math.lgamma(a + 1) + math.lgamma(b + 1) - math.lgamma(a + b + 2))
    return math.exp((a + b + 1) * math.log(2) - math.log(2 * n + a + b + 1) + math.lgamma(n + a + 1) + math.lgamma(n + b + 1)
                    - math.lgamma(n + a + b + 1) - math.lgamma(n + 1))


GRAM_FAMS = {'legendre': (0.0, 0.0), 'cheby1': (-0.5, -0.5), 'cheby2': (0.5, 0.5), 'cheby3': (-0.5, 0.5), 'cheby4': (0.5, -0.5)}


def family_h(fam, n, a, b):
    if fam == 'jacobi':
        return jacobi_h(n, a, b)
    if fam == 'legendre':
        return 2.0 / (2 * n + 1)
    if fam == 'cheby1':
        return math.pi if n == 0 else math.pi / 2
    if fam == 'cheby2':
        return math.pi / 2
    return math.pi   # cheby3, cheby4


def strat_jacobi_gram(tier):
    N = {'quick': 40, 'thorough': 120}[tier]
    fam = st.sampled_from(['jacobi', 'jacobi', 'jacobi', 'legendre', 'cheby1', 'cheby2', 'cheby3', 'cheby4'])
    return fam.flatmap(lambda f: st.fixed_dictionaries({
        'fam': st.just(f), 'p': ab_pairs7() if f == 'jacobi' else st.just([]), 'N': st.one_of(st.integers(1, N), st.integers(1, 12)),
        'layout': st.sampled_from(['C', 'strided', 'column'])}))


def check_jacobi_gram(case, ctx):
    """int (1-x)^a (1+x)^b P_m P_n dx == h_n delta_mn for all m,n <= N (Gauss-Jacobi with N+1 nodes, exact), textbook h_n."""
    fam, p, N = case['fam'], case['p'], case['N']
    fn = fam_table()[fam][0]
    a, b = p if fam == 'jacobi' else GRAM_FAMS[fam]
    if min(a, b) < -0.9:
        # the Gauss-Jacobi rule itself (scipy) loses accuracy for an exponent near -1 at high degree (observed 6e-9 at N=120,
        # 6e-10 at N=40 for -0.99): keep the oracle 100x more accurate than the tolerance
        N = min(N, 40)
    ctx.label(fam, 'N<=12' if N <= 12 else 'N<=40' if N <= 40 else 'N>40')
    if fam == 'jacobi':
        ctx.label(ab_class7(a, b))
    ctx.nt(True)
    ctx.tally('gram_entries', (N + 1) ** 2)
    xg, wg = sps.roots_jacobi(N + 1, a, b)
    mu0 = jacobi_h(0, a, b)
    if not (np.all(np.isfinite(xg)) and np.all(np.isfinite(wg)) and abs(float(np.sum(wg)) - mu0) <= 1e-11 * mu0):
        ctx.exclude('scipy roots_jacobi does not reproduce the zeroth moment to 1e-11')
    # the rule must be good for more than the zeroth moment: scipy's own Jacobi polynomials at scipy's nodes have to be orthonormal to 1e-9
    # (100x below the tolerance).  For nearly-symmetric exponents next to -1/2 and an odd node count roots_jacobi is only good to ~1e-7
    # (found by a background sweep: a = b = -0.5000005, 51 nodes, scipy's and prysm's polynomials off by the same 3.5e-7)
    Vs = np.array([sps.eval_jacobi(n, a, b, xg) for n in range(N + 1)])
    hs = np.array([jacobi_h(n, a, b) for n in range(N + 1)])
    if float(np.abs(((Vs * wg) @ Vs.T) / np.sqrt(np.outer(hs, hs)) - np.eye(N + 1)).max()) > 1e-9:
        ctx.exclude('scipy roots_jacobi rule is not exact for scipy\'s own polynomials to 1e-9')
    lay = case.get('layout', 'C')
    ctx.label('nodes:' + lay)
    xarg = U.relayout(xg, 'strided') if lay == 'strided' else xg[:, None] if lay == 'column' else xg       # the same nodes as a strided view / an (N+1, 1) column
    rows = []
    for n in range(N + 1):
        g = np.asarray(call(ctx, 'gram', fn, n, *p, xarg))
        U.check_shape(g, np.shape(xarg), '%s_gram' % fam, '%s(%d, ..., nodes as %s)' % (fam, n, lay))
        rows.append(g.reshape(xg.shape))
    V = np.array(rows)
    G = (V * wg) @ V.T
    h = np.array([family_h(fam, n, a, b) for n in range(N + 1)])
    Gn = G / np.sqrt(np.outer(h, h))
    gram_assert(ctx, Gn, np.eye(N + 1), 1e-7, lambda i, j: (
        '%s_gram:%s' % (fam, 'norm' if i == j else 'orthogonality'), '<%s_%d, %s_%d> / sqrt(h_%d h_%d) (a=%r, b=%r)' % (fam, i, fam, j, i, j, a, b)))
    # ... and under the library's own weight function: the Gauss-Jacobi weights carry (1-x)^a (1+x)^b, so replacing that factor by
    # prysm.polynomials.jacobi.weight(a, b, x) at the nodes (all inside the open interval) must leave the Gram matrix where it is
    from prysm.polynomials.jacobi import weight
    wp = np.asarray(call(ctx, 'gram', weight, a, b, xarg))
    U.check_shape(wp, np.shape(xarg), 'jacobi.weight', 'weight(%r, %r, nodes as %s)' % (a, b, lay))
    wq = wg * wp.reshape(xg.shape) / weight_ref(a, b, xg)
    ctx.label('own-weight:' + ('symmetric' if a == b else 'asymmetric'))
    Gw = ((V * wq) @ V.T) / np.sqrt(np.outer(h, h))
    gram_assert(ctx, Gw, np.eye(N + 1), 1e-7, lambda i, j: (
        '%s_gram:under-jacobi.weight:%s:%s' % (fam, 'alpha=beta' if a == b else 'alpha!=beta', 'norm' if i == j else 'orthogonality'),
        'int weight(%r, %r, x) %s_%d %s_%d dx / sqrt(h_%d h_%d), the weight taken from prysm.polynomials.jacobi.weight' % (a, b, fam, i, fam, j, i, j)))


def weight_ref(a, b, x):
    """(1-x)^a (1+x)^b in double precision"""
    x = np.asarray(x, dtype=float)
    return np.power(1.0 - x, float(a)) * np.power(1.0 + x, float(b))


def strat_weight(tier):
    return st.fixed_dictionaries({'p': ab_pairs7(), 'p_as': st.sampled_from(['python', 'python', 'np64', '0-d']), 'shape': point_shapes(), 'edge': st.booleans(),
                                  'seed': U.seeds, 'v': variants()})


def check_weight(case, ctx):
    """jacobi.weight(alpha, beta, x) == (1-x)^alpha (1+x)^beta, the weight the Jacobi family is orthogonal under (DLMF 18.3.1), point by point,
    for symmetric and asymmetric (alpha, beta), whatever the presentation of x and of the two parameters."""
    from prysm.polynomials.jacobi import weight
    (a, b), shape = case['p'], case['shape']
    v = var_of(case)
    if v['xkind'] == 'int' and min(a, b) < 0:
        v['xkind'] = 'f64'           # the integers of [-1, 1] include the end points, where a negative exponent has a pole
    edge = case['edge'] and min(a, b) >= 0
    if any(0 < e < 1e-30 for e in (a, b)):
        # 0**e jumps from 1 (e = 0) to 0 (e > 0): at an end point an exponent below the smallest float32 is 0 for a single-precision evaluation and
        # positive for a double-precision one; both answers are right for their precision, so the end points are left out (found by a background sweep)
        edge = False
    x, base = make_points(case['seed'], shape, -1.0, 1.0, edge, kind=v['xkind'])
    if min(a, b) < 0:      # float32 rounding never lands on a pole
        x = float(np.clip(x, -1 + 2.0 ** -20, 1 - 2.0 ** -20)) if isinstance(x, float) else np.clip(x, -1 + 2.0 ** -20, 1 - 2.0 ** -20)
    xarg = present(x, shape, v)
    how = case.get('p_as', 'python')
    conv = {'python': lambda q: q, 'np64': np.float64, '0-d': lambda q: np.array(float(q))}[how]
    aarg, barg = conv(a), conv(b)
    sym = 'alpha=beta' if a == b else 'alpha!=beta'
    ctx.label(sym, ab_class7(a, b), shape_label(shape), 'edge' if edge else 'interior', 'params-as:' + how,
              'negative-exponent' if min(a, b) < 0 else 'exponents>=0')
    var_labels(ctx, v, shape)
    ctx.nt(True)
    if v['pre32']:
        with single_session(ctx, v):
            call(ctx, 'float32', weight, aarg, barg, single(v, xarg))
    want = weight_ref(a, b, x)
    rt = 1e-4 if v['xkind'] == 'f32' else 1e-12       # observed 2e-7 / 4e-16 on the unchanged code

    def verify(got, bucket, want=want, x=x):
        got = np.asarray(got)
        U.check_shape(got, shape_tuple(shape), bucket, 'weight(%r, %r, x) for x of shape %s' % (a, b, shape))
        bad = ~((np.abs(got - want) <= rt * np.abs(want)) | (got == want))
        if np.any(bad):
            i = np.unravel_index(int(np.argmax(bad)), bad.shape) if bad.ndim else ()
            ctx.fail(bucket, 'weight(alpha=%r, beta=%r, x: %s %s) at x=%r: got %r, (1-x)^alpha (1+x)^beta = %r (rtol %.1g); %d/%d points differ' % (
                a, b, v['xkind'], shape_label(shape), np.asarray(x)[i], got[i], want[i], rt, int(bad.sum()), bad.size))
    bucket = 'jacobi.weight:' + sym
    got = call(ctx, sym, weight, aarg, barg, xarg)
    verify(got, bucket)
    reuse_check(ctx, v, bucket, got, (xarg,), lambda: ctx.call(weight, b + 1, a, xarg), lambda: ctx.call(weight, aarg, barg, xarg), verify)
    edit_check(ctx, v, bucket, [(xarg, -1.0, 1.0, False)], lambda: ctx.call(weight, aarg, barg, xarg),
               lambda g, b_: verify(g, b_, want=weight_ref(a, b, now64(xarg)), x=now64(xarg)))


# ---- Forbes polynomials -------------------------------------------------------------------------------------
def qbfs_table(n, x):
    s = math.sqrt
    return [lambda: 1 + 0 * x,
            lambda: (13 - 16 * x) / s(19),
            lambda: s(2 / 95) * (29 - 4 * x * (25 - 19 * x)),
            lambda: s(2 / 2545) * (207 - 4 * x * (315 - x * (577 - 320 * x))),
            lambda: (7737 - 16 * x * (4653 - 2 * x * (7381 - 8 * x * (1168 - 509 * x)))) / (3 * s(131831)),
            lambda: (66657 - 32 * x * (28338 - x * (135325 - 8 * x * (35884 - x * (34661 - 12432 * x))))) / (3 * s(6632213))][n]()


def strat_q_values(tier):
    return st.fixed_dictionaries({
        'fn': st.sampled_from(['Qcon', 'Qbfs', 'Qbfs', 'Q2d']), 'n': orders(tier), 'n5': st.integers(0, 5), 'nq': st.one_of(st.integers(0, 12), st.sampled_from([20, 30])),
        'm': st.one_of(st.integers(-10, 10), st.sampled_from([-20, 20, 1, -1, 0])), 'shape': point_shapes(), 'edge': st.booleans(), 'seed': U.seeds, 'v': variants(),
        'alias': st.sampled_from([False, True, False])})


def check_q_values(case, ctx):
    """Qcon == u^4 P_n^(0,4)(2u^2-1) (scipy); Qbfs n<=5 == Forbes' tabulated polynomials; Qbfs / Q2d are point functions (any shape / dtype /
    layout == flat float64 evaluation), Q2d(n,0) == Qbfs(n)."""
    from prysm.polynomials import Qbfs, Qcon, Q2d
    fn, shape = case['fn'], case['shape']
    v = var_of(case)
    if fn == 'Q2d' and (v['xkind'] == 'complex' or (v['xkind'] == 'int' and case.get('alias', False))):
        v['xkind'] = 'f64'          # the azimuth is never integer-typed (cos of an int8 array is half precision in numpy)
    kind = v['xkind']
    u, base = make_points(case['seed'], shape, 0.0, 1.0, case['edge'], salt=1, kind=kind)
    uarg = present(u, shape, v)
    ctx.label(fn, shape_label(shape), 'edge' if case['edge'] else 'interior', 'n-as:' + v['n_as'])
    nt = var_labels(ctx, v, shape) or v['n_as'] != 'int'
    if fn == 'Qcon':
        n = case['n']
        ctx.label(n_class(n))
        ctx.nt(nt or n >= 6 or isinstance(shape, str) or len(shape) != 1)
        if v['pre32']:
            with single_session(ctx, v):
                call(ctx, 'float32', Qcon, n, single(v, uarg))
        want_full = base ** 4 * sps.eval_jacobi(n, 0, 4, 2 * base * base - 1)
        want = shaped(want_full, shape)
        rt = rtol_of(v, n, RT)
        what = 'Qcon(n=%d, u: %s %s) vs u^4 P_n^(0,4)(2u^2-1)' % (n, kind, shape_label(shape))

        def verify(got, bucket, want=want):
            U.check_shape(got, np.shape(want), 'Qcon', 'Qcon(%d, u) for u of shape %s' % (n, shape))
            U.check_close(got, want, rt, bucket, what, atol=rt * float(np.max(np.abs(want_full))))
        prefail(ctx, v, Qcon, n, None)
        got = call(ctx, n_class(n), Qcon, order_as(n, v), uarg)
        verify(got, 'Qcon:' + n_class(n))
        session_close(ctx, v, got, want, rt, 'Qcon:' + n_class(n), what, float(np.max(np.abs(want_full))), factor=SESSION_FACTOR)
        reuse_check(ctx, v, 'Qcon:' + n_class(n), got, (uarg,), lambda: ctx.call(Qcon, n + 1, uarg), lambda: ctx.call(Qcon, n, uarg), verify)

        def want_now():
            un = now64(uarg)
            return un ** 4 * sps.eval_jacobi(n, 0, 4, 2 * un * un - 1)
        edit_check(ctx, v, 'Qcon:' + n_class(n), [(uarg, 0.0, 1.0, False)], lambda: ctx.call(Qcon, n, uarg), lambda g, b_: verify(g, b_, want=want_now()))
    elif fn == 'Qbfs':
        n = case['n5']
        ctx.label('n=%d' % n)
        ctx.nt(nt or isinstance(shape, str) or len(shape) != 1 or n >= 2)
        x = base * base
        want_full = x * (1 - x) * qbfs_table(n, x)
        want = shaped(want_full, shape)
        rt = rtol_of(v, n, 1e-10)
        if v['pre32']:
            with single_session(ctx, v):
                call(ctx, 'float32', Qbfs, n, single(v, uarg))
                call(ctx, 'float32', Qbfs, case['n'], single(v, uarg))
        what = 'Qbfs(n=%d, u: %s %s) vs u^2(1-u^2) times Forbes tabulated Q_%d^bfs(u^2)' % (n, kind, shape_label(shape), n)

        def verify(got, bucket, want=want):
            U.check_shape(got, np.shape(want), 'Qbfs', 'Qbfs(%d, u) for u of shape %s' % (n, shape))
            U.check_close(got, want, rt, bucket, what, atol=rt)
        prefail(ctx, v, Qbfs, n, None)
        got = call(ctx, 'n<=5', Qbfs, order_as(n, v), uarg)
        verify(got, 'Qbfs:table')
        session_close(ctx, v, got, want, rt, 'Qbfs:table', what, 1.0, factor=SESSION_FACTOR)       # tabulated polynomials: unchanged code <= 2e-14
        # higher orders: same value whatever the shape / dtype / layout of the argument
        n2 = case['n']
        flat = ctx.call(Qbfs, n2, base.copy())
        rt2 = rtol_of(v, n2, 1e-13)

        def verify2(got2, bucket):
            U.check_shape(got2, np.shape(want), 'Qbfs', 'Qbfs(%d, u) for u of shape %s' % (n2, shape))
            U.check_close(got2, shaped(flat, shape), rt2, bucket, 'Qbfs(n=%d) on %s %s vs the same points as a float64 vector' % (n2, kind, shape_label(shape)),
                          atol=rt2 * float(np.max(np.abs(flat))))
        got2 = call(ctx, 'n>5', Qbfs, n2, uarg)
        verify2(got2, 'Qbfs:shape-dependence')
        reuse_check(ctx, v, 'Qbfs', got2, (uarg,), lambda: ctx.call(Qbfs, n2 + 1, uarg), lambda: ctx.call(Qbfs, n2, uarg), verify2)

        def want_now():
            xn = now64(uarg) ** 2
            return xn * (1 - xn) * qbfs_table(n, xn)
        edit_check(ctx, v, 'Qbfs:table', [(uarg, 0.0, 1.0, False)], lambda: ctx.call(Qbfs, n, uarg), lambda g, b_: verify(g, b_, want=want_now()))
    else:
        n, m = case['nq'], case['m']
        ctx.label('m=0' if m == 0 else 'm<0' if m < 0 else 'm>0', '|m|>10' if abs(m) > 10 else '|m|<=10', 'n>12' if n > 12 else 'n<=12')
        ctx.nt(True)
        t, tbase = make_points(case['seed'], shape, -math.pi, 2 * math.pi, False, salt=2, kind='f32' if kind == 'f32' else 'f64')
        targ = present(t, shape, v, layout=v['layout2'], kind='f32' if kind == 'f32' else 'f64')
        alias = bool(case.get('alias', False))
        if alias:
            t, tbase, targ = u, base, uarg
        ctx.label('u-is-t' if alias else 'u-and-t-separate')
        if v['pre32']:
            with single_session(ctx, v):
                u32 = single(v, uarg)
                call(ctx, 'float32', Q2d, n, m, u32, u32 if alias else single(v, targ))
        flat = ctx.call(Q2d, n, m, base.copy(), tbase.copy())
        rt = rtol_of(v, n + abs(m), 1e-13)

        def verify(got, bucket, want=None):
            want = shaped(flat, shape) if want is None else want
            U.check_shape(got, np.shape(want), 'Q2d', 'Q2d(%d,%d) for u of shape %s' % (n, m, shape))
            U.check_close(got, want, rt, bucket, 'Q2d(n=%d, m=%d) on %s %s vs the same points as a float64 vector' % (n, m, kind, shape_label(shape)),
                          atol=rt * float(np.max(np.abs(flat))))
        prefail(ctx, v, Q2d, n, m, None, None)
        got = call(ctx, ('m=0' if m == 0 else 'm!=0') + (':u-is-t' if alias else ''), Q2d, order_as(n, v), order_as(m, v), uarg, targ)
        verify(got, 'Q2d:shape-dependence' + (':u-is-t' if alias else ''))
        reuse_check(ctx, v, 'Q2d', got, (uarg, targ), lambda: ctx.call(Q2d, n + 1, -m, uarg, targ), lambda: ctx.call(Q2d, n, m, uarg, targ), verify)
        edit_check(ctx, v, 'Q2d', [(uarg, 0.0, 1.0, False), (targ, -math.pi, 2 * math.pi, not alias)], lambda: ctx.call(Q2d, n, m, uarg, targ),
                   lambda g, b_: verify(g, b_, want=np.asarray(ctx.call(Q2d, n, m, now64(uarg).ravel(), now64(targ).ravel())).reshape(np.shape(uarg))))
        if m == 0:
            U.check_close(flat, ctx.call(Qbfs, n, base.copy()), 1e-13, 'Q2d:m=0', 'Q2d(n,0) must be Qbfs(n)')
        else:
            # azimuthal factor of the definition: u^|m| cos(m t) / sin(|m| t) times a function of u alone
            t0 = np.full_like(base, 0.3)
            ref = ctx.call(Q2d, n, abs(m), base.copy(), t0) / math.cos(abs(m) * 0.3)
            az = np.sin(abs(m) * tbase) if m < 0 else np.cos(m * tbase)
            U.check_close(flat, ref * az, 1e-12, 'Q2d:azimuthal', 'Q2d(n=%d, m=%d) = radial part * %s(|m| t)' % (n, m, 'sin' if m < 0 else 'cos'),
                          atol=1e-12 * float(np.max(np.abs(ref))))


def cheb_nodes(K):
    k = np.arange(1, K + 1)
    return np.cos((2 * k - 1) * np.pi / (2 * K))     # Gauss-Chebyshev: int_-1^1 f (1-u^2)^-1/2 du = pi/K sum f(u_k), exact for deg <= 2K-1


def poly_degree_and_sign(ctx, f, n, bucket, what):
    """f: a function of x=u^2 on (0,1).  Its Chebyshev expansion on [0,1] (interpolation at n+9 Chebyshev points, well conditioned)
    must stop at degree n, and the coefficient of T_n(2x-1) - whose sign is that of the coefficient of x^n - has sign (-1)^n."""
    c = np.polynomial.chebyshev.chebinterpolate(lambda y: f((y + 1) / 2), n + 8)
    top = float(np.max(np.abs(c)))
    lead = float(c[n])
    tail = float(np.max(np.abs(c[n + 1:])))
    ctx.require(tail <= 1e-9 * top, bucket + ':degree', '%s: Chebyshev coefficients above degree %d reach %.3g (largest coefficient %.3g)' % (what, n, tail, top))
    ctx.require(abs(lead) >= 1e-6 * top, bucket + ':degree', '%s: coefficient of degree %d is %.3g (largest %.3g): degree < %d' % (what, n, lead, top, n))
    ctx.require((lead > 0) == (n % 2 == 0), bucket + ':sign', '%s: leading coefficient %.6g, expected sign (-1)^%d' % (what, lead, n))
    return tail / top, abs(lead) / top


def enum_qbfs_gram(tier):
    for N in {'quick': [5, 12, 24, 40], 'thorough': [5, 12, 24, 40, 60, 80]}[tier]:
        yield {'N': N}


def check_qbfs_gram(case, ctx):
    """(2/pi) int_0^1 S_m' S_n' (1-u^2)^-1/2 du == delta_mn for S_n = Qbfs(n,u), n <= N (slopes by complex step); degree n and sign (-1)^n in u^2."""
    from prysm.polynomials import Qbfs
    N = case['N']
    ctx.nt(True)
    ctx.tally('gram_entries', (N + 1) ** 2)
    K = 2 * N + 8      # integrand degree <= 2(2N+3) = 4N+6 <= 2K-1
    un = cheb_nodes(K)
    uc = U.relayout(un + 1j * H, 'strided' if N % 8 == 0 else 'C')      # N = 24, 40, 80: the nodes as a strided view
    D = np.array([np.imag(call(ctx, 'gram', Qbfs, n, uc)) / H for n in range(N + 1)])
    G = D @ D.T / K     # (2/pi) * (1/2) * (pi/K) * sum over the symmetric nodes
    gram_assert(ctx, G, np.eye(N + 1), 1e-8, lambda i, j: ('Qbfs_gram:%s' % ('norm' if i == j else 'orthogonality'), "<S_%d', S_%d'>" % (i, j)))
    # the same polynomials and slopes through the sum evaluator with one coefficient set to 1 (the slope it returns is analytic);
    # nodes in (0, 1): the integrand is even in u
    from prysm.polynomials.qpoly import compute_z_zprime_Qbfs
    up = un[:K // 2].copy()
    rows = []
    for n in range(N + 1):
        res = call(ctx, 'one-coefficient', compute_z_zprime_Qbfs, [0.0] * n + [1.0], up, up * up)
        ctx.require(isinstance(res, tuple) and len(res) == 2, 'compute_z_zprime_Qbfs:return', 'expected (z, zprime)')
        U.check_close(res[0], ctx.call(Qbfs, n, up), 1e-9, 'compute_z_zprime_Qbfs:one-coefficient:value',
                      'compute_z_zprime_Qbfs with the coefficient of order %d set to 1 vs Qbfs(%d, u)' % (n, n), atol=1e-9)
        U.check_shape(res[1], up.shape, 'compute_z_zprime_Qbfs:one-coefficient', 'slope of order %d' % n)
        rows.append(np.asarray(res[1]))
    Da = np.array(rows)
    gram_assert(ctx, Da @ Da.T * 2 / K, np.eye(N + 1), 1e-8, lambda i, j: (
        'compute_z_zprime_Qbfs:one-coefficient:slope-gram:%s' % ('norm' if i == j else 'orthogonality'),
        "<S_%d', S_%d'>, both slopes as returned by compute_z_zprime_Qbfs" % (i, j)))
    gram_assert(ctx, Da @ D[:, :K // 2].T * 2 / K, np.eye(N + 1), 1e-8, lambda i, j: (
        'compute_z_zprime_Qbfs:one-coefficient:slope-gram-vs-Qbfs:%s' % ('norm' if i == j else 'orthogonality'),
        "<S_%d' as returned by compute_z_zprime_Qbfs, S_%d' by complex step of Qbfs>" % (i, j)))
    for n in range(0, N + 1, max(1, N // 12)):
        def q(z, n=n):
            return Qbfs(n, np.sqrt(z)) / (z * (1 - z))
        poly_degree_and_sign(ctx, q, n, 'Qbfs', 'Qbfs(%d,u)/(u^2(1-u^2)) as a polynomial in u^2' % n)


def strat_q2d_gram(tier):
    NN = {'quick': 8, 'thorough': 12}[tier]
    fam = st.tuples(st.one_of(st.integers(0, 10), st.sampled_from([0, 1, 2, 3, 14, 20])), st.integers(0, NN)).map(list)
    return st.fixed_dictionaries({'fams': st.lists(fam, min_size=1, max_size=4, unique_by=lambda t: t[0]), 'layout': U.layouts})


def check_q2d_gram(case, ctx):
    """(1/pi^2) int int grad Q_n^m . grad Q_n'^m' (1-u^2)^-1/2 du dt == delta for complete radial sets n=0..N of the drawn |m| (cos and sin); degree, sign."""
    from prysm.polynomials import Q2d
    fams = case['fams']
    modes = []
    for am, N in fams:
        for sgn in ((1,) if am == 0 else (1, -1)):
            modes += [(n, sgn * am) for n in range(N + 1)]
    ctx.nt(True)
    ctx.tally('gram_entries', len(modes) ** 2)
    for am, N in fams:
        ctx.label('m=0' if am == 0 else 'm=1' if am == 1 else 'm=2,3' if am <= 3 else 'm=4..10' if am <= 10 else 'm>10')
    lay = case.get('layout', 'C')
    ctx.label('layout:' + lay)
    nmax = max(N for _, N in fams)
    mmax = max(am for am, _ in fams)
    K = 2 * nmax + mmax + 10     # degree in u of a product of two gradients <= 2 (2 nmax + mmax + 3)
    K += K % 2                   # even: no node at u = 0
    T = 2 * mmax + 3
    un = cheb_nodes(K)
    th = 2 * np.pi * np.arange(T) / T
    Ug, Tg = np.meshgrid(un, th, indexing='ij')
    Ur, Ui, Tr, Ti = (U.relayout(g, lay) for g in (Ug + 1j * H, Ug + 0j, Tg + 0j, Tg + 1j * H))      # same nodes, another memory layout
    rows = []
    for n, m in modes:
        dr = np.imag(call(ctx, 'gram', Q2d, n, m, Ur, Tr)) / H
        dt = np.imag(call(ctx, 'gram', Q2d, n, m, Ui, Ti)) / H / Ug
        rows.append(np.concatenate([dr.ravel(), dt.ravel()]))
    D = np.array(rows)
    G = D @ D.T * (np.pi / K) * (2 * np.pi / T) / 2 / np.pi ** 2
    gram_assert(ctx, G, np.eye(len(modes)), 1e-8, lambda i, j: (
        'Q2d_gram:%s' % ('norm' if i == j else 'orthogonality'), '<grad Q%s, grad Q%s>' % (modes[i], modes[j])))
    for am, N in fams:
        if am == 0:
            continue
        for n in sorted({0, 1, N // 2, N}):
            def q(z, n=n, am=am):
                u = np.sqrt(z)
                return Q2d(n, am, u, np.zeros_like(u)) / u ** am
            poly_degree_and_sign(ctx, q, n, 'Q2d', 'Q2d(%d,%d,u,0)/u^%d as a polynomial in u^2' % (n, am, am))


# ---- 2D-Q polynomials and their slopes through the sum evaluator (one coefficient set to 1) -----------------------------
def strat_q2d_onehot(tier):
    NN = {'quick': 8, 'thorough': 12}[tier]
    mode = st.tuples(st.integers(0, NN), st.one_of(st.integers(-4, 4), st.integers(-10, 10), st.sampled_from([-14, 14, 20, -20]))).map(list)
    return st.fixed_dictionaries({'nms': st.lists(mode, min_size=1, max_size=6, unique_by=lambda t: (t[0], t[1])),
                                  'table': st.sampled_from(['packer-one', 'packer-all', 'direct', 'direct-all']),
                                  'cs_as': st.sampled_from(['list', 'list', 'tuple', 'array']), 'layout': U.layouts,
                                  # the (n, m) terms of the packer ('nms : iterable'): a list, or something that can be walked only once
                                  'nms_as': st.sampled_from(['list', 'list', 'zip', 'generator'])})


def q2d_table(nms, k, how):
    """(cm0, ams, bms) with the coefficient of mode k set to 1; 'all': the rows of the other modes are present and hold zeros,
    'one': only the rows of mode k exist - every azimuthal order below |m_k| is an empty row"""
    use = list(nms) if how == 'all' else [nms[k]]
    M = max(abs(m) for _, m in use)
    cm0, ams, bms = [], [[] for _ in range(M)], [[] for _ in range(M)]
    for n, m in use:
        row = cm0 if m == 0 else ams[m - 1] if m > 0 else bms[-m - 1]
        row += [0.0] * (n + 1 - len(row))
    n, m = nms[k]
    (cm0 if m == 0 else ams[m - 1] if m > 0 else bms[-m - 1])[n] = 1.0
    return cm0, ams, bms


def check_q2d_onehot(case, ctx):
    """compute_z_zprime_Q2d with one coefficient set to 1 (through Q2d_nm_c_to_a_b or a hand-built table; azimuthal orders with no
    term are empty rows, before and between the populated ones) returns the polynomial Q_n^m - the one q2d_gram pins - and its
    radial / azimuthal slopes: orthonormal among themselves and against the complex-step slopes of Q2d under Forbes' inner product."""
    from prysm.polynomials import Q2d
    from prysm.polynomials.qpoly import compute_z_zprime_Q2d, Q2d_nm_c_to_a_b
    nms = [(int(n), int(m)) for n, m in case['nms']]
    table, lay, cs_as = case['table'], case.get('layout', 'C'), case.get('cs_as', 'list')
    ctx.nt(True)
    nmax = max(n for n, _ in nms)
    mmax = max(abs(m) for _, m in nms)
    K = 2 * nmax + mmax + 10
    K += K % 2
    T = 2 * mmax + 3
    un = cheb_nodes(K)[:K // 2]      # the nodes in (0, 1): after the (exact) sum over theta the integrand is even in u
    th = 2 * np.pi * np.arange(T) / T
    Ug, Tg = np.meshgrid(un, th, indexing='ij')
    Ua, Ta = U.relayout(Ug.copy(), lay), U.relayout(Tg.copy(), lay)
    ctx.tally('gram_entries', 2 * len(nms) ** 2)
    nms_as = case.get('nms_as', 'list') if table.startswith('packer') else 'list'
    ctx.label('table:' + table, 'layout:' + lay, 'cs-as:' + cs_as, 'modes=%d' % len(nms), 'packer-terms-as:' + nms_as)
    rows_a, rows_c = [], []
    for k, (n, m) in enumerate(nms):
        if table.startswith('packer'):
            use = nms if table == 'packer-all' else [nms[k]]
            cs = [1.0 if j == k else 0.0 for j in range(len(nms))] if table == 'packer-all' else [1.0]
            terms = [tuple(e) for e in use]
            if nms_as == 'zip':
                terms = zip([e[0] for e in use], [e[1] for e in use])
            elif nms_as == 'generator':
                terms = (tuple(e) for e in use)
            cm0, ams, bms = call(ctx, 'one-hot' + ('' if nms_as == 'list' else ':terms-from-a-one-shot-iterable'), Q2d_nm_c_to_a_b, terms, cs)
        else:
            use = nms if table == 'direct-all' else [nms[k]]
            cm0, ams, bms = q2d_contain(*q2d_table(nms, k, 'all' if table == 'direct-all' else 'one'), cs_as)
        orders = sorted({abs(mm) for _, mm in use if mm != 0})
        gap = 'no-azimuthal-order' if not orders else 'empty-orders:none' if orders == list(range(1, len(orders) + 1)) else \
            'empty-orders:leading' if orders == list(range(orders[0], orders[0] + len(orders))) else 'empty-orders:between'
        ctx.label(gap, 'm=0' if m == 0 else 'm=1' if abs(m) == 1 else 'm=2,3' if abs(m) <= 3 else 'm=4..10' if abs(m) <= 10 else 'm>10')
        res = call(ctx, gap, compute_z_zprime_Q2d, cm0, ams, bms, Ua, Ta)
        ctx.require(isinstance(res, tuple) and len(res) == 3, 'compute_z_zprime_Q2d:return', 'expected (z, dr, dt)')
        z, dr, dt = (np.asarray(e) for e in res)
        want = np.asarray(ctx.call(Q2d, n, m, Ug, Tg))
        what = 'compute_z_zprime_Q2d with the coefficient of (n=%d, m=%d) set to 1 (%s, modes of the table %s)' % (n, m, table, use)
        for e, nm in ((z, 'sag'), (dr, 'radial slope'), (dt, 'azimuthal slope')):
            U.check_shape(e, Ug.shape, 'compute_z_zprime_Q2d:one-coefficient:' + gap, nm + ' of ' + what)
        U.check_close(z, want, 1e-9, 'compute_z_zprime_Q2d:one-coefficient:value:' + gap, what + ' vs Q2d(%d, %d, u, t)' % (n, m), atol=1e-9)
        rows_a.append(np.concatenate([dr.ravel(), (dt / Ug).ravel()]))
        rows_c.append(np.concatenate([(np.imag(ctx.call(Q2d, n, m, Ug + 1j * H, Tg + 0j)) / H).ravel(),
                                      (np.imag(ctx.call(Q2d, n, m, Ug + 0j, Tg + 1j * H)) / H / Ug).ravel()]))
    Da, Dc = np.array(rows_a), np.array(rows_c)
    wgt = (np.pi / K) * (2 * np.pi / T) / np.pi ** 2
    eye = np.eye(len(nms))
    gram_assert(ctx, Da @ Da.T * wgt, eye, 1e-8, lambda i, j: (
        'compute_z_zprime_Q2d:one-coefficient:slope-gram:%s' % ('norm' if i == j else 'orthogonality'),
        '<grad Q%s, grad Q%s>, both gradients as returned by compute_z_zprime_Q2d (%s)' % (nms[i], nms[j], table)))
    gram_assert(ctx, Da @ Dc.T * wgt, eye, 1e-8, lambda i, j: (
        'compute_z_zprime_Q2d:one-coefficient:slope-gram-vs-Q2d:%s' % ('norm' if i == j else 'orthogonality'),
        '<grad Q%s as returned by compute_z_zprime_Q2d (%s), grad Q%s by complex step of Q2d>' % (nms[i], table, nms[j])))


# ---- one 2D-Q term u^m [a cos(m t) + b sin(m t)] Q_n^m(u^2) given to both families of the sum evaluator ------------------
TWIN_WEIGHTS = ['ones', 'half', 'clocked', 'clocked', 'negated', 'cos-only', 'sin-only', 'ones']


def strat_q2d_twin(tier):
    NN = {'quick': 8, 'thorough': 12}[tier]
    term = st.tuples(st.one_of(st.integers(0, NN), st.integers(3, NN)), st.one_of(st.sampled_from([1, 1, 1, 2, 3]), st.integers(1, 10))).map(list)
    return st.fixed_dictionaries({'terms': st.lists(term, min_size=1, max_size=5, unique_by=lambda t: (t[0], t[1])),
                                  'weights': st.sampled_from(TWIN_WEIGHTS), 'angle': U.nice_float(0.0, 6.25),
                                  'table': st.sampled_from(['direct', 'packer', 'direct']), 'rows': st.sampled_from(['one', 'all']),
                                  'share': st.sampled_from(['same-rows', 'same-table', 'separate']),
                                  'cs_as': st.sampled_from(['list', 'list', 'tuple', 'array']), 'layout': U.layouts})


def check_q2d_twin(case, ctx):
    """Forbes' term of azimuthal order m and radial order n, u^m [a cos(m t) + b sin(m t)] Q_n^m(u^2), evaluated by compute_z_zprime_Q2d with the
    pair (a, b) as the only non-zero coefficients - (1, 1), (.5, .5), (cos, sin) of a drawn angle, (1, -1), (1, 0), (0, 1); as equal values in
    separate vectors, the same vector object in both tables, or one table object given for both families - is the polynomial Q_n^m turned by
    atan2(b, a) / m about the axis and scaled by hypot(a, b): sag == hypot(a, b) Q2d(n, m, u, t - phi), and the returned radial / azimuthal slopes
    divided by hypot(a, b) are orthonormal among themselves and against the complex-step slopes of Q2d under Forbes' inner product."""
    from prysm.polynomials import Q2d
    from prysm.polynomials.qpoly import compute_z_zprime_Q2d, Q2d_nm_c_to_a_b
    terms = [(int(n), int(m)) for n, m in case['terms']]
    wk, table, rows, share, lay, cs_as = case['weights'], case['table'], case['rows'], case['share'], case.get('layout', 'C'), case.get('cs_as', 'list')
    ang = float(case['angle'])
    a, b = {'ones': (1.0, 1.0), 'half': (0.5, 0.5), 'clocked': (math.cos(ang), math.sin(ang)), 'negated': (1.0, -1.0), 'cos-only': (1.0, 0.0),
            'sin-only': (0.0, 1.0)}[wk]
    if a != b or table == 'packer':
        share = 'separate'          # one object for both families holds one set of values
    rho = math.hypot(a, b)
    ctx.nt(True)
    nmax = max(n for n, _ in terms)
    mmax = max(m for _, m in terms)
    K = 2 * nmax + mmax + 10
    K += K % 2
    T = 2 * mmax + 3
    un = cheb_nodes(K)[:K // 2]      # the nodes in (0, 1): after the (exact) sum over theta the integrand is even in u
    th = 2 * np.pi * np.arange(T) / T
    Ug, Tg = np.meshgrid(un, th, indexing='ij')
    Ua, Ta = U.relayout(Ug.copy(), lay), U.relayout(Tg.copy(), lay)
    ctx.tally('gram_entries', 2 * len(terms) ** 2)
    ctx.label('weights:' + wk, 'table:' + table, 'rows:' + rows, 'share:' + share, 'layout:' + lay, 'cs-as:' + cs_as, 'terms=%d' % len(terms),
              'families-equal' if a == b else 'families-differ')
    cls = '%s:%s' % ('cosine-and-sine-coefficients-equal' if a == b else 'weights-' + wk,
                     {'separate': 'separate-objects', 'same-rows': 'same-row-objects', 'same-table': 'ams-is-bms'}[share])

    def box(v):
        return tuple(v) if cs_as == 'tuple' else np.array(v) if cs_as == 'array' and len(v) else list(v)
    rows_a, rows_c = [], []
    for k, (n, m) in enumerate(terms):
        use = terms if rows == 'all' else [terms[k]]
        ctx.label('m=1' if m == 1 else 'm=2,3' if m <= 3 else 'm=4..10', 'n>=3' if n >= 3 else 'n<3',
                  'm=1,n>=3,equal' if m == 1 and n >= 3 and a == b else 'other-term')
        if table == 'packer':
            nms = [(nn, sg * mm) for nn, mm in use for sg in (1, -1)]
            cs = [(a if sg > 0 else b) if (nn, mm) == (n, m) else 0.0 for nn, mm in use for sg in (1, -1)]
            cm0, ams, bms = call(ctx, cls, Q2d_nm_c_to_a_b, nms, box(cs))
        else:
            M = max(mm for _, mm in use)
            lens = [max([nn + 1 for nn, mm in use if mm == i + 1] or [0]) for i in range(M)]
            ra = [[0.0] * L for L in lens]
            rb = [[0.0] * L for L in lens]
            ra[m - 1][n], rb[m - 1][n] = a, b
            cm0 = []
            ams = [box(v) for v in ra]
            bms = ams if share == 'same-table' else list(ams) if share == 'same-rows' else [box(v) for v in rb]
            if cs_as == 'tuple':
                ams = tuple(ams)
                bms = ams if share == 'same-table' else tuple(bms)
        res = call(ctx, cls, compute_z_zprime_Q2d, cm0, ams, bms, Ua, Ta)
        ctx.require(isinstance(res, tuple) and len(res) == 3, 'compute_z_zprime_Q2d:return', 'expected (z, dr, dt)')
        z, dr, dt = (np.asarray(e) for e in res)
        phi = math.atan2(b, a) / m
        want = rho * np.asarray(ctx.call(Q2d, n, m, Ug, Tg - phi))
        what = 'compute_z_zprime_Q2d with the coefficients of (n=%d, m=%d) and (n=%d, m=%d) set to %r and %r (%s, %s, rows of %s)' % (n, m, n, -m, a, b, table, share, use)
        for e, nm in ((z, 'sag'), (dr, 'radial slope'), (dt, 'azimuthal slope')):
            U.check_shape(e, Ug.shape, 'compute_z_zprime_Q2d:term-in-both-families:' + cls, nm + ' of ' + what)
        U.check_close(z, want, 1e-9, 'compute_z_zprime_Q2d:term-in-both-families:value:' + cls,
                      what + ' vs %.6g * Q2d(%d, %d, u, t - %.6g)' % (rho, n, m, phi), atol=1e-9)
        rows_a.append(np.concatenate([dr.ravel(), (dt / Ug).ravel()]) / rho)
        rows_c.append(np.concatenate([(np.imag(ctx.call(Q2d, n, m, Ug + 1j * H, Tg - phi + 0j)) / H).ravel(),
                                      (np.imag(ctx.call(Q2d, n, m, Ug + 0j, Tg - phi + 1j * H)) / H / Ug).ravel()]))
    Da, Dc = np.array(rows_a), np.array(rows_c)
    wgt = (np.pi / K) * (2 * np.pi / T) / np.pi ** 2
    eye = np.eye(len(terms))
    gram_assert(ctx, Da @ Da.T * wgt, eye, 1e-8, lambda i, j: (
        'compute_z_zprime_Q2d:term-in-both-families:slope-gram:%s:%s' % ('norm' if i == j else 'orthogonality', cls),
        '<grad T%s, grad T%s> / (a^2 + b^2), T_nm = a Q_n^m + b Q_n^-m with (a, b) = (%r, %r), both gradients as returned by compute_z_zprime_Q2d (%s, %s)' % (
            terms[i], terms[j], a, b, table, share)))
    gram_assert(ctx, Da @ Dc.T * wgt, eye, 1e-8, lambda i, j: (
        'compute_z_zprime_Q2d:term-in-both-families:slope-gram-vs-Q2d:%s:%s' % ('norm' if i == j else 'orthogonality', cls),
        '<grad T%s as returned by compute_z_zprime_Q2d (%s, %s, (a, b) = (%r, %r)) / hypot(a, b), grad Q%s turned by atan2(b, a)/m, by complex step of Q2d>' % (
            terms[i], table, share, a, b, terms[j])))


# ---- sequence evaluators against the same independent definitions ----------------------------------------
def _order_list(tier):
    top = {'quick': 40, 'thorough': 100}[tier]
    return st.one_of(
        st.tuples(st.integers(0, 3), st.integers(1, 10)).map(lambda t: list(range(t[0], t[0] + t[1]))),
        st.lists(st.integers(0, top), min_size=1, max_size=8, unique=True).map(sorted),
        st.integers(0, top).map(lambda n: [n]),
        # lists that end at one of the low orders the sequence routines write out before their recurrence loop (each has its own return)
        st.sampled_from([[0], [1], [0, 1], [2], [0, 2], [1, 2], [0, 1, 2], [3], [0, 3], [2, 3], [0, 1, 2, 3]]))


def strat_seq(tier):
    nmax = {'quick': 20, 'thorough': 40}[tier]
    vv = variants(('f64', 'f32', 'complex'))
    shp = st.one_of(st.none(), st.none(), array_shapes(4))       # None: a vector of npts points; otherwise numpy scalar, 0-D ... 3-D
    one_d = st.sampled_from(FAMS).flatmap(lambda fam: st.fixed_dictionaries({
        'kind': st.just('1d'), 'fam': st.just(fam), 'ns': _order_list(tier), 'p': fam_params(fam), 'npts': st.integers(1, 9), 'seed': U.seeds,
        'pre32': st.booleans(), 'shape': shp, 'v': vv}))
    zern = st.fixed_dictionaries({'kind': st.just('zernike'), 'nms': st.lists(nm_pairs_ext(nmax), min_size=1, max_size=8), 'both_signs': st.booleans(),
                                  'norm': st.booleans(), 'npts': st.integers(1, 9), 'seed': U.seeds, 'shape': shp, 'v': variants(('f64', 'f32')),
                                  'norm_as': st.sampled_from(FLAG_KINDS)})
    q2d = st.fixed_dictionaries({'kind': st.just('q2d'), 'nms': st.lists(st.tuples(st.integers(0, 8), st.one_of(st.integers(-8, 8), st.sampled_from([-16, 16]))).map(list),
                                                                         min_size=1, max_size=7),
                                 'npts': st.integers(1, 9), 'seed': U.seeds, 'shape': shp, 'v': variants(('f64', 'f32'))})
    q1d = st.fixed_dictionaries({'kind': st.sampled_from(['qbfs', 'qcon']), 'ns': _order_list('quick'), 'npts': st.integers(1, 9), 'seed': U.seeds,
                                 'shape': shp, 'v': vv})
    return st.one_of(one_d, one_d, zern, zern, q2d, q1d)


def seq_points(case, v, lo, hi, salt, kind=None):
    """evaluation points of a sequence-form case: (argument, float64 points in the argument's shape, shape)"""
    kind = kind or v['xkind']
    shape = case.get('shape')
    if shape is None:
        shape = [case['npts']]
    r_ = U.rng_of(case['seed'], salt)
    pts = r_.uniform(lo, hi, size_of(shape))
    if kind == 'f32':
        pts = pts.astype(np.float32).astype(float)
    x = pts.reshape(shape_tuple(shape))
    return present(float(x) if isinstance(shape, str) else x, shape, v, kind=kind), x, shape


def check_seq(case, ctx):
    """the *_seq evaluators return, mode for mode, the polynomial the definition specifies (scipy / exact radial sums / closed forms);
    zernike_nm_seq with both signs of m and norm on/off, Q2d_seq with gaps in |m|; coordinates of any shape / layout, float64, float32 or
    complex, order lists as list / tuple / array; arguments unchanged, results independent of each other."""
    from prysm import polynomials as P
    kind = case['kind']
    ctx.nt(True)
    # integer-typed points are not generated: the unchanged sequence forms allocate their output in the dtype of the coordinates
    if kind == '1d':
        fam, ns, p = case['fam'], case['ns'], case['p']
        fn, (lo, hi) = fam_table()[fam]
        seqfn = getattr(P, fam + '_seq')
        v = settle_kind(var_of(case, ('f64', 'f32', 'complex')), fam, ns[-1])
        xarg, x, shape = seq_points(case, v, lo, hi, 31)
        ctx.label('seq:' + fam, 'gapped' if ns != list(range(ns[0], ns[0] + len(ns))) else 'contiguous', 'from0' if ns[0] == 0 else 'from>0', shape_label(shape),
                  'ns-as:' + v['ns_as'])
        var_labels(ctx, v, shape)
        nsarg = contain(ns, v['ns_as'])
        full = (len(ns),) + shape_tuple(shape)
        if case.get('pre32', False) or v['pre32']:
            # a single-precision evaluation of the same orders first (same process): it is checked to single precision, and it
            # must leave nothing behind that degrades the double-precision evaluation that follows
            ctx.label('after-float32-call')
            v['pre32'] = True
            with single_session(ctx, v):
                g32 = np.asarray(call(ctx, 'float32', seqfn, nsarg, *p, single(v, xarg)))
            U.check_shape(g32, full, fam + '_seq:float32')
        wants = [(ref_value(fam, n, p, x), float(np.max(np.abs(ref_value(fam, n, p, np.linspace(lo, hi, 9)))))) for n in ns]

        def verify(got, suffix, wants=wants, session=False):
            got = np.asarray(got)
            U.check_shape(got, full, fam + '_seq' + suffix)
            for k, n in enumerate(ns):
                rt = rtol_of(v, n, RT)
                what = '%s_seq(%s, %s, x: %s %s)[%d] (order %d) vs scipy.special' % (fam, ns, p, v['xkind'], shape_label(shape), k, n)
                U.check_close(got[k], wants[k][0], rt, '%s_seq:%s%s' % (fam, n_class(n), suffix), what, atol=rt * wants[k][1])
                if session:
                    session_close(ctx, v, got[k], wants[k][0], rt, '%s_seq:%s%s' % (fam, n_class(n), suffix), what, wants[k][1], factor=SESSION_FACTOR)
        parg = params_as(p, v)
        if p:
            ctx.label('params-as:' + v['p_as'])
        prefail(ctx, v, seqfn, nsarg, *parg, None)
        got = call(ctx, 'seq', seqfn, nsarg, *parg, xarg)
        verify(got, '', session=True)
        ns2 = [n + 1 for n in ns][:-1] or [ns[0] + 1]
        reuse_check(ctx, v, fam + '_seq', got, (xarg, nsarg), lambda: ctx.call(seqfn, ns2, *p, xarg), lambda: ctx.call(seqfn, nsarg, *p, xarg),
                    lambda g, b: verify(g, b[len(fam + '_seq'):]))
        edit_check(ctx, v, fam + '_seq', [(xarg, lo, hi, False)], lambda: ctx.call(seqfn, nsarg, *parg, xarg),
                   lambda g, b: verify(g, b[len(fam + '_seq'):], wants=[(ref_value(fam, n, p, now64(xarg)), wants[k][1]) for k, n in enumerate(ns)]))
        return
    if kind == 'zernike':
        nms = [list(e) for e in case['nms']]
        if case['both_signs']:
            nms = nms + [[n, -m] for n, m in nms if m != 0]        # both (n,+m) and (n,-m) in one call
        norm = case['norm']
        norm_as = case.get('norm_as', 'bool')
        narg = flag_as(norm, norm_as)
        v = var_of(case, ('f64', 'f32'))
        rarg, rr, shape = seq_points(case, v, 0, 1, 31)
        targ, tt, _ = seq_points(case, v, -math.pi, math.pi, 32)
        ctx.label('seq:zernike', 'norm' if norm else 'no-norm', 'both-signs' if case['both_signs'] else 'as-drawn', shape_label(shape), 'nms-as:' + v['ns_as'],
                  'norm-as:' + norm_as)
        var_labels(ctx, v, shape)
        nmarg = [tuple(e) for e in nms] if v['ns_as'] == 'list' else tuple(tuple(e) for e in nms) if v['ns_as'] == 'tuple' else np.array(nms)
        full = (len(nms),) + shape_tuple(shape)
        if v['pre32']:
            with single_session(ctx, v):
                call(ctx, 'float32', P.zernike_nm_seq, nmarg, single(v, rarg), single(v, targ), norm=narg)

        def zwants(rr, tt):
            out = []
            for n, m in nms:
                am = abs(m)
                az = np.ones_like(tt) if m == 0 else np.sin(am * tt) if m < 0 else np.cos(m * tt)
                N = math.sqrt(2 * (n + 1) / (2 if m == 0 else 1)) if norm else 1.0
                out.append((N * zernike_radial_exact(n, am, rr).reshape(rr.shape) * az, N))
            return out
        wants = zwants(rr, tt)

        def verify(got, suffix, wants=wants, session=False):
            got = np.asarray(got)
            U.check_shape(got, full, 'zernike_nm_seq' + suffix)
            for k, (n, m) in enumerate(nms):
                rt = rtol_of(v, n, RT)
                bucket = 'zernike_nm_seq:%s%s%s' % ('norm' if norm else 'no-norm', '' if norm_as == 'bool' else ':given-as-' + norm_as, suffix)
                what = 'zernike_nm_seq(%s, norm=%r, r: %s %s)[%d] = (n=%d, m=%d) vs explicit radial sum' % (nms, narg, v['xkind'], shape_label(shape), k, n, m)
                U.check_close(got[k], wants[k][0], rt, bucket, what, atol=rt * wants[k][1])
                if session:
                    session_close(ctx, v, got[k], wants[k][0], rt, bucket, what, wants[k][1], factor=SESSION_FACTOR)
        got = call(ctx, 'seq', P.zernike_nm_seq, nmarg, rarg, targ, norm=narg)
        verify(got, '', session=True)
        other = [tuple(e) for e in reversed(nms)] + [(4, 2)]
        reuse_check(ctx, v, 'zernike_nm_seq', got, (rarg, targ), lambda: ctx.call(P.zernike_nm_seq, other, rarg, targ, norm=flag_as(not norm, norm_as)),
                    lambda: ctx.call(P.zernike_nm_seq, nmarg, rarg, targ, norm=narg), lambda g, b: verify(g, b[len('zernike_nm_seq'):]))
        edit_check(ctx, v, 'zernike_nm_seq', [(rarg, 0.0, 1.0, False), (targ, -math.pi, math.pi, True)], lambda: ctx.call(P.zernike_nm_seq, nmarg, rarg, targ, norm=narg),
                   lambda g, b: verify(g, b[len('zernike_nm_seq'):], wants=zwants(now64(rarg), now64(targ))))
        return
    if kind == 'q2d':
        nms = [[n, m] for n, m in case['nms']]
        v = var_of(case, ('f64', 'f32'))
        uarg, uu, shape = seq_points(case, v, 0.05, 1, 31)
        targ, tt, _ = seq_points(case, v, -math.pi, math.pi, 32)
        ams = sorted({abs(m) for _, m in nms})
        ctx.label('seq:q2d', 'm-gap' if ams != list(range(ams[0], ams[0] + len(ams))) else 'm-dense', shape_label(shape))
        var_labels(ctx, v, shape)
        full = (len(nms),) + shape_tuple(shape)
        nmarg = [tuple(e) for e in nms]
        if v['pre32']:
            with single_session(ctx, v):
                call(ctx, 'float32', P.Q2d_seq, nmarg, single(v, uarg), single(v, targ))
        # the single-order routine is pinned by q2d_gram (uniqueness of the orthonormal slope basis) and q_values in this property
        wants = [np.asarray(ctx.call(P.Q2d, n, m, uu, tt)) for n, m in nms]

        def verify(got, suffix, wants=wants):
            got = np.asarray(got)
            U.check_shape(got, full, 'Q2d_seq' + suffix)
            for k, (n, m) in enumerate(nms):
                rt = rtol_of(v, n + abs(m), 1e-9)
                U.check_close(got[k], wants[k], rt, 'Q2d_seq' + suffix, 'Q2d_seq(%s, u: %s %s)[%d] = (n=%d, m=%d) vs Q2d' % (nms, v['xkind'], shape_label(shape), k, n, m),
                              atol=rt * max(1.0, float(np.max(np.abs(wants[k])))))
        got = call(ctx, 'seq', P.Q2d_seq, nmarg, uarg, targ)
        verify(got, '')
        other = [(n + 1, -m) for n, m in nms][:-1] + [(0, 3)]
        reuse_check(ctx, v, 'Q2d_seq', got, (uarg, targ), lambda: ctx.call(P.Q2d_seq, other, uarg, targ), lambda: ctx.call(P.Q2d_seq, nmarg, uarg, targ),
                    lambda g, b: verify(g, b[len('Q2d_seq'):]))
        edit_check(ctx, v, 'Q2d_seq', [(uarg, 0.05, 1.0, False), (targ, -math.pi, math.pi, True)], lambda: ctx.call(P.Q2d_seq, nmarg, uarg, targ),
                   lambda g, b: verify(g, b[len('Q2d_seq'):], wants=[np.asarray(ctx.call(P.Q2d, n, m, now64(uarg), now64(targ))) for n, m in nms]))
        return
    ns = case['ns']
    v = var_of(case, ('f64', 'f32', 'complex'))
    uarg, uu, shape = seq_points(case, v, 0, 1, 31)
    ctx.label('seq:' + kind, shape_label(shape), 'ns-as:' + v['ns_as'])
    var_labels(ctx, v, shape)
    nsarg = contain(ns, v['ns_as'])
    full = (len(ns),) + shape_tuple(shape)
    seqfn, name = (P.Qcon_seq, 'Qcon_seq') if kind == 'qcon' else (P.Qbfs_seq, 'Qbfs_seq')
    if v['pre32']:
        with single_session(ctx, v):
            call(ctx, 'float32', seqfn, nsarg, single(v, uarg))

    def qwants(uu):
        if kind == 'qcon':
            return [uu ** 4 * sps.eval_jacobi(n, 0, 4, 2 * uu * uu - 1) for n in ns]
        return [qbfs_table(n, uu * uu) * (uu * uu) * (1 - uu * uu) if n <= 5 else np.asarray(ctx.call(P.Qbfs, n, uu)) for n in ns]
    wants = qwants(uu)

    def verify(got, suffix, wants=wants, session=False):
        got = np.asarray(got)
        U.check_shape(got, full, name + suffix)
        for k, n in enumerate(ns):
            rt = rtol_of(v, n, RT)
            what = '%s(%s, u: %s %s)[%d] (order %d)' % (name, ns, v['xkind'], shape_label(shape), k, n)
            U.check_close(got[k], wants[k], rt, name + suffix, what, atol=rt)
            if session and (kind == 'qcon' or n <= 5):      # independent references only (above n = 5 the reference is Qbfs itself)
                session_close(ctx, v, got[k], wants[k], rt, name + suffix, what, 1.0, factor=SESSION_FACTOR)
    got = call(ctx, 'seq', seqfn, nsarg, uarg)
    verify(got, '', session=True)
    ns2 = [n + 1 for n in ns][:-1] or [ns[0] + 1]
    reuse_check(ctx, v, name, got, (uarg, nsarg), lambda: ctx.call(seqfn, ns2, uarg), lambda: ctx.call(seqfn, nsarg, uarg), lambda g, b: verify(g, b[len(name):]))
    edit_check(ctx, v, name, [(uarg, 0.0, 1.0, False)], lambda: ctx.call(seqfn, nsarg, uarg), lambda g, b: verify(g, b[len(name):], wants=qwants(now64(uarg))))


# ---- the polynomials through the sum evaluators (one coefficient set), at every kind of evaluation point -------------------------
# Every routine of the package that sums polynomials - the Clenshaw sums and the sag evaluators built on them - is documented for
# 'ndarray or float_like' coordinates (jacobi_sum_clenshaw*) or is handed them by its callers (a ray, a vertex, a single field point).
# With the coefficient of order n set to c and all others zero each of them is c times the polynomial of order n itself.
SUM_ROUTINES = ['jacobi_sum_clenshaw', 'jacobi_sum_clenshaw', 'jacobi_sum_clenshaw_der', 'clenshaw_qbfs', 'clenshaw_qbfs_der', 'compute_z_zprime_Qbfs',
                'compute_z_zprime_Qbfs', 'compute_z_zprime_Qcon', 'compute_z_zprime_Qcon', 'clenshaw_q2d', 'clenshaw_q2d_der', 'compute_z_zprime_Q2d',
                'compute_z_zprime_Q2d']
HOT = [1.0, 1.0, 1.0, 1.0, -1.0, 2.5, 1e-17, 1e30]          # the one coefficient: 1, and the magnitudes of real data (linear in it)
WITH_WORKSPACE = ('jacobi_sum_clenshaw', 'clenshaw_qbfs', 'clenshaw_q2d')


def strat_sums(tier):
    NQ = {'quick': 12, 'thorough': 20}[tier]
    return with_big_shapes(st.fixed_dictionaries({
        'fn': st.sampled_from(SUM_ROUTINES), 'n': orders(tier), 'nq': st.one_of(st.integers(0, NQ), st.integers(0, 4)), 'pad': st.sampled_from([0, 0, 0, 1, 3]),
        'p': ab_pairs7(), 'm': st.one_of(st.integers(-10, 10), st.sampled_from([0, 1, -1, 2, 3, 14, -20])), 'hot': st.sampled_from(HOT), 'j': st.integers(1, 3),
        'shape': point_shapes(), 'edge': st.booleans(), 'seed': U.seeds, 'v': variants()}), limit=12)


def check_sums(case, ctx):
    """jacobi_sum_clenshaw / jacobi_sum_clenshaw_der row 0, clenshaw_qbfs / clenshaw_qbfs_der row 0, clenshaw_q2d / clenshaw_q2d_der row 0 and the sag of
    compute_z_zprime_Qbfs / _Qcon / _Q2d with the coefficient of one order set to c (all others zero, possibly with trailing zero orders) equal c times the
    polynomial of that order - scipy's P_n^(a,b), Forbes' tabulated Qbfs (n <= 5; above: Qbfs on a float64 vector, pinned by qbfs_gram), u^4 P_n^(0,4)(2u^2-1),
    Q2d on float64 vectors (pinned by q2d_gram) - at Python floats / ints, numpy scalars, 0-D ... 3-D arrays of every dtype and layout the routine accepts,
    with or without a caller-supplied alphas= workspace (fresh, or used before by a call of the same shape)."""
    from prysm import polynomials as P
    from prysm.polynomials import qpoly as Q
    fn, shape, hot, pad, j = case['fn'], case['shape'], float(case['hot']), case['pad'], case['j']
    is_q2d = 'q2d' in fn.lower()
    is_jac = fn.startswith('jacobi')
    n = case['nq'] if is_q2d else case['n']
    if size_of(shape) > 65536 and n > 12:
        n = n % 13
    m = case['m']
    a, b = case['p']
    # compute_z_zprime_Q2d combines u and t: float coordinates only; the others allocate in the dtype of x (Python ints, complex arrays accepted)
    v = var_of(case, ('f64', 'f32')) if fn == 'compute_z_zprime_Q2d' else settle_sum_kind(var_of(case), shape)
    if v['cs_as'] in ('intlist', 'intarray'):
        hot = {1.0: 1, -1.0: -1, 2.5: 2}.get(hot, 3)
    if v['xkind'] == 'f32' and not 1e-6 < abs(hot) < 1e6:
        hot = 1.0 if isinstance(hot, float) else 1       # the magnitudes of real data are for double precision
    cs = [0.0 if isinstance(hot, float) else 0] * n + [hot] + [0.0 if isinstance(hot, float) else 0] * pad
    carg = contain(cs, v['cs_as'])
    lo = -1.0 if is_jac else 0.0
    x, base = make_points(case['seed'], shape, lo, 1.0, case['edge'], kind=v['xkind'])
    xarg = present(x, shape, v)
    xf = np.asarray(x, dtype=float)
    kind = v['xkind']
    ctx.label(fn, n_class(n), shape_label(shape), 'edge' if case['edge'] else 'interior', 'size>2^16' if size_of(shape) > 65536 else 'size<=2^16',
              'trailing-zero-orders' if pad else 'highest-order-set', 'cs-as:' + v['cs_as'], 'coefficient:%s' % ('1' if hot == 1 else 'order-1' if 1e-6 < abs(hot) < 1e6 else 'tiny' if abs(hot) < 1 else 'huge'),
              'n-as:' + v['n_as'])
    var_labels(ctx, v, shape)
    ctx.nt(True)
    rt = rtol_of(v, n, RT)
    use_buf = v['buf'] if fn in WITH_WORKSPACE else 'none'
    ctx.label('alphas=:' + use_buf)
    bsuf = '' if use_buf == 'none' else ':alphas-' + use_buf
    scal = ':scalar-point' if isinstance(shape, str) or len(shape) == 0 else ''
    kw = {}

    def workspace(rows, first):
        """alphas= of the documented shape (len(coefficients), *x.shape), in the dtype the routine would allocate; 'used': after `first(buffer)`"""
        if use_buf == 'none':
            return
        kw['alphas'] = np.zeros((rows,) + shape_tuple(shape), dtype=xarg.dtype if hasattr(xarg, 'dtype') else float)
        if use_buf == 'used':
            first(kw['alphas'])
    other = [0.5 - 0.25 * k for k in range(len(cs))]        # coefficients of the earlier user of the workspace: every order present
    sqbuf = []

    def sq():
        """u^2 as the caller holds it: one array, kept in step with u in place"""
        if not sqbuf:
            sqbuf.append(xarg * xarg)
        elif editable(sqbuf[0]):
            np.multiply(xarg, xarg, out=sqbuf[0])
        else:
            sqbuf[0] = xarg * xarg
        return sqbuf[0]
    coords = [(xarg, lo, 1.0, False)]
    if is_jac:
        ctx.label(ab_class7(a, b), 'params-as:' + v['p_as'], 'alpha=-beta!=0' if a == -b and a != 0 else 'alpha=beta' if a == b else 'alpha!=+-beta')
        aarg, barg = params_as([a, b], v)
        want_full = hot * sps.eval_jacobi(n, a, b, base)
        pcls = 'alpha=-beta!=0' if a == -b and a != 0 else 'alpha=beta' if a == b else 'general-parameters'
        what = '%s(s = %r at order %d of %d, a=%r, b=%r, x: %s %s)' % (fn, hot, n, len(cs), a, b, kind, shape_label(shape))
        if v['pre32']:
            with single_session(ctx, v):
                call(ctx, 'float32', getattr(P, fn), carg, a, b, single(v, xarg))
        prefail(ctx, v, getattr(P, fn), carg, aarg, barg, None)
        if fn == 'jacobi_sum_clenshaw':
            workspace(len(cs), lambda buf: ctx.call(P.jacobi_sum_clenshaw, other, b + 0.5, a + 0.25, xarg * 0.5, alphas=buf))
            got = call(ctx, n_class(n) + scal, P.jacobi_sum_clenshaw, carg, aarg, barg, xarg, **kw)

            def redo():
                return ctx.call(P.jacobi_sum_clenshaw, carg, aarg, barg, xarg, **kw)
        else:
            al = call(ctx, n_class(n) + scal, P.jacobi_sum_clenshaw_der, carg, aarg, barg, xarg, j=order_as(j, v))
            ctx.require(np.ndim(al) >= 2 and np.shape(al)[0] == j + 1, 'jacobi_sum_clenshaw_der:shape', 'alphas has shape %s, expected leading dimension j+1=%d' % (np.shape(al), j + 1))
            got = al[0][0]          # "alphas[0,0] will contain the sum of the polynomials"

            def redo():
                return ctx.call(P.jacobi_sum_clenshaw_der, carg, aarg, barg, xarg, j=order_as(j, v))[0][0]

        def want_now():
            return hot * sps.eval_jacobi(n, a, b, now64(xarg))
        bucket = '%s:one-coefficient:%s:%s%s%s' % (fn, pcls, 'n=0' if n == 0 else 'n=1' if n == 1 else 'n>=2', scal, bsuf)
        ref = 'scipy.special.eval_jacobi'
    elif not is_q2d:
        usq = sq()
        if 'Qcon' in fn:
            def want_at(un):
                return hot * un ** 4 * sps.eval_jacobi(n, 0, 4, 2 * un * un - 1)
            ref = 'u^4 P_n^(0,4)(2u^2-1)'
        else:
            def want_at(un):
                xx = un * un
                return hot * (xx * (1 - xx) * qbfs_table(n, xx) if n <= 5 else np.asarray(ctx.call(P.Qbfs, n, un.ravel().copy())).reshape(un.shape))
            ref = "u^2(1-u^2) times Forbes' tabulated polynomial" if n <= 5 else 'Qbfs(n, u) on a float64 vector'
        want_full = want_at(base)

        def want_now():
            return want_at(now64(xarg))
        what = '%s(cs = %r at order %d of %d, u: %s %s)' % (fn, hot, n, len(cs), kind, shape_label(shape))
        f = getattr(Q, fn)
        if fn.startswith('compute'):
            if v['pre32']:
                with single_session(ctx, v):
                    u32 = single(v, xarg)
                    call(ctx, 'float32', f, carg, u32, u32 * u32)
            prefail(ctx, v, f, carg, None, None)
            res = call(ctx, n_class(n) + scal, f, carg, xarg, usq)
            ctx.require(isinstance(res, tuple) and len(res) == 2, fn + ':return', 'expected (z, zprime)')
            got = res[0]

            def redo():
                return ctx.call(f, carg, xarg, sq())[0]
        elif fn == 'clenshaw_qbfs':
            if v['pre32']:
                with single_session(ctx, v):
                    u32 = single(v, xarg)
                    call(ctx, 'float32', Q.clenshaw_qbfs, carg, u32 * u32)
            workspace(len(cs), lambda buf: ctx.call(Q.clenshaw_qbfs, other, usq * 0.5, alphas=buf))
            prefail(ctx, v, f, carg, None)
            got = call(ctx, n_class(n) + scal, Q.clenshaw_qbfs, carg, usq, **kw)

            def redo():
                return ctx.call(Q.clenshaw_qbfs, carg, sq(), **kw)
        else:
            def from_alphas(al, xf):
                # documented: S = (x (1 - x)) 2 (alphas[0][0] + alphas[0][1]); a lone Q0 term is evaluated as [c0, 0]
                return (xf * xf) * (1 - xf * xf) * 2 * (al[0][0] + (al[0][1] if np.shape(al)[1] > 1 else 0))
            if v['pre32']:
                with single_session(ctx, v):
                    u32 = single(v, xarg)
                    call(ctx, 'float32', Q.clenshaw_qbfs_der, carg, u32 * u32, j=j)
            al = call(ctx, n_class(n) + scal, Q.clenshaw_qbfs_der, carg, usq, j=order_as(j, v))
            ctx.require(np.ndim(al) >= 2 and np.shape(al)[0] == j + 1, 'clenshaw_qbfs_der:shape', 'alphas has shape %s, expected leading dimension j+1=%d' % (np.shape(al), j + 1))
            got = from_alphas(al, xf)

            def redo():
                return from_alphas(ctx.call(Q.clenshaw_qbfs_der, carg, sq(), j=order_as(j, v)), now64(xarg))
        bucket = '%s:one-coefficient:%s%s%s' % (fn, 'n=0' if n == 0 else 'n=1' if n == 1 else 'n>=2', scal, bsuf)
    else:
        am = abs(m)
        if fn != 'compute_z_zprime_Q2d' and am == 0:
            am = m = 1          # the 2D-Q Clenshaw sums are for azimuthal orders >= 1 (m = 0 is the Qbfs sum)
        tk = 'f32' if kind == 'f32' else 'f64'
        t, tbase = make_points(case['seed'], shape, -math.pi, 2 * math.pi, False, salt=2, kind=tk)
        if tbase.size != base.size:         # all radii exactly 0 (v.xzero): the base vector of u is those zeros followed by eight points of the interval
            tbase = np.concatenate([tbase[:size_of(shape)], tbase[:base.size - size_of(shape)]])
        ctx.label('m=0' if m == 0 else 'm=1' if am == 1 else 'm=2,3' if am <= 3 else 'm=4..10' if am <= 10 else 'm>10', 'cosine' if m >= 0 else 'sine')
        if fn == 'compute_z_zprime_Q2d':
            want_full = hot * np.asarray(ctx.call(P.Q2d, n, m, base.copy(), tbase.copy()))
            cm0, ams, bms = q2d_table([(n, m)], 0, 'one')
            row = cm0 if m == 0 else ams[m - 1] if m > 0 else bms[-m - 1]
            row[n] = hot
            row += [0.0 if isinstance(hot, float) else 0] * pad
            if v['cs_as'] in ('intlist', 'intarray'):
                cm0, ams, bms = [int(c) for c in cm0], [[int(c) for c in r_] for r_ in ams], [[int(c) for c in r_] for r_ in bms]
            cargs = q2d_contain(cm0, ams, bms, v['cs_as'])
            targ = present(t, shape, v, layout=v['layout2'], kind=tk)
            what = 'compute_z_zprime_Q2d(coefficient of (n=%d, m=%d) = %r, u: %s %s)' % (n, m, hot, kind, shape_label(shape))
            if v['pre32']:
                with single_session(ctx, v):
                    call(ctx, 'float32', Q.compute_z_zprime_Q2d, *cargs, single(v, xarg), single(v, targ))
            prefail(ctx, v, Q.compute_z_zprime_Q2d, *cargs, None, None)
            res = call(ctx, ('m=0' if m == 0 else 'm!=0') + scal, Q.compute_z_zprime_Q2d, *cargs, xarg, targ)
            ctx.require(isinstance(res, tuple) and len(res) == 3, 'compute_z_zprime_Q2d:return', 'expected (z, dr, dt)')
            got = res[0]
            ref = 'Q2d(n, m, u, t) on float64 vectors'
            coords = coords + [(targ, -math.pi, 2 * math.pi, True)]

            def redo():
                return ctx.call(Q.compute_z_zprime_Q2d, *cargs, xarg, targ)[0]

            def want_now():
                un = now64(xarg)
                return hot * np.asarray(ctx.call(P.Q2d, n, m, un.ravel(), now64(targ).ravel())).reshape(un.shape)
        else:
            # sum c_n Q_n^m(u^2) from the alpha sums: .5 alphas[0] - 2/5 alphas[3] if m = 1 and N > 2, .5 alphas[0] otherwise; times u^m on the meridian t = 0
            want_full = hot * np.asarray(ctx.call(P.Q2d, n, am, base.copy(), np.zeros_like(base)))
            usq = sq()
            marg = order_as(am, v)
            what = '%s(cns = %r at order %d of %d, m=%d, usq: %s %s)' % (fn, hot, n, len(cs), am, kind, shape_label(shape))
            if v['pre32']:
                with single_session(ctx, v):
                    u32 = single(v, xarg)
                    call(ctx, 'float32', getattr(Q, fn), carg, am, u32 * u32)

            def alpha_rows(usq_, first):
                if fn == 'clenshaw_q2d':
                    return (call(ctx, n_class(n) + scal, Q.clenshaw_q2d, carg, marg, usq_, **kw) if first else ctx.call(Q.clenshaw_q2d, carg, marg, usq_, **kw))
                al = (call(ctx, n_class(n) + scal, Q.clenshaw_q2d_der, carg, marg, usq_, j=order_as(j, v)) if first else ctx.call(Q.clenshaw_q2d_der, carg, marg, usq_, j=order_as(j, v)))
                ctx.require(np.ndim(al) >= 2 and np.shape(al)[0] == j + 1, 'clenshaw_q2d_der:shape', 'alphas has shape %s, expected leading dimension j+1=%d' % (np.shape(al), j + 1))
                return al[0]

            def from_rows(rows, xf):
                ctx.require(np.shape(rows)[:1] == (len(cs),), fn + ':shape', 'alpha sums have shape %s, expected leading dimension %d' % (np.shape(rows), len(cs)))
                S = 0.5 * rows[0] - 2 / 5 * rows[3] if am == 1 and len(cs) - 1 > 2 else 0.5 * rows[0]
                return S * xf ** am
            if fn == 'clenshaw_q2d':
                workspace(len(cs), lambda buf: ctx.call(Q.clenshaw_q2d, other, am + 1, usq * 0.5, alphas=buf))
                prefail(ctx, v, Q.clenshaw_q2d, carg, marg, None)
            got = from_rows(alpha_rows(usq, True), xf)
            ref = 'Q2d(n, m, u, 0) on a float64 vector'

            def redo():
                return from_rows(alpha_rows(sq(), False), now64(xarg))

            def want_now():
                un = now64(xarg)
                return hot * np.asarray(ctx.call(P.Q2d, n, am, un.ravel(), np.zeros(un.size))).reshape(un.shape)
        bucket = '%s:one-coefficient:%s%s%s' % (fn, 'm=0' if m == 0 else 'm=1' if am == 1 else 'm>=2', scal, bsuf)
    want = shaped(want_full, shape)
    scale = max(float(np.max(np.abs(want_full))), abs(hot) * 1e-3)
    U.check_shape(got, np.shape(want), bucket, what)
    U.check_close(got, want, rt, bucket, what + ' vs %r times %s' % (hot, ref), atol=rt * scale)
    # the sums run through memoised tables (recurrence coefficients, f / g / h of Forbes, the change of basis of the coefficients)
    session_close(ctx, v, got, want, rt, bucket, what + ' (coefficients as %s) vs %r times %s' % (v['cs_as'], hot, ref), scale, factor=SESSION_FACTOR)

    def verify_now(g, b_):
        w_ = want_now()
        U.check_shape(g, np.shape(w_), b_, what)
        U.check_close(g, w_, rt, b_, what + ' vs %r times %s at the values the coordinate arrays hold now' % (hot, ref), atol=rt * scale)
    edit_check(ctx, v, bucket, coords, redo, verify_now)


# ---- slope orthonormality with the slopes taken point by point ----------------------------------------------------------
POINT_KINDS = ['pyfloat', 'pyfloat', 'np.float64', '0-d', 'len-1', 'np.float32']


def strat_pointwise(tier):
    return st.fixed_dictionaries({'route': st.sampled_from(['Qbfs', 'Qbfs', 'Q2d-cm0', 'Q2d']), 'N': st.integers(0, {'quick': 8, 'thorough': 14}[tier]),
                                  'm': st.one_of(st.integers(1, 4), st.sampled_from([1, 7])), 'how': st.sampled_from(POINT_KINDS)})


def check_pointwise(case, ctx):
    """Forbes' slope orthonormality with every slope taken at ONE evaluation point per call (Python float, numpy scalar, 0-D array, length-1 array):
    the sag evaluators with the coefficient of order n set to 1, called node by node of the Gauss-Chebyshev (x uniform theta) rule, return sags equal to
    Qbfs(n) / Q2d(n, m) on the node array and slopes whose Gram matrix under Forbes' inner product is the identity."""
    from prysm.polynomials import Qbfs, Q2d
    from prysm.polynomials.qpoly import compute_z_zprime_Qbfs, compute_z_zprime_Q2d
    route, N, how = case['route'], case['N'], case['how']
    if route == 'Q2d':
        N = min(N, 4)
    m = case['m'] if route == 'Q2d' else 0
    ctx.nt(True)
    ctx.label('route:' + route, 'point-as:' + how, 'N<=2' if N <= 2 else 'N>2')
    conv = {'pyfloat': float, 'np.float64': np.float64, 'np.float32': np.float32, '0-d': lambda q: np.array(float(q)), 'len-1': lambda q: np.array([float(q)])}[how]
    f32 = how == 'np.float32'
    tolg, tolv = (2e-3, 1e-4) if f32 else (1e-8, 1e-9)

    def num(q):
        q = np.asarray(q, dtype=float)
        ctx.require(q.size == 1, 'compute_z_zprime_%s:one-coefficient:single-point:shape' % ('Qbfs' if route == 'Qbfs' else 'Q2d'),
                    'one evaluation point (%s) gave an output of shape %s' % (how, q.shape))
        return float(q.reshape(-1)[0])
    if route in ('Qbfs', 'Q2d-cm0'):
        K = 2 * N + 8
        up = cheb_nodes(K)[:K // 2]
        if f32:
            up = up.astype(np.float32).astype(float)       # nodes exactly representable in single precision
        ctx.tally('gram_entries', (N + 1) ** 2)
        Z, D = np.zeros((N + 1, up.size)), np.zeros((N + 1, up.size))
        for n in range(N + 1):
            cs = [0.0] * n + [1.0]
            for k_, uk in enumerate(up):
                pt = conv(uk)
                if route == 'Qbfs':
                    res = call(ctx, 'single-point:' + how, compute_z_zprime_Qbfs, cs, pt, pt * pt)
                    ctx.require(isinstance(res, tuple) and len(res) == 2, 'compute_z_zprime_Qbfs:return', 'expected (z, zprime)')
                else:
                    res = call(ctx, 'single-point:' + how, compute_z_zprime_Q2d, cs, [], [], pt, conv(0.25 * k_))
                    ctx.require(isinstance(res, tuple) and len(res) == 3, 'compute_z_zprime_Q2d:return', 'expected (z, dr, dt)')
                Z[n, k_], D[n, k_] = num(res[0]), num(res[1])
            name = 'compute_z_zprime_Qbfs' if route == 'Qbfs' else 'compute_z_zprime_Q2d'
            U.check_close(Z[n], np.asarray(ctx.call(Qbfs, n, up)), tolv, name + ':one-coefficient:single-point:value',
                          '%s with the coefficient of order %d set to 1, evaluated one point (%s) at a time, vs Qbfs(%d, u) on the node array' % (name, n, how, n), atol=tolv)
        gram_assert(ctx, D @ D.T * 2 / K, np.eye(N + 1), tolg, lambda i, j_: (
            '%s:one-coefficient:single-point:slope-gram:%s' % (name, 'norm' if i == j_ else 'orthogonality'),
            "<S_%d', S_%d'>, the slopes returned by %s one point (%s) at a time" % (i, j_, name, how)))
        return
    modes = [(n, sg * m) for sg in (1, -1) for n in range(N + 1)]
    K = 2 * N + m + 10
    K += K % 2
    T = 2 * m + 3
    un = cheb_nodes(K)[:K // 2]
    th = 2 * np.pi * np.arange(T) / T
    if f32:
        un, th = un.astype(np.float32).astype(float), th.astype(np.float32).astype(float)
    Ug, Tg = np.meshgrid(un, th, indexing='ij')
    ctx.tally('gram_entries', len(modes) ** 2)
    rows = []
    for n, mm in modes:
        cm0, ams, bms = q2d_table([(n, mm)], 0, 'one')
        z, dr, dt = np.zeros(Ug.shape), np.zeros(Ug.shape), np.zeros(Ug.shape)
        for idx in np.ndindex(*Ug.shape):
            res = call(ctx, 'single-point:' + how, compute_z_zprime_Q2d, cm0, ams, bms, conv(Ug[idx]), conv(Tg[idx]))
            ctx.require(isinstance(res, tuple) and len(res) == 3, 'compute_z_zprime_Q2d:return', 'expected (z, dr, dt)')
            z[idx], dr[idx], dt[idx] = num(res[0]), num(res[1]), num(res[2])
        U.check_close(z, np.asarray(ctx.call(Q2d, n, mm, Ug, Tg)), tolv, 'compute_z_zprime_Q2d:one-coefficient:single-point:value',
                      'compute_z_zprime_Q2d with the coefficient of (n=%d, m=%d) set to 1, evaluated one point (%s) at a time, vs Q2d on the node grid' % (n, mm, how), atol=tolv)
        rows.append(np.concatenate([dr.ravel(), (dt / Ug).ravel()]))
    Da = np.array(rows)
    wgt = (np.pi / K) * (2 * np.pi / T) / np.pi ** 2
    gram_assert(ctx, Da @ Da.T * wgt, np.eye(len(modes)), tolg, lambda i, j_: (
        'compute_z_zprime_Q2d:one-coefficient:single-point:slope-gram:%s' % ('norm' if i == j_ else 'orthogonality'),
        '<grad Q%s, grad Q%s>, the gradients returned by compute_z_zprime_Q2d one point (%s) at a time' % (modes[i], modes[j_], how)))


CLAUSES = [
    HypClause('values_1d', strat_values, check_values, examples={'quick': 2000, 'thorough': 8000}, shards={'quick': 2, 'thorough': 8}),
    HypClause('dickson', strat_dickson, check_dickson, examples={'quick': 400, 'thorough': 2000}, shards={'quick': 2, 'thorough': 8}),
    HypClause('xy_hopkins', strat_xy, check_xy, examples={'quick': 400, 'thorough': 2000}, shards={'quick': 1, 'thorough': 2}),
    HypClause('zernike_value', strat_zernike, check_zernike, examples={'quick': 600, 'thorough': 3000}, shards={'quick': 2, 'thorough': 8}),
    HypClause('zernike_gram', strat_zernike_gram, check_zernike_gram, examples={'quick': 200, 'thorough': 1000}, shards={'quick': 2, 'thorough': 8}),
    EnumClause('zernike_gram_complete', enum_zernike_complete, check_zernike_complete, shards={'quick': 5, 'thorough': 9}),
    HypClause('jacobi_gram', strat_jacobi_gram, check_jacobi_gram, examples={'quick': 300, 'thorough': 1200}, shards={'quick': 2, 'thorough': 8}),
    HypClause('q_values', strat_q_values, check_q_values, examples={'quick': 600, 'thorough': 3000}, shards={'quick': 1, 'thorough': 4}),
    EnumClause('qbfs_gram', enum_qbfs_gram, check_qbfs_gram, shards={'quick': 4, 'thorough': 6}),
    HypClause('q2d_gram', strat_q2d_gram, check_q2d_gram, examples={'quick': 100, 'thorough': 500}, shards={'quick': 2, 'thorough': 8}),
    HypClause('jacobi_weight', strat_weight, check_weight, examples={'quick': 400, 'thorough': 2000}, shards={'quick': 1, 'thorough': 2}),
    HypClause('q2d_one_coefficient', strat_q2d_onehot, check_q2d_onehot, examples={'quick': 300, 'thorough': 1500}, shards={'quick': 1, 'thorough': 4}),
    HypClause('q2d_term_in_both_families', strat_q2d_twin, check_q2d_twin, examples={'quick': 300, 'thorough': 1500}, shards={'quick': 1, 'thorough': 4}),
    HypClause('values_seq', strat_seq, check_seq, examples={'quick': 500, 'thorough': 3000}, shards={'quick': 2, 'thorough': 8}),
    HypClause('sum_evaluators_one_coefficient', strat_sums, check_sums, examples={'quick': 1200, 'thorough': 6000}, shards={'quick': 2, 'thorough': 8}),
    HypClause('slopes_point_by_point', strat_pointwise, check_pointwise, examples={'quick': 60, 'thorough': 300}, shards={'quick': 2, 'thorough': 6}),
]
