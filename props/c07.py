"""C07 - polynomial bases equal their mathematical definitions and are orthogonal."""
import math
from fractions import Fraction

import numpy as np
from hypothesis import strategies as st
from scipy import special as sps

from vlib.core import HypClause, EnumClause
from vlib import util as U
# shared point / shape / parameter generators of the two polynomial properties live in c09
from props.c09 import H, make_points, shaped, point_shapes, shape_label, ab_pairs, ab_class, orders, n_class

RULE = ("Values: Hypothesis draws family, order (0..3 forced, otherwise uniform to 40 quick / 120 thorough; Zernike n to 30 / 60, "
        "Dickson n to 40 / 80, Q2d n to 12, |m| to 10; Gram matrices to N = 40 / 120 for the Jacobi family - capped at 40 when a weight "
        "exponent is below -0.9, where the Gauss-Jacobi rule itself degrades - complete Zernike sets to n = 14 / 44, Qbfs to 40 / 80), shape parameters (tabulated pairs, Chebyshev half-integers, alpha+beta in {0,-1}, reals in "
        "(-1,6]; Laguerre alpha in (-1,6]; Dickson alpha in [-3,3]) and the shape of the coordinate argument (Python float, "
        "0-D, 1-D, 2-D, 3-D, optionally holding the end points of the domain); coordinate values are expanded from a drawn "
        "integer.  Oracles: scipy.special.eval_* (second implementation), U_n -+ U_(n-1) and the closed trigonometric forms "
        "for Chebyshev 3rd/4th kind, exact rational arithmetic (fractions) for the Dickson closed sums and the Zernike radial "
        "factorial sum, the functional identity D_n(u+a/u,a)=u^n+(a/u)^n, x^m y^n, cos/sin(a t) r^b H^c, u^4 P_n^(0,4)(2u^2-1), "
        "Forbes' tabulated Qbfs n<=5.  Orthogonality: Gram matrices by quadrature that is exact for the degrees involved - "
        "Gauss-Jacobi (scipy.special.roots_jacobi) for the Jacobi family against the textbook norms h_n, Gauss-Legendre in r^2 "
        "times uniform theta for Zernike (unit RMS and mutual orthogonality, norm=True; (1+delta_m0)/(2n+2) for norm=False), "
        "Gauss-Chebyshev in u times uniform theta for the Qbfs / 2D-Q slope (gradient) inner products with slopes taken by "
        "complex step of the value routine.  For Qbfs n>5 and 2D-Q the definition is checked through its uniqueness theorem: "
        "complete sets n=0..N whose slope Gram matrix is the identity, each member a polynomial of degree n in u^2 (Chebyshev "
        "interpolation on [0,1]: no coefficient above n) with leading sign (-1)^n, are the Gram-Schmidt polynomials of Forbes.  "
        "Non-trivial = order >= 6 or non-tabulated shape parameter or scalar / N-D points or a Gram entry with m != n.")
ASSUMPTIONS = [
    "scipy.special eval_jacobi/legendre/chebyt/chebyu/hermite/hermitenorm/genlaguerre and roots_jacobi are correct to ~1e-13 "
    "for degree <= 120 (roots_jacobi is cross-checked per case against the exact zeroth moment and rejected otherwise)",
    "Python integer / Fraction arithmetic is exact",
    "complex-step differentiation of the Q value routines (pure arithmetic) gives their slopes to rounding",
    "Forbes' inner products: <f,g> = (2/pi) int_0^1 f g (1-u^2)^-1/2 du for Qbfs slopes, (1/pi^2) int int grad f . grad g "
    "(1-u^2)^-1/2 du dtheta for 2D-Q (oe-18-19-19700, oe-20-3-2483); leading sign (-1)^n follows from positive f_n in their recurrences",
]

RT = 1e-8   # relative to the largest |reference| over the drawn points; observed <= 1e-12 up to n = 200


def gram_assert(ctx, G, want, tol, describe):
    """max |G - want| <= tol, else fail with describe(i, j) -> (bucket, message) for the worst entry"""
    d = np.abs(G - want)
    if not np.all(d <= tol):
        i, j = np.unravel_index(int(np.argmax(np.where(np.isfinite(d), d, np.inf))), d.shape)
        bucket, msg = describe(int(i), int(j))
        ctx.fail(bucket, msg + ': got %.12g, expected %.12g (tol %.1g)' % (G[i, j], want[i, j], tol))
    return float(np.max(d))


# ---- one-variable families against scipy ------------------------------------------------------------
def fam_table():
    from prysm import polynomials as P
    return {
        'jacobi': (P.jacobi, (-1.0, 1.0)), 'legendre': (P.legendre, (-1.0, 1.0)),
        'cheby1': (P.cheby1, (-1.0, 1.0)), 'cheby2': (P.cheby2, (-1.0, 1.0)), 'cheby3': (P.cheby3, (-1.0, 1.0)), 'cheby4': (P.cheby4, (-1.0, 1.0)),
        'hermite_He': (P.hermite_He, (-4.0, 4.0)), 'hermite_H': (P.hermite_H, (-4.0, 4.0)), 'laguerre': (P.laguerre, (0.0, 20.0)),
    }


def ref_value(fam, n, p, x):
    if fam == 'jacobi':
        return sps.eval_jacobi(n, p[0], p[1], x)
    if fam == 'legendre':
        return sps.eval_legendre(n, x)
    if fam == 'cheby1':
        return sps.eval_chebyt(n, x)
    if fam == 'cheby2':
        return sps.eval_chebyu(n, x)
    if fam == 'cheby3':   # V_n = U_n - U_(n-1)
        return sps.eval_chebyu(n, x) - (sps.eval_chebyu(n - 1, x) if n else 0.0)
    if fam == 'cheby4':   # W_n = U_n + U_(n-1)
        return sps.eval_chebyu(n, x) + (sps.eval_chebyu(n - 1, x) if n else 0.0)
    if fam == 'hermite_He':
        return sps.eval_hermitenorm(n, x)
    if fam == 'hermite_H':
        return sps.eval_hermite(n, x)
    if fam == 'laguerre':
        return sps.eval_genlaguerre(n, p[0], x)
    raise ValueError(fam)


def trig_value(fam, n, x):
    th = np.arccos(x)
    return {'cheby1': lambda: np.cos(n * th), 'cheby2': lambda: np.sin((n + 1) * th) / np.sin(th),
            'cheby3': lambda: np.cos((n + 0.5) * th) / np.cos(th / 2), 'cheby4': lambda: np.sin((n + 0.5) * th) / np.sin(th / 2)}[fam]()


FAMS = ['jacobi', 'jacobi', 'jacobi', 'legendre', 'cheby1', 'cheby2', 'cheby3', 'cheby4', 'hermite_He', 'hermite_H', 'laguerre', 'laguerre']


def fam_params(fam):
    if fam == 'jacobi':
        return ab_pairs()
    if fam == 'laguerre':
        return st.one_of(st.sampled_from([0, 0.5, 1, 2, -0.5]), U.nice_float(-0.99, 6.0)).map(lambda a: [a])
    return st.just([])


HIGH_ORDERS = [150, 170, 171, 172, 200, 256, 300, 400, 500]     # still well inside the meaningful range of the recurrences
HIGH_FAMS = ('legendre', 'cheby1', 'cheby2', 'cheby3', 'cheby4')      # families whose scipy / trig references stay accurate there


def strat_values(tier):
    def n_of(fam):
        if fam in HIGH_FAMS:
            return st.one_of(orders(tier), orders(tier), orders(tier), st.sampled_from(HIGH_ORDERS))
        return orders(tier)
    return st.sampled_from(FAMS).flatmap(lambda fam: st.fixed_dictionaries({
        'fam': st.just(fam), 'n': n_of(fam), 'p': fam_params(fam), 'shape': point_shapes(), 'edge': st.booleans(), 'seed': U.seeds}))


def check_values(case, ctx):
    """jacobi / legendre / cheby1-4 / hermite_He / hermite_H / laguerre (n, ..., x) == scipy.special (and closed trig forms), shape of x kept."""
    fam, n, p, shape = case['fam'], case['n'], case['p'], case['shape']
    fn, (lo, hi) = fam_table()[fam]
    x, base = make_points(case['seed'], shape, lo, hi, case['edge'])
    ctx.label(fam, n_class(n), shape_label(shape), 'edge' if case['edge'] else 'interior')
    if fam == 'jacobi':
        ctx.label(ab_class(*p))
    ctx.nt(n >= 6 or shape == 'pyfloat' or len(shape) != 1 or (fam == 'jacobi' and ab_class(*p) != 'ab:tabulated') or
           (fam == 'laguerre' and p[0] not in (0, 0.5, 1)))
    want_full = ref_value(fam, n, p, base)
    scale = float(np.max(np.abs(want_full)))
    got = ctx.call(fn, n, *p, x)
    want = shaped(want_full, shape)
    bucket = '%s:%s' % (fam, n_class(n))
    U.check_shape(got, np.shape(want), bucket, '%s(%d, %s, x) for x of shape %s' % (fam, n, p, shape))
    U.check_close(got, want, RT, bucket, '%s(n=%d, params=%s) vs scipy.special' % (fam, n, p), atol=RT * scale)
    if fam in ('cheby1', 'cheby2', 'cheby3', 'cheby4'):
        inner = base[np.abs(base) <= 0.95]
        if inner.size:
            g = ctx.call(fn, n, inner)
            t = trig_value(fam, n, inner)
            U.check_close(g, t, RT, bucket + ':trig', '%s(n=%d) vs closed trigonometric form' % (fam, n), atol=RT * float(np.max(np.abs(t))))
        # normalisation at the end points, exactly as the definitions fix it
        one = {'cheby1': 1.0, 'cheby2': n + 1.0, 'cheby3': 1.0, 'cheby4': 2 * n + 1.0}[fam]
        mone = {'cheby1': (-1.0) ** n, 'cheby2': (-1.0) ** n * (n + 1), 'cheby3': (-1.0) ** n * (2 * n + 1), 'cheby4': (-1.0) ** n}[fam]
        ends = ctx.call(fn, n, np.array([1.0, -1.0]))
        U.check_close(ends, np.array([one, mone]), 1e-9, bucket + ':endpoints', '%s(n=%d) at x=+1,-1' % (fam, n))


# ---- Dickson ---------------------------------------------------------------------------------------
def dickson_exact(kind, n, a, x):
    """closed sums in exact rational arithmetic: D_n = sum n/(n-i) C(n-i,i) (-a)^i x^(n-2i), E_n = sum C(n-i,i) (-a)^i x^(n-2i)"""
    a = Fraction(a)
    out = []
    for xv in np.ravel(x):
        X = Fraction(float(xv))
        if n == 0:
            out.append(2.0 if kind == 1 else 1.0)
            continue
        tot = Fraction(0)
        for i in range(n // 2 + 1):
            c = math.comb(n - i, i)
            if kind == 1:
                c = Fraction(n * c, n - i)
            tot += c * (-a) ** i * X ** (n - 2 * i)
        out.append(float(tot))
    return np.array(out)


def strat_dickson(tier):
    N = {'quick': 40, 'thorough': 80}[tier]
    return st.fixed_dictionaries({
        'kind': st.sampled_from([1, 2]), 'n': st.one_of(st.sampled_from([0, 1, 2, 3]), st.integers(0, N)),
        'a': st.one_of(st.sampled_from([-1, 0, 1, 2, -2, 0.5]), U.nice_float(-3.0, 3.0)),
        'shape': point_shapes(), 'edge': st.booleans(), 'seed': U.seeds})


def check_dickson(case, ctx):
    """dickson1 / dickson2 == closed sums (exact rational arithmetic) and D_n(u + a/u, a) == u^n + (a/u)^n."""
    from prysm.polynomials import dickson1, dickson2
    kind, n, a, shape = case['kind'], case['n'], case['a'], case['shape']
    fn = dickson1 if kind == 1 else dickson2
    x, base = make_points(case['seed'], shape, -3.0, 3.0, case['edge'], edges=(0.0, 3.0))
    ctx.label('dickson%d' % kind, n_class(n), shape_label(shape), 'a=0' if a == 0 else 'a<0' if a < 0 else 'a>0')
    ctx.nt(n >= 6 or a not in (-1, 0, 1) or shape == 'pyfloat' or len(shape) != 1)
    want_full = dickson_exact(kind, n, a, base)
    got = ctx.call(fn, n, a, x)
    want = shaped(want_full, shape)
    bucket = 'dickson%d:%s' % (kind, n_class(n))
    U.check_shape(got, np.shape(want), bucket, 'dickson%d(%d, %r, x) for x of shape %s' % (kind, n, a, shape))
    U.check_close(got, want, RT, bucket, 'dickson%d(n=%d, alpha=%r) vs exact closed sum' % (kind, n, a), atol=RT * float(np.max(np.abs(want_full))))
    if kind == 1:
        r = U.rng_of(case['seed'], 9)
        u = r.uniform(0.5, 2.0, 8) * r.choice([-1.0, 1.0], 8)
        lhs = ctx.call(dickson1, n, a, u + a / u)
        rhs = u ** n + (a / u) ** n
        U.check_close(lhs, rhs, RT, bucket + ':identity', 'D_n(u + a/u, a) = u^n + (a/u)^n, n=%d, a=%r' % (n, a), atol=RT * float(np.max(np.abs(rhs))))


# ---- XY monomials and Hopkins -------------------------------------------------------------------------
def strat_xy(tier):
    e = st.one_of(st.sampled_from([0, 0, 1, 2]), st.integers(0, 12))
    s = st.integers(1, 6)
    return st.fixed_dictionaries({
        'fn': st.sampled_from(['xy', 'xy', 'hopkins']), 'm': e, 'n': e, 'a': st.integers(-6, 6), 'b': e, 'c': e,
        'grid': st.sampled_from(['mesh', 'mesh', 'free']), 'gshape': st.tuples(s, s).map(list), 'shape': point_shapes(), 'seed': U.seeds})


def ipow(x, k):
    out = np.ones_like(np.asarray(x, dtype=float))
    for _ in range(k):
        out = out * x
    return out


def check_xy(case, ctx):
    """xy(m, n, x, y) == x^m y^n (meshgrid with cartesian_grid=True, any shape with False); hopkins(a,b,c,r,t,H) == cos/sin(|a| t) r^b H^c."""
    from prysm.polynomials import xy, hopkins
    r = U.rng_of(case['seed'], 1)
    if case['fn'] == 'xy':
        m, n, grid = case['m'], case['n'], case['grid']
        ctx.label('xy', 'grid:' + grid, 'zero-exponent' if 0 in (m, n) else 'exponents>0')
        ctx.nt(m + n >= 6 or 0 in (m, n) or grid == 'free')
        if grid == 'mesh':
            ny, nx = case['gshape']
            xv, yv = r.uniform(-2, 2, nx), r.uniform(-2, 2, ny)
            x, y = np.meshgrid(xv, yv)
            ctx.label('square' if ny == nx else 'non-square')
            got = ctx.call(xy, m, n, x, y)
        else:
            shape = case['shape']
            ctx.label(shape_label(shape))
            x, _ = make_points(case['seed'], shape, -2.0, 2.0, False, salt=1)
            y, _ = make_points(case['seed'], shape, -2.0, 2.0, False, salt=2)
            got = ctx.call(xy, m, n, x, y, cartesian_grid=False)
        want = ipow(x, m) * ipow(y, n)
        U.check_shape(got, np.shape(want), 'xy', 'xy(%d,%d) %s' % (m, n, grid))
        U.check_close(got, want, 1e-12, 'xy', 'xy(m=%d, n=%d) vs x^m y^n' % (m, n))
    else:
        a, b, c, shape = case['a'], case['b'], case['c'], case['shape']
        ctx.label('hopkins', 'a<0' if a < 0 else 'a=0' if a == 0 else 'a>0', shape_label(shape))
        ctx.nt(True)
        rr, _ = make_points(case['seed'], shape, 0.0, 1.0, True, salt=1)
        t, _ = make_points(case['seed'], shape, -math.pi, 2 * math.pi, False, salt=2)
        Hh, _ = make_points(case['seed'], shape, -1.0, 1.0, False, salt=3)
        got = ctx.call(hopkins, a, b, c, rr, t, Hh)
        az = np.sin(abs(a) * np.asarray(t)) if a < 0 else np.cos(a * np.asarray(t))
        want = az * ipow(rr, b) * ipow(Hh, c)
        U.check_shape(got, np.shape(want), 'hopkins', 'hopkins(%d,%d,%d)' % (a, b, c))
        U.check_close(got, want, 1e-12, 'hopkins', 'hopkins(a=%d, b=%d, c=%d) vs cos/sin(|a| t) r^b H^c' % (a, b, c), atol=1e-15)


# ---- Zernike -------------------------------------------------------------------------------------------
def zernike_radial_exact(n, am, r):
    """R_n^|m|(r) = sum_k (-1)^k (n-k)! / (k! ((n+|m|)/2-k)! ((n-|m|)/2-k)!) r^(n-2k), exact rational arithmetic"""
    f = math.factorial
    out = []
    for rv in np.ravel(r):
        R = Fraction(float(rv))
        tot = Fraction(0)
        for k in range((n - am) // 2 + 1):
            c = Fraction((-1) ** k * f(n - k), f(k) * f((n + am) // 2 - k) * f((n - am) // 2 - k))
            tot += c * R ** (n - 2 * k)
        out.append(float(tot))
    return np.array(out)


def nm_pairs(nmax):
    return st.one_of(st.integers(0, nmax), st.integers(0, 8)).flatmap(lambda n: st.integers(0, n).map(lambda k: [n, -n + 2 * k]))


def strat_zernike(tier):
    nmax = {'quick': 30, 'thorough': 60}[tier]
    return st.fixed_dictionaries({'nm': nm_pairs(nmax), 'norm': st.booleans(), 'shape': point_shapes(), 'edge': st.booleans(), 'seed': U.seeds})


def check_zernike(case, ctx):
    """zernike_nm(n, m, r, t, norm) == N_nm R_n^|m|(r) cos(m t) | sin(|m| t), R from the explicit factorial sum, N = sqrt(2(n+1)/(1+delta_m0))."""
    from prysm.polynomials import zernike_nm, zernike_norm
    (n, m), norm, shape = case['nm'], case['norm'], case['shape']
    am = abs(m)
    r, rbase = make_points(case['seed'], shape, 0.0, 1.0, case['edge'], salt=1)
    t, tbase = make_points(case['seed'], shape, -math.pi, 2 * math.pi, False, salt=2)
    ctx.label(n_class(n), 'm=0' if m == 0 else 'm<0' if m < 0 else 'm>0', 'norm' if norm else 'no-norm', shape_label(shape),
              'edge' if case['edge'] else 'interior')
    ctx.nt(n >= 6 or shape == 'pyfloat' or len(shape) != 1)
    az = np.ones_like(tbase) if m == 0 else np.sin(am * tbase) if m < 0 else np.cos(m * tbase)
    N = math.sqrt(2 * (n + 1) / (2 if m == 0 else 1)) if norm else 1.0
    want_full = N * zernike_radial_exact(n, am, rbase) * az
    got = ctx.call(zernike_nm, n, m, r, t, norm=norm)
    want = shaped(want_full, shape)
    bucket = 'zernike_nm:%s' % ('m=0' if m == 0 else 'm!=0')
    U.check_shape(got, np.shape(want), bucket, 'zernike_nm(%d,%d) for r of shape %s' % (n, m, shape))
    U.check_close(got, want, RT, bucket, 'zernike_nm(n=%d, m=%d, norm=%s) vs explicit radial sum' % (n, m, norm), atol=RT * N)
    zn = ctx.call(zernike_norm, n, m)
    ctx.require(abs(zn - math.sqrt(2 * (n + 1) / (2 if m == 0 else 1))) <= 1e-12 * zn, 'zernike_norm',
                'zernike_norm(%d,%d) = %r' % (n, m, zn))


def disk_quadrature(nmax, mmax):
    """Gauss-Legendre in s = r^2 on [0,1] times uniform theta; exact for products of two Zernikes of order <= nmax: returns r, t (2-D), w with sum(w)=1"""
    K = nmax // 2 + 2
    T = 2 * mmax + 3
    xs, ws = np.polynomial.legendre.leggauss(K)
    s = (xs + 1) / 2
    ws = ws / 2
    th = 2 * np.pi * np.arange(T) / T
    R, TH = np.meshgrid(np.sqrt(s), th, indexing='ij')
    W = np.repeat(ws[:, None], T, axis=1) / T
    return R, TH, W


def zernike_gram_check(ctx, nms, norm, bucket):
    from prysm.polynomials import zernike_nm
    nmax = max(n for n, _ in nms)
    mmax = max(abs(m) for _, m in nms)
    R, TH, W = disk_quadrature(nmax, mmax)
    Z = np.array([ctx.call(zernike_nm, n, m, R, TH, norm=norm).ravel() for n, m in nms])
    G = (Z * W.ravel()) @ Z.T
    want = np.diag([1.0 if norm else (2 if m == 0 else 1) / (2 * (n + 1)) for n, m in nms])

    def describe(i, j):
        which = 'rms' if i == j else 'same-m' if nms[i][1] == nms[j][1] else 'same-|m|' if abs(nms[i][1]) == abs(nms[j][1]) else 'different-m'
        return '%s:%s' % (bucket, which), 'disk mean of Z%s * Z%s (norm=%s)' % (tuple(nms[i]), tuple(nms[j]), norm)
    return gram_assert(ctx, G, want, 1e-9, describe)


def strat_zernike_gram(tier):
    nmax = {'quick': 24, 'thorough': 60}[tier]
    def same_m(t):   # a radial family: same m, several n (the non-trivial orthogonality)
        m, n0, k = t
        return [[abs(m) + 2 * (n0 + i), m] for i in range(k)]
    fam = st.tuples(st.integers(-10, 10), st.integers(0, 4), st.integers(2, 5)).map(same_m)
    free = st.lists(nm_pairs(nmax), min_size=2, max_size=12)
    return st.fixed_dictionaries({'nms': st.tuples(fam, free).map(lambda t: t[0] + t[1]), 'norm': st.sampled_from([True, True, False])})


def check_zernike_gram(case, ctx):
    """disk mean of Z_j Z_k == delta_jk (unit RMS, orthogonal) for drawn mode subsets containing a same-m radial family; exact quadrature."""
    nms = []
    for e in case['nms']:
        if list(e) not in nms:
            nms.append(list(e))
    ctx.nt(True)
    ctx.label('norm' if case['norm'] else 'no-norm', 'modes=%d' % (len(nms) // 4 * 4))
    ctx.tally('gram_entries', len(nms) ** 2)
    zernike_gram_check(ctx, nms, case['norm'], 'zernike_gram')


def enum_zernike_complete(tier):
    for N in {'quick': [3, 6, 10, 14], 'thorough': [3, 6, 10, 14, 20, 28, 36, 44]}[tier]:
        yield {'N': N, 'norm': True}
    yield {'N': 8, 'norm': False}


def check_zernike_complete(case, ctx):
    """the complete set of all (n,m), n <= N, is orthonormal over the unit disk."""
    N = case['N']
    nms = [[n, m] for n in range(N + 1) for m in range(-n, n + 1, 2)]
    ctx.nt(True)
    ctx.tally('gram_entries', len(nms) ** 2)
    zernike_gram_check(ctx, nms, case['norm'], 'zernike_gram')


# ---- Jacobi family orthogonality -------------------------------------------------------------------------
def jacobi_h(n, a, b):
    """textbook squared norm of P_n^(a,b) under (1-x)^a (1+x)^b (DLMF 18.3.1)"""
    if n == 0:
        return math.exp((a + b + 1) * math.log(2) + math.lgamma(a + 1) + math.lgamma(b + 1) - math.lgamma(a + b + 2))
    return math.exp((a + b + 1) * math.log(2) - math.log(2 * n + a + b + 1) + math.lgamma(n + a + 1) + math.lgamma(n + b + 1)
                    - math.lgamma(n + a + b + 1) - math.lgamma(n + 1))


GRAM_FAMS = {'legendre': (0.0, 0.0), 'cheby1': (-0.5, -0.5), 'cheby2': (0.5, 0.5), 'cheby3': (-0.5, 0.5), 'cheby4': (0.5, -0.5)}


def family_h(fam, n, a, b):
    if fam == 'jacobi':
        return jacobi_h(n, a, b)
    if fam == 'legendre':
        return 2.0 / (2 * n + 1)
    if fam == 'cheby1':
        return math.pi if n == 0 else math.pi / 2
    if fam == 'cheby2':
        return math.pi / 2
    return math.pi   # cheby3, cheby4


def strat_jacobi_gram(tier):
    N = {'quick': 40, 'thorough': 120}[tier]
    fam = st.sampled_from(['jacobi', 'jacobi', 'jacobi', 'legendre', 'cheby1', 'cheby2', 'cheby3', 'cheby4'])
    return fam.flatmap(lambda f: st.fixed_dictionaries({
        'fam': st.just(f), 'p': ab_pairs() if f == 'jacobi' else st.just([]), 'N': st.one_of(st.integers(1, N), st.integers(1, 12))}))


def check_jacobi_gram(case, ctx):
    """int (1-x)^a (1+x)^b P_m P_n dx == h_n delta_mn for all m,n <= N (Gauss-Jacobi with N+1 nodes, exact), textbook h_n."""
    fam, p, N = case['fam'], case['p'], case['N']
    fn = fam_table()[fam][0]
    a, b = p if fam == 'jacobi' else GRAM_FAMS[fam]
    if min(a, b) < -0.9:
        # the Gauss-Jacobi rule itself (scipy) loses accuracy for an exponent near -1 at high degree (observed 6e-9 at N=120,
        # 6e-10 at N=40 for -0.99): keep the oracle 100x more accurate than the tolerance
        N = min(N, 40)
    ctx.label(fam, 'N<=12' if N <= 12 else 'N<=40' if N <= 40 else 'N>40')
    if fam == 'jacobi':
        ctx.label(ab_class(a, b))
    ctx.nt(True)
    ctx.tally('gram_entries', (N + 1) ** 2)
    xg, wg = sps.roots_jacobi(N + 1, a, b)
    mu0 = jacobi_h(0, a, b)
    if not (np.all(np.isfinite(xg)) and np.all(np.isfinite(wg)) and abs(float(np.sum(wg)) - mu0) <= 1e-11 * mu0):
        ctx.exclude('scipy roots_jacobi does not reproduce the zeroth moment to 1e-11')
    V = np.array([np.broadcast_to(ctx.call(fn, n, *p, xg), xg.shape) for n in range(N + 1)])
    G = (V * wg) @ V.T
    h = np.array([family_h(fam, n, a, b) for n in range(N + 1)])
    Gn = G / np.sqrt(np.outer(h, h))
    gram_assert(ctx, Gn, np.eye(N + 1), 1e-7, lambda i, j: (
        '%s_gram:%s' % (fam, 'norm' if i == j else 'orthogonality'), '<%s_%d, %s_%d> / sqrt(h_%d h_%d) (a=%r, b=%r)' % (fam, i, fam, j, i, j, a, b)))


# ---- Forbes polynomials -------------------------------------------------------------------------------------
def qbfs_table(n, x):
    s = math.sqrt
    return [lambda: 1 + 0 * x,
            lambda: (13 - 16 * x) / s(19),
            lambda: s(2 / 95) * (29 - 4 * x * (25 - 19 * x)),
            lambda: s(2 / 2545) * (207 - 4 * x * (315 - x * (577 - 320 * x))),
            lambda: (7737 - 16 * x * (4653 - 2 * x * (7381 - 8 * x * (1168 - 509 * x)))) / (3 * s(131831)),
            lambda: (66657 - 32 * x * (28338 - x * (135325 - 8 * x * (35884 - x * (34661 - 12432 * x))))) / (3 * s(6632213))][n]()


def strat_q_values(tier):
    return st.fixed_dictionaries({
        'fn': st.sampled_from(['Qcon', 'Qbfs', 'Qbfs', 'Q2d']), 'n': orders(tier), 'n5': st.integers(0, 5), 'nq': st.integers(0, 12),
        'm': st.integers(-10, 10), 'shape': point_shapes(), 'edge': st.booleans(), 'seed': U.seeds})


def check_q_values(case, ctx):
    """Qcon == u^4 P_n^(0,4)(2u^2-1) (scipy); Qbfs n<=5 == Forbes' tabulated polynomials; Qbfs / Q2d are point functions (any shape == flat evaluation), Q2d(n,0) == Qbfs(n)."""
    from prysm.polynomials import Qbfs, Qcon, Q2d
    fn, shape = case['fn'], case['shape']
    u, base = make_points(case['seed'], shape, 0.0, 1.0, case['edge'], salt=1)
    ctx.label(fn, shape_label(shape), 'edge' if case['edge'] else 'interior')
    if fn == 'Qcon':
        n = case['n']
        ctx.label(n_class(n))
        ctx.nt(n >= 6 or shape == 'pyfloat' or len(shape) != 1)
        want_full = base ** 4 * sps.eval_jacobi(n, 0, 4, 2 * base * base - 1)
        got = ctx.call(Qcon, n, u)
        want = shaped(want_full, shape)
        U.check_shape(got, np.shape(want), 'Qcon', 'Qcon(%d, u) for u of shape %s' % (n, shape))
        U.check_close(got, want, RT, 'Qcon:' + n_class(n), 'Qcon(n=%d) vs u^4 P_n^(0,4)(2u^2-1)' % n, atol=RT * float(np.max(np.abs(want_full))))
    elif fn == 'Qbfs':
        n = case['n5']
        ctx.label('n=%d' % n)
        ctx.nt(shape == 'pyfloat' or len(shape) != 1 or n >= 2)
        x = base * base
        want_full = x * (1 - x) * qbfs_table(n, x)
        got = ctx.call(Qbfs, n, u)
        want = shaped(want_full, shape)
        U.check_shape(got, np.shape(want), 'Qbfs', 'Qbfs(%d, u) for u of shape %s' % (n, shape))
        U.check_close(got, want, 1e-10, 'Qbfs:table', 'Qbfs(n=%d) vs u^2(1-u^2) times Forbes tabulated Q_%d^bfs(u^2)' % (n, n), atol=1e-10)
        # higher orders: same value whatever the shape of the argument
        n2 = case['n']
        flat = ctx.call(Qbfs, n2, base.copy())
        got2 = ctx.call(Qbfs, n2, u)
        U.check_shape(got2, np.shape(want), 'Qbfs', 'Qbfs(%d, u) for u of shape %s' % (n2, shape))
        U.check_close(got2, shaped(flat, shape), 1e-13, 'Qbfs:shape-dependence', 'Qbfs(n=%d) on shape %s vs the same points as a vector' % (n2, shape),
                      atol=1e-13 * float(np.max(np.abs(flat))))
    else:
        n, m = case['nq'], case['m']
        ctx.label('m=0' if m == 0 else 'm<0' if m < 0 else 'm>0')
        ctx.nt(True)
        t, tbase = make_points(case['seed'], shape, -math.pi, 2 * math.pi, False, salt=2)
        flat = ctx.call(Q2d, n, m, base.copy(), tbase.copy())
        got = ctx.call(Q2d, n, m, u, t)
        U.check_shape(got, np.shape(shaped(flat, shape)), 'Q2d', 'Q2d(%d,%d) for u of shape %s' % (n, m, shape))
        U.check_close(got, shaped(flat, shape), 1e-13, 'Q2d:shape-dependence', 'Q2d(n=%d, m=%d) on shape %s vs the same points as a vector' % (n, m, shape),
                      atol=1e-13 * float(np.max(np.abs(flat))))
        if m == 0:
            U.check_close(flat, ctx.call(Qbfs, n, base.copy()), 1e-13, 'Q2d:m=0', 'Q2d(n,0) must be Qbfs(n)')
        else:
            # azimuthal factor of the definition: u^|m| cos(m t) / sin(|m| t) times a function of u alone
            t0 = np.full_like(base, 0.3)
            ref = ctx.call(Q2d, n, abs(m), base.copy(), t0) / math.cos(abs(m) * 0.3)
            az = np.sin(abs(m) * tbase) if m < 0 else np.cos(m * tbase)
            U.check_close(flat, ref * az, 1e-12, 'Q2d:azimuthal', 'Q2d(n=%d, m=%d) = radial part * %s(|m| t)' % (n, m, 'sin' if m < 0 else 'cos'),
                          atol=1e-12 * float(np.max(np.abs(ref))))


def cheb_nodes(K):
    k = np.arange(1, K + 1)
    return np.cos((2 * k - 1) * np.pi / (2 * K))     # Gauss-Chebyshev: int_-1^1 f (1-u^2)^-1/2 du = pi/K sum f(u_k), exact for deg <= 2K-1


def poly_degree_and_sign(ctx, f, n, bucket, what):
    """f: a function of x=u^2 on (0,1).  Its Chebyshev expansion on [0,1] (interpolation at n+9 Chebyshev points, well conditioned)
    must stop at degree n, and the coefficient of T_n(2x-1) - whose sign is that of the coefficient of x^n - has sign (-1)^n."""
    c = np.polynomial.chebyshev.chebinterpolate(lambda y: f((y + 1) / 2), n + 8)
    top = float(np.max(np.abs(c)))
    lead = float(c[n])
    tail = float(np.max(np.abs(c[n + 1:])))
    ctx.require(tail <= 1e-9 * top, bucket + ':degree', '%s: Chebyshev coefficients above degree %d reach %.3g (largest coefficient %.3g)' % (what, n, tail, top))
    ctx.require(abs(lead) >= 1e-6 * top, bucket + ':degree', '%s: coefficient of degree %d is %.3g (largest %.3g): degree < %d' % (what, n, lead, top, n))
    ctx.require((lead > 0) == (n % 2 == 0), bucket + ':sign', '%s: leading coefficient %.6g, expected sign (-1)^%d' % (what, lead, n))
    return tail / top, abs(lead) / top


def enum_qbfs_gram(tier):
    for N in {'quick': [5, 12, 24, 40], 'thorough': [5, 12, 24, 40, 60, 80]}[tier]:
        yield {'N': N}


def check_qbfs_gram(case, ctx):
    """(2/pi) int_0^1 S_m' S_n' (1-u^2)^-1/2 du == delta_mn for S_n = Qbfs(n,u), n <= N (slopes by complex step); degree n and sign (-1)^n in u^2."""
    from prysm.polynomials import Qbfs
    N = case['N']
    ctx.nt(True)
    ctx.tally('gram_entries', (N + 1) ** 2)
    K = 2 * N + 8      # integrand degree <= 2(2N+3) = 4N+6 <= 2K-1
    un = cheb_nodes(K)
    D = np.array([np.imag(ctx.call(Qbfs, n, un + 1j * H)) / H for n in range(N + 1)])
    G = D @ D.T / K     # (2/pi) * (1/2) * (pi/K) * sum over the symmetric nodes
    gram_assert(ctx, G, np.eye(N + 1), 1e-8, lambda i, j: ('Qbfs_gram:%s' % ('norm' if i == j else 'orthogonality'), "<S_%d', S_%d'>" % (i, j)))
    for n in range(0, N + 1, max(1, N // 12)):
        def q(z, n=n):
            return Qbfs(n, np.sqrt(z)) / (z * (1 - z))
        poly_degree_and_sign(ctx, q, n, 'Qbfs', 'Qbfs(%d,u)/(u^2(1-u^2)) as a polynomial in u^2' % n)


def strat_q2d_gram(tier):
    NN = {'quick': 8, 'thorough': 12}[tier]
    fam = st.tuples(st.integers(0, 10), st.integers(0, NN)).map(list)
    return st.fixed_dictionaries({'fams': st.lists(fam, min_size=1, max_size=4, unique_by=lambda t: t[0])})


def check_q2d_gram(case, ctx):
    """(1/pi^2) int int grad Q_n^m . grad Q_n'^m' (1-u^2)^-1/2 du dt == delta for complete radial sets n=0..N of the drawn |m| (cos and sin); degree, sign."""
    from prysm.polynomials import Q2d
    fams = case['fams']
    modes = []
    for am, N in fams:
        for sgn in ((1,) if am == 0 else (1, -1)):
            modes += [(n, sgn * am) for n in range(N + 1)]
    ctx.nt(True)
    ctx.tally('gram_entries', len(modes) ** 2)
    for am, N in fams:
        ctx.label('m=0' if am == 0 else 'm=1' if am == 1 else 'm=2,3' if am <= 3 else 'm>3')
    nmax = max(N for _, N in fams)
    mmax = max(am for am, _ in fams)
    K = 2 * nmax + mmax + 10     # degree in u of a product of two gradients <= 2 (2 nmax + mmax + 3)
    K += K % 2                   # even: no node at u = 0
    T = 2 * mmax + 3
    un = cheb_nodes(K)
    th = 2 * np.pi * np.arange(T) / T
    Ug, Tg = np.meshgrid(un, th, indexing='ij')
    rows = []
    for n, m in modes:
        dr = np.imag(ctx.call(Q2d, n, m, Ug + 1j * H, Tg + 0j)) / H
        dt = np.imag(ctx.call(Q2d, n, m, Ug + 0j, Tg + 1j * H)) / H / Ug
        rows.append(np.concatenate([dr.ravel(), dt.ravel()]))
    D = np.array(rows)
    G = D @ D.T * (np.pi / K) * (2 * np.pi / T) / 2 / np.pi ** 2
    gram_assert(ctx, G, np.eye(len(modes)), 1e-8, lambda i, j: (
        'Q2d_gram:%s' % ('norm' if i == j else 'orthogonality'), '<grad Q%s, grad Q%s>' % (modes[i], modes[j])))
    for am, N in fams:
        if am == 0:
            continue
        for n in sorted({0, 1, N // 2, N}):
            def q(z, n=n, am=am):
                u = np.sqrt(z)
                return Q2d(n, am, u, np.zeros_like(u)) / u ** am
            poly_degree_and_sign(ctx, q, n, 'Q2d', 'Q2d(%d,%d,u,0)/u^%d as a polynomial in u^2' % (n, am, am))



# ---- sequence evaluators against the same independent definitions ----------------------------------------
def _order_list(tier):
    top = {'quick': 40, 'thorough': 100}[tier]
    return st.one_of(
        st.tuples(st.integers(0, 3), st.integers(1, 10)).map(lambda t: list(range(t[0], t[0] + t[1]))),
        st.lists(st.integers(0, top), min_size=1, max_size=8, unique=True).map(sorted),
        st.integers(0, top).map(lambda n: [n]))


def strat_seq(tier):
    nmax = {'quick': 20, 'thorough': 40}[tier]
    one_d = st.sampled_from(FAMS).flatmap(lambda fam: st.fixed_dictionaries({
        'kind': st.just('1d'), 'fam': st.just(fam), 'ns': _order_list(tier), 'p': fam_params(fam), 'npts': st.integers(1, 9), 'seed': U.seeds,
        'pre32': st.booleans()}))
    zern = st.fixed_dictionaries({'kind': st.just('zernike'), 'nms': st.lists(nm_pairs(nmax), min_size=1, max_size=8), 'both_signs': st.booleans(),
                                  'norm': st.booleans(), 'npts': st.integers(1, 9), 'seed': U.seeds})
    q2d = st.fixed_dictionaries({'kind': st.just('q2d'), 'nms': st.lists(st.tuples(st.integers(0, 8), st.integers(-8, 8)).map(list), min_size=1, max_size=7),
                                 'npts': st.integers(1, 9), 'seed': U.seeds})
    q1d = st.fixed_dictionaries({'kind': st.sampled_from(['qbfs', 'qcon']), 'ns': _order_list('quick'), 'npts': st.integers(1, 9), 'seed': U.seeds})
    return st.one_of(one_d, one_d, zern, zern, q2d, q1d)


def check_seq(case, ctx):
    """the *_seq evaluators return, mode for mode, the polynomial the definition specifies (scipy / exact radial sums / closed forms);
    zernike_nm_seq with both signs of m and norm on/off, Q2d_seq with gaps in |m|."""
    from prysm import polynomials as P
    kind = case['kind']
    r_ = U.rng_of(case['seed'], 31)
    npts = case['npts']
    ctx.nt(True)
    if kind == '1d':
        fam, ns, p = case['fam'], case['ns'], case['p']
        fn, (lo, hi) = fam_table()[fam]
        seqfn = getattr(P, fam + '_seq')
        x = r_.uniform(lo, hi, npts)
        ctx.label('seq:' + fam, 'gapped' if ns != list(range(ns[0], ns[0] + len(ns))) else 'contiguous', 'from0' if ns[0] == 0 else 'from>0')
        if case.get('pre32', False):
            # a single-precision evaluation of the same orders first (same process): it is checked to single precision, and it
            # must leave nothing behind that degrades the double-precision evaluation that follows
            ctx.label('after-float32-call')
            g32 = np.asarray(ctx.call(seqfn, ns, *p, x.astype(np.float32)))
            U.check_shape(g32, (len(ns), npts), fam + '_seq:float32')
        got = np.asarray(ctx.call(seqfn, ns, *p, x))
        U.check_shape(got, (len(ns), npts), fam + '_seq')
        for k, n in enumerate(ns):
            want = ref_value(fam, n, p, x)
            scale = float(np.max(np.abs(ref_value(fam, n, p, np.linspace(lo, hi, 9)))))
            U.check_close(got[k], want, RT, '%s_seq:%s' % (fam, n_class(n)), '%s_seq(%s, %s)[%d] (order %d) vs scipy.special' % (fam, ns, p, k, n), atol=RT * scale)
        return
    if kind == 'zernike':
        nms = [list(v) for v in case['nms']]
        if case['both_signs']:
            nms = nms + [[n, -m] for n, m in nms if m != 0]        # both (n,+m) and (n,-m) in one call
        norm = case['norm']
        rr = r_.uniform(0, 1, npts)
        tt = r_.uniform(-math.pi, math.pi, npts)
        ctx.label('seq:zernike', 'norm' if norm else 'no-norm', 'both-signs' if case['both_signs'] else 'as-drawn')
        got = np.asarray(ctx.call(P.zernike_nm_seq, [tuple(v) for v in nms], rr, tt, norm=norm))
        U.check_shape(got, (len(nms), npts), 'zernike_nm_seq')
        for k, (n, m) in enumerate(nms):
            am = abs(m)
            az = np.ones_like(tt) if m == 0 else np.sin(am * tt) if m < 0 else np.cos(m * tt)
            N = math.sqrt(2 * (n + 1) / (2 if m == 0 else 1)) if norm else 1.0
            want = N * zernike_radial_exact(n, am, rr) * az
            U.check_close(got[k], want, RT, 'zernike_nm_seq:%s' % ('norm' if norm else 'no-norm'),
                          'zernike_nm_seq(%s, norm=%s)[%d] = (n=%d, m=%d) vs explicit radial sum' % (nms, norm, k, n, m), atol=RT * N)
        return
    if kind == 'q2d':
        nms = [[n, m] for n, m in case['nms']]
        uu = r_.uniform(0.05, 1, npts)
        tt = r_.uniform(-math.pi, math.pi, npts)
        ams = sorted({abs(m) for _, m in nms})
        ctx.label('seq:q2d', 'm-gap' if ams != list(range(ams[0], ams[0] + len(ams))) else 'm-dense')
        got = np.asarray(ctx.call(P.Q2d_seq, [tuple(v) for v in nms], uu, tt))
        U.check_shape(got, (len(nms), npts), 'Q2d_seq')
        for k, (n, m) in enumerate(nms):
            # the single-order routine is pinned by q2d_gram (uniqueness of the orthonormal slope basis) and q_values in this property
            want = np.asarray(ctx.call(P.Q2d, n, m, uu, tt))
            U.check_close(got[k], want, 1e-9, 'Q2d_seq', 'Q2d_seq(%s)[%d] = (n=%d, m=%d) vs Q2d' % (nms, k, n, m), atol=1e-9 * max(1.0, float(np.max(np.abs(want)))))
        return
    ns = case['ns']
    uu = r_.uniform(0, 1, npts)
    ctx.label('seq:' + kind)
    if kind == 'qcon':
        got = np.asarray(ctx.call(P.Qcon_seq, ns, uu))
        U.check_shape(got, (len(ns), npts), 'Qcon_seq')
        for k, n in enumerate(ns):
            want = uu ** 4 * sps.eval_jacobi(n, 0, 4, 2 * uu * uu - 1)
            U.check_close(got[k], want, RT, 'Qcon_seq', 'Qcon_seq(%s)[%d] vs u^4 P_n^(0,4)(2u^2-1)' % (ns, k), atol=RT)
    else:
        got = np.asarray(ctx.call(P.Qbfs_seq, ns, uu))
        U.check_shape(got, (len(ns), npts), 'Qbfs_seq')
        for k, n in enumerate(ns):
            want = qbfs_table(n, uu * uu) * (uu * uu) * (1 - uu * uu) if n <= 5 else np.asarray(ctx.call(P.Qbfs, n, uu))
            U.check_close(got[k], want, RT, 'Qbfs_seq', 'Qbfs_seq(%s)[%d] (order %d)' % (ns, k, n), atol=RT)


CLAUSES = [
    HypClause('values_1d', strat_values, check_values, examples={'quick': 2000, 'thorough': 8000}, shards={'quick': 2, 'thorough': 8}),
    HypClause('dickson', strat_dickson, check_dickson, examples={'quick': 400, 'thorough': 2000}, shards={'quick': 2, 'thorough': 8}),
    HypClause('xy_hopkins', strat_xy, check_xy, examples={'quick': 400, 'thorough': 2000}, shards={'quick': 1, 'thorough': 2}),
    HypClause('zernike_value', strat_zernike, check_zernike, examples={'quick': 600, 'thorough': 3000}, shards={'quick': 2, 'thorough': 8}),
    HypClause('zernike_gram', strat_zernike_gram, check_zernike_gram, examples={'quick': 200, 'thorough': 1000}, shards={'quick': 2, 'thorough': 8}),
    EnumClause('zernike_gram_complete', enum_zernike_complete, check_zernike_complete, shards={'quick': 5, 'thorough': 9}),
    HypClause('jacobi_gram', strat_jacobi_gram, check_jacobi_gram, examples={'quick': 300, 'thorough': 1200}, shards={'quick': 2, 'thorough': 8}),
    HypClause('q_values', strat_q_values, check_q_values, examples={'quick': 600, 'thorough': 3000}, shards={'quick': 1, 'thorough': 4}),
    EnumClause('qbfs_gram', enum_qbfs_gram, check_qbfs_gram, shards={'quick': 4, 'thorough': 6}),
    HypClause('q2d_gram', strat_q2d_gram, check_q2d_gram, examples={'quick': 100, 'thorough': 500}, shards={'quick': 2, 'thorough': 8}),
    HypClause('values_seq', strat_seq, check_seq, examples={'quick': 500, 'thorough': 3000}, shards={'quick': 2, 'thorough': 8}),
]
