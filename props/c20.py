"""C20 - Jones and Mueller calculus preserve the algebra of polarisation optics."""
import math

import numpy as np
from hypothesis import strategies as st

from vlib.core import HypClause
from vlib import util as U

RULE = ("Hypothesis-drawn retardances and orientation angles in [-50, 50] rad (plus the special values 0, pi/2, pi, 2pi), "
        "diattenuations in [0,1] incl. the end points, vortex charges +-1..+-6 and half-integers, rotations, theta arrays of "
        "0-3 leading dimensions (random angles or the azimuth of a centred grid), shape= batching of every constructor, "
        "random complex 2x2 matrices / random unitaries (harness QR) in batches of 0-3 leading dimensions expanded from a "
        "drawn integer, and every routine of supported_propagation_funcs wrapped *locally* by jones_adapter (the global "
        "add_jones_propagation is never called).  Oracles are harness-side numpy: J J^H = I, P^2 = P, Malus cos^2, the closed "
        "form R(-t) diag(1, x) R(t) with the harness' own rotation matrix, M(J1 J2) = M(J1) M(J2), M M^T = I and M00 = 1 for "
        "unitary J, M_ij = tr(s_i J s_j J^H)/2 up to the handedness (S3 sign) convention, sum c_k s_k = J, element-by-element "
        "loops for everything batched, per-component propagation for the adapter.  Non-trivial = generic (non-special) angle / "
        "retardance, or a batch with more than one element, or a non-square propagated array.")
ASSUMPTIONS = ["numpy linear algebra (matmul, QR, kron, trace) is correct",
               "the rotation matrix convention is [[cos, sin], [-sin, cos]] (pinned by the repository's own test at 45 deg)",
               "either handedness convention (sign of S3) is accepted for the Jones-to-Mueller map",
               "theta passed to vector_vortex_retarder is a floating-point ndarray, as documented"]

TWO_PI = 2 * math.pi
ANG = st.one_of(U.nice_float(-50.0, 50.0), U.nice_float(-7.0, 7.0), U.nice_float(0.1, 6.0), U.nice_float(-50.0, 50.0), st.sampled_from([0.0, math.pi / 2, math.pi, TWO_PI, math.pi / 4, -math.pi / 2]))
BSHAPE = st.one_of(st.just([]), st.lists(st.integers(1, 4), min_size=1, max_size=3))
SHAPE_OR_NONE = st.one_of(st.none(), st.lists(st.integers(1, 4), min_size=1, max_size=3))
SPECIAL = (0.0, math.pi / 2, math.pi, TWO_PI, math.pi / 4, -math.pi / 2)

SIG = [np.eye(2, dtype=complex), np.array([[1, 0], [0, -1]], dtype=complex), np.array([[0, 1], [1, 0]], dtype=complex),
       np.array([[0, -1j], [1j, 0]], dtype=complex)]
I2 = np.eye(2)
I4 = np.eye(4)


def rot(t):
    c, s = math.cos(t), math.sin(t)
    return np.array([[c, s], [-s, c]], dtype=complex)


def dag(a):
    return np.conj(np.swapaxes(a, -1, -2))


def cplx(seed, shape, salt):
    r = U.rng_of(seed, salt)
    return r.uniform(-1, 1, shape) + 1j * r.uniform(-1, 1, shape)


def unitary(seed, bshape, salt):
    a = cplx(seed, tuple(bshape) + (2, 2), salt)
    q = np.empty_like(a)
    ph = U.rng_of(seed, salt + 1).uniform(0, TWO_PI, tuple(bshape))
    for idx in np.ndindex(*bshape):
        q[idx] = np.linalg.qr(a[idx])[0] * np.exp(1j * ph[idx])
    return q


def mueller_ref(J, hand=1):
    s = [SIG[0], SIG[1], SIG[2], hand * SIG[3]]
    return np.array([[0.5 * np.trace(s[i] @ J @ s[j] @ dag(J)) for j in range(4)] for i in range(4)]).real


def _generic(*angles):
    return any(all(abs(a - s) > 1e-9 for s in SPECIAL) for a in angles)


def _check_batch_copies(ctx, J, shape, bucket, what):
    """a constructor called with scalar parameters and shape= must hold the same 2x2 matrix everywhere"""
    want = tuple(shape or ()) + (2, 2)
    U.check_shape(J, want, bucket, what)
    flat = np.asarray(J).reshape(-1, 2, 2)
    U.check_equal(flat, np.broadcast_to(flat[0], flat.shape), bucket + ':shape-batch', what + ': elements of the shape= batch differ')
    return flat[0]


def _check_unitary(ctx, J, bucket, what, tol=1e-12):
    J = np.asarray(J)
    e = J @ dag(J)
    U.check_close(e, np.broadcast_to(I2, e.shape), tol, bucket, what + ': J J^H != I')
    e = dag(J) @ J
    U.check_close(e, np.broadcast_to(I2, e.shape), tol, bucket, what + ': J^H J != I')


def _check_mueller_orthogonal(ctx, J, bucket, what):
    from prysm.x import polarization as pol
    M = np.asarray(ctx.call(pol.jones_to_mueller, J))
    U.check_shape(M, J.shape[:-2] + (4, 4), bucket, what)
    e = M @ np.swapaxes(M, -1, -2)
    U.check_close(e, np.broadcast_to(I4, e.shape), 1e-11, bucket, what + ': M M^T != I for unitary J')
    U.check_close(M[..., 0, 0], np.ones(M.shape[:-2]), 1e-12, bucket + ':M00', what + ': M00 != 1 for unitary J')


# ---- retarders, rotation matrix ------------------------------------------------------------------
def strat_retarder(tier):
    return st.fixed_dictionaries({'kind': st.sampled_from(['linear', 'linear', 'hwp', 'qwp']), 'ret': ANG, 'theta': ANG,
                                  'theta2': ANG, 'shape': SHAPE_OR_NONE, 'seed': U.seeds})


def check_retarder(case, ctx):
    """linear_retarder / HWP / QWP: unitary, == R(-t) diag(1, e^{i d}) R(t), rotation law, shape= and retardance-array batches."""
    from prysm.x import polarization as pol
    kind, d, t, t2, shape = case['kind'], case['ret'], case['theta'], case['theta2'], case['shape']
    if kind == 'hwp':
        d = math.pi
    elif kind == 'qwp':
        d = math.pi / 2
    batch = shape is not None and int(np.prod(shape)) > 1
    ctx.nt(_generic(d, t) or batch)
    ctx.label('kind:' + kind, 'shape=None' if shape is None else 'shape:%dd' % len(shape), 'generic' if _generic(d, t) else 'special')

    def build(theta, shp):
        if kind == 'linear':
            return ctx.call(pol.linear_retarder, d, theta, shp)
        if kind == 'hwp':
            return ctx.call(pol.half_wave_plate, theta, shp)
        return ctx.call(pol.quarter_wave_plate, theta, shp)
    what = '%s(retardance=%r, theta=%r, shape=%r)' % (kind, d, t, shape)
    Jb = build(t, shape)
    J = _check_batch_copies(ctx, Jb, shape, kind, what)
    _check_unitary(ctx, Jb, kind + ':unitary', what)
    want = rot(-t) @ np.diag([1, np.exp(1j * d)]) @ rot(t)
    U.check_close(J, want, 1e-12, kind + ':closed-form', what + ' vs R(-t) diag(1,e^{id}) R(t)')
    # rotation law with the library's own pieces
    R1 = np.asarray(ctx.call(pol.jones_rotation_matrix, t))
    Rm = np.asarray(ctx.call(pol.jones_rotation_matrix, -t))
    U.check_close(R1, rot(t), 1e-14, 'jones_rotation_matrix', 'jones_rotation_matrix(%r)' % t, atol=1e-15)
    J0 = np.asarray(build(0, None))
    U.check_close(J, Rm @ J0 @ R1, 1e-12, kind + ':rotation-law', what + ' vs R(-t) X(0) R(t)')
    # group law of the rotation matrix, incl. its own shape= batching
    R2 = np.asarray(ctx.call(pol.jones_rotation_matrix, t2, shape))
    R2e = _check_batch_copies(ctx, R2, shape, 'jones_rotation_matrix', 'jones_rotation_matrix(%r, shape=%r)' % (t2, shape))
    U.check_close(R1 @ R2e, rot(t + t2), 1e-12, 'jones_rotation_matrix:group', 'R(%r) R(%r) vs R(sum)' % (t, t2), atol=1e-13)
    _check_unitary(ctx, R2, 'jones_rotation_matrix:unitary', 'jones_rotation_matrix(%r)' % t2)
    _check_mueller_orthogonal(ctx, np.asarray(Jb), kind + ':mueller', what)
    # spatially varying retardance (array of exactly the batch shape) == element by element
    if kind == 'linear' and shape is not None:
        dr = U.rng_of(case['seed'], 3).uniform(-10, 10, tuple(shape))
        Jv = np.asarray(ctx.call(pol.linear_retarder, dr, t, shape))
        U.check_shape(Jv, tuple(shape) + (2, 2), 'linear:retardance-array')
        loop = np.empty(tuple(shape) + (2, 2), complex)
        for idx in np.ndindex(*shape):
            loop[idx] = ctx.call(pol.linear_retarder, float(dr[idx]), t)
        U.check_close(Jv, loop, 1e-13, 'linear:retardance-array', 'linear_retarder(array %s, %r, shape) vs loop' % (shape, t), atol=1e-14)
        _check_unitary(ctx, Jv, 'linear:unitary', 'spatially varying linear_retarder')
        ta = U.rng_of(case['seed'], 4).uniform(-10, 10, tuple(shape))
        Rv = np.asarray(ctx.call(pol.jones_rotation_matrix, ta, shape))
        U.check_shape(Rv, tuple(shape) + (2, 2), 'jones_rotation_matrix:theta-array')
        for idx in np.ndindex(*shape):
            U.check_close(Rv[idx], rot(float(ta[idx])), 1e-14, 'jones_rotation_matrix:theta-array', 'element %s' % (idx,), atol=1e-15)


# ---- vortex retarder -----------------------------------------------------------------------------
CHARGES = [1, -1, 2, -2, 3, -3, 4, -4, 5, -5, 6, -6, 0.5, -0.5, 1.5, -1.5, 2.5, 3.5, -4.5, 5.5]


def strat_vortex(tier):
    mx = 5 if tier == 'quick' else 9
    return st.fixed_dictionaries({
        'charge': st.sampled_from(CHARGES), 'tshape': st.one_of(st.just([]), st.lists(st.integers(1, mx), min_size=1, max_size=3)),
        'theta_kind': st.sampled_from(['random', 'grid']), 'seed': U.seeds,
        'ret': st.one_of(ANG, st.just(math.pi), st.just(None)), 'rotate': st.one_of(st.just(0.0), ANG), 'default_rotate': st.booleans()})


def _vortex_theta(case):
    shp = tuple(case['tshape'])
    if case['theta_kind'] == 'grid' and len(shp) >= 2:
        ny, nx = shp[-2], shp[-1]
        y = (np.arange(ny) - ny // 2)[:, None] * 1.0
        x = (np.arange(nx) - nx // 2)[None, :] * 1.0
        t = np.arctan2(y, x) + np.zeros(shp)
        return np.ascontiguousarray(t)
    return U.rng_of(case['seed'], 5).uniform(-math.pi, math.pi, shp)


def check_vortex(case, ctx):
    """vector_vortex_retarder: unitary at every retardance, batched == element-wise, rotate = conjugation, theta untouched."""
    from prysm.x import polarization as pol
    q, ret, rho = case['charge'], case['ret'], case['rotate']
    theta = _vortex_theta(case)
    keep = theta.copy()
    kw = {}
    if ret is not None:
        kw['retardance'] = ret
    if not (case['default_rotate'] and rho == 0.0):
        kw['rotate'] = rho
    r_eff = math.pi if ret is None else ret
    halfwave = abs(math.cos(r_eff / 2)) < 1e-9
    ctx.nt(not halfwave)
    ctx.label('halfwave' if halfwave else 'general-retardance', 'ndim=%d' % theta.ndim, 'half-int' if q != int(q) else 'int-charge',
              'rotated' if rho != 0 else 'unrotated', 'theta:' + case['theta_kind'])
    what = 'vector_vortex_retarder(charge=%r, theta%s, %s)' % (q, list(theta.shape), ', '.join('%s=%r' % kv for kv in sorted(kw.items())))
    V = np.asarray(ctx.call(pol.vector_vortex_retarder, q, theta, **kw))
    U.check_shape(V, theta.shape + (2, 2), 'vector_vortex_retarder', what)
    bucket = 'vector_vortex_retarder:' + ('halfwave' if halfwave else 'retardance!=pi')
    _check_unitary(ctx, V, bucket + ':unitary', what)
    ctx.require(np.array_equal(theta, keep), 'vector_vortex_retarder:theta-mutated',
                '%s modified the caller\'s theta array in place (max change %.3g)' % (what, float(np.max(np.abs(theta - keep))) if theta.size else 0.0))
    # element by element
    theta = keep.copy()
    for n, idx in enumerate(np.ndindex(*theta.shape)):
        if n >= 40:
            break
        one = np.asarray(ctx.call(pol.vector_vortex_retarder, q, np.array(keep[idx]), **kw))
        U.check_close(V[idx], one, 1e-13, bucket + ':batch-vs-element', '%s element %s' % (what, idx), atol=1e-14)
    # rotate == conjugation with the rotation matrix
    kw0 = dict(kw)
    kw0['rotate'] = 0.0
    V0 = np.asarray(ctx.call(pol.vector_vortex_retarder, q, keep.copy(), **kw0))
    U.check_close(V, rot(-rho) @ V0 @ rot(rho), 1e-12, bucket + ':rotation-law', what + ' vs R(-rho) V(rotate=0) R(rho)', atol=1e-13)
    if V.size:
        _check_mueller_orthogonal(ctx, V, bucket + ':mueller', what)


# ---- polariser / diattenuator --------------------------------------------------------------------
def strat_polarizer(tier):
    return st.fixed_dictionaries({'theta': ANG, 'phi': ANG, 'alpha': st.one_of(U.nice_float(0.0, 1.0), st.sampled_from([0.0, 1.0, 0.5])),
                                  'shape': SHAPE_OR_NONE})


def check_polarizer(case, ctx):
    """ideal polariser idempotent + Malus' law; diattenuator == R(-t) diag(1, alpha) R(t) and obeys the rotation law."""
    from prysm.x import polarization as pol
    t, phi, al, shape = case['theta'], case['phi'], case['alpha'], case['shape']
    ctx.nt(_generic(t, phi))
    ctx.label('shape=None' if shape is None else 'shape:%dd' % len(shape), 'alpha=0' if al == 0 else ('alpha=1' if al == 1 else 'alpha-mid'),
              'generic' if _generic(t, phi) else 'special')
    Pb = np.asarray(ctx.call(pol.linear_polarizer, t, shape))
    P = _check_batch_copies(ctx, Pb, shape, 'linear_polarizer', 'linear_polarizer(%r, shape=%r)' % (t, shape))
    U.check_close(Pb @ Pb, Pb, 1e-12, 'linear_polarizer:idempotent', 'P(%r)^2 vs P' % t, atol=1e-13)
    e = np.array([math.cos(phi), math.sin(phi)], dtype=complex)
    I = float(np.sum(np.abs(P @ e) ** 2))
    ctx.require(abs(I - math.cos(t - phi) ** 2) <= 1e-12, 'linear_polarizer:malus',
                'polariser at %r rad, linear input at %r rad: transmitted %.17g, cos^2 = %.17g' % (t, phi, I, math.cos(t - phi) ** 2))
    v = np.asarray(ctx.call(pol.linear_pol_vector, math.degrees(phi)))
    U.check_close(v, e, 1e-12, 'linear_pol_vector', 'linear_pol_vector(%r deg)' % math.degrees(phi), atol=1e-13)
    I2_ = float(np.sum(np.abs(P @ v) ** 2))
    ctx.require(abs(I2_ - math.cos(t - phi) ** 2) <= 1e-11, 'linear_polarizer:malus', 'Malus with linear_pol_vector: %.17g vs %.17g' % (I2_, math.cos(t - phi) ** 2))
    U.check_close(P, rot(-t) @ np.diag([1, 0]) @ rot(t), 1e-12, 'linear_polarizer:closed-form', 'P(%r)' % t, atol=1e-13)
    # diattenuator
    Db = np.asarray(ctx.call(pol.linear_diattenuator, al, t, shape))
    D = _check_batch_copies(ctx, Db, shape, 'linear_diattenuator', 'linear_diattenuator(%r, %r, shape=%r)' % (al, t, shape))
    U.check_close(D, rot(-t) @ np.diag([1, al]) @ rot(t), 1e-12, 'linear_diattenuator:closed-form', 'D(%r, %r)' % (al, t), atol=1e-13)
    D0 = np.asarray(ctx.call(pol.linear_diattenuator, al, 0))
    R1 = np.asarray(ctx.call(pol.jones_rotation_matrix, t))
    Rm = np.asarray(ctx.call(pol.jones_rotation_matrix, -t))
    U.check_close(D, Rm @ D0 @ R1, 1e-12, 'linear_diattenuator:rotation-law', 'D(%r, %r) vs R(-t) D(0) R(t)' % (al, t), atol=1e-13)
    if al == 0:
        U.check_close(D, P, 1e-14, 'linear_polarizer:is-diattenuator(0)', 'polariser vs diattenuator(0)', atol=1e-15)


# ---- Jones -> Mueller ----------------------------------------------------------------------------
def strat_mueller(tier):
    return st.fixed_dictionaries({'bshape': BSHAPE, 'seed': U.seeds, 'kind': st.sampled_from(['random', 'random', 'unitary', 'elements'])})


def check_mueller(case, ctx):
    """M(J1 J2) == M(J1) M(J2); unitary -> orthogonal, M00 = 1; definition up to handedness; batch == loop; broadcast_kron == kron."""
    from prysm.x import polarization as pol
    B, seed, kind = tuple(case['bshape']), case['seed'], case['kind']
    ctx.nt(True)
    ctx.label('ndim=%d' % len(B), 'kind:' + kind, 'size>1' if int(np.prod(B)) > 1 else 'size1')
    if kind == 'unitary':
        J1, J2 = unitary(seed, B, 10), unitary(seed, B, 20)
    elif kind == 'elements':
        r = U.rng_of(seed, 30)
        J1 = np.empty(B + (2, 2), complex)
        J2 = np.empty(B + (2, 2), complex)
        for idx in np.ndindex(*B):
            J1[idx] = ctx.call(pol.linear_retarder, float(r.uniform(-7, 7)), float(r.uniform(-7, 7)))
            J2[idx] = ctx.call(pol.linear_diattenuator, float(r.uniform(0, 1)), float(r.uniform(-7, 7)))
    else:
        J1, J2 = cplx(seed, B + (2, 2), 10), cplx(seed, B + (2, 2), 20)
    M1 = np.asarray(ctx.call(pol.jones_to_mueller, J1))
    M2 = np.asarray(ctx.call(pol.jones_to_mueller, J2))
    M12 = np.asarray(ctx.call(pol.jones_to_mueller, J1 @ J2))
    for M in (M1, M2, M12):
        U.check_shape(M, B + (4, 4), 'jones_to_mueller')
        ctx.require(M.dtype.kind == 'f', 'jones_to_mueller:dtype', 'Mueller matrix dtype %s is not real' % M.dtype)
    U.check_close(M12, M1 @ M2, 1e-12, 'jones_to_mueller:multiplicative', 'M(J1 J2) vs M(J1) M(J2), batch %s' % (B,), atol=1e-13)
    hands = set()
    for n, idx in enumerate(np.ndindex(*B)):
        if n >= 24:
            break
        one = np.asarray(ctx.call(pol.jones_to_mueller, J1[idx]))
        U.check_close(M1[idx], one, 1e-13, 'jones_to_mueller:batch-vs-element', 'element %s of batch %s' % (idx, B), atol=1e-14)
        nb = np.asarray(ctx.call(pol.jones_to_mueller, J1[idx], False))
        U.check_close(nb, one, 1e-13, 'jones_to_mueller:broadcast-flag', 'broadcast=False vs True', atol=1e-14)
        ea, eb = U.relerr(one, mueller_ref(J1[idx], 1)), U.relerr(one, mueller_ref(J1[idx], -1))
        ctx.require(min(ea, eb) <= 1e-12, 'jones_to_mueller:definition',
                    'M differs from tr(s_i J s_j J^H)/2 in both handedness conventions (rel err %.3g / %.3g) for J=%r' % (ea, eb, J1[idx].tolist()))
        if abs(ea - eb) > 1e-9:
            hands.add(1 if ea < eb else -1)
        m00 = 0.5 * float(np.sum(np.abs(J1[idx]) ** 2))
        ctx.require(abs(one[0, 0] - m00) <= 1e-12 * max(1, m00), 'jones_to_mueller:M00', 'M00=%r, sum|J|^2/2=%r' % (one[0, 0], m00))
    ctx.require(len(hands) <= 1, 'jones_to_mueller:definition', 'handedness convention differs between elements of one batch')
    if kind == 'unitary':
        for J, M in ((J1, M1), (J2, M2)):
            e = M @ np.swapaxes(M, -1, -2)
            U.check_close(e, np.broadcast_to(I4, e.shape), 1e-11, 'jones_to_mueller:orthogonal', 'M M^T for unitary J, batch %s' % (B,))
            U.check_close(M[..., 0, 0], np.ones(B), 1e-12, 'jones_to_mueller:orthogonal:M00', 'M00 for unitary J')
    # broadcast_kron
    K = np.asarray(ctx.call(pol.broadcast_kron, J1, J2))
    U.check_shape(K, B + (4, 4), 'broadcast_kron')
    for n, idx in enumerate(np.ndindex(*B)):
        if n >= 24:
            break
        U.check_close(K[idx], np.kron(J1[idx], J2[idx]), 1e-13, 'broadcast_kron', 'element %s of batch %s vs numpy.kron' % (idx, B), atol=1e-15)


# ---- Pauli ---------------------------------------------------------------------------------------
def strat_pauli(tier):
    return st.fixed_dictionaries({'bshape': BSHAPE, 'seed': U.seeds, 'shape': SHAPE_OR_NONE})


def check_pauli(case, ctx):
    """sum_k c_k sigma_k == J for batches; pauli_spin_matrix == the Pauli matrices (with shape=); c_k == tr(sigma_k J)/2."""
    from prysm.x import polarization as pol
    B, seed, shape = tuple(case['bshape']), case['seed'], case['shape']
    ctx.nt(True)
    ctx.label('ndim=%d' % len(B), 'shape=None' if shape is None else 'shape:%dd' % len(shape))
    J = cplx(seed, B + (2, 2), 40)
    c = ctx.call(pol.pauli_coefficients, J)
    ctx.require(len(c) == 4, 'pauli_coefficients:len', 'expected 4 coefficients, got %d' % len(c))
    S = []
    for k in range(4):
        sk = np.asarray(ctx.call(pol.pauli_spin_matrix, k, shape))
        s1 = _check_batch_copies(ctx, sk, shape, 'pauli_spin_matrix', 'pauli_spin_matrix(%d, shape=%r)' % (k, shape))
        U.check_equal(s1, SIG[k], 'pauli_spin_matrix:%d' % k, 'pauli_spin_matrix(%d)' % k)
        S.append(s1)
    rec = np.zeros(B + (2, 2), complex)
    rec_lib = np.zeros(B + (2, 2), complex)
    for k in range(4):
        ck = np.asarray(c[k])
        U.check_shape(ck, B, 'pauli_coefficients', 'c%d' % k)
        want = 0.5 * np.trace(SIG[k] @ J, axis1=-2, axis2=-1)
        U.check_close(ck, want, 1e-14, 'pauli_coefficients:c%d' % k, 'c%d vs tr(sigma_%d J)/2, batch %s' % (k, k, B), atol=1e-15)
        rec = rec + ck[..., None, None] * SIG[k]
        rec_lib = rec_lib + ck[..., None, None] * S[k]
    U.check_close(rec, J, 1e-14, 'pauli:reconstruct', 'sum c_k sigma_k vs J, batch %s' % (B,), atol=1e-15)
    U.check_close(rec_lib, J, 1e-14, 'pauli:reconstruct', 'sum c_k pauli_spin_matrix(k) vs J, batch %s' % (B,), atol=1e-15)


# ---- polarised propagation -----------------------------------------------------------------------
FUNCS = ['focus', 'unfocus', 'focus_fixed_sampling', 'unfocus_fixed_sampling', 'angular_spectrum']


def strat_prop(tier):
    mx = 10 if tier == 'quick' else 24
    ax = U.axis_len(mx, 2)
    return st.fixed_dictionaries({
        'func': st.sampled_from(FUNCS), 'shape': st.one_of(st.tuples(ax, ax).map(list), st.tuples(ax, ax).map(list), ax.map(lambda n: [n, n])), 'seed': U.seeds,
        'Q': st.sampled_from([1, 2, 3, 1.5, 2.5]), 'out': st.one_of(st.integers(2, mx), st.tuples(st.integers(2, mx), st.integers(2, mx)).map(list)),
        'method': st.sampled_from(['mdft', 'czt']), 'kwargs': st.booleans(), 'dx': st.sampled_from([0.1, 0.25, 1.0]),
        'z': st.sampled_from([0.0, 1.0, 25.0, -3.0])})


def check_prop(case, ctx):
    """jones_adapter(f)(E)[..., i, j] == f(E[..., i, j]) for every supported routine; 2-D input passes through unchanged."""
    from prysm.x import polarization as pol
    from prysm import propagation as P
    name, shape, seed = case['func'], tuple(case['shape']), case['seed']
    ctx.require(sorted(pol.supported_propagation_funcs) == sorted(FUNCS), 'supported_propagation_funcs',
                'list changed: %r' % (pol.supported_propagation_funcs,))
    f = getattr(P, name)
    assert not hasattr(f, '__wrapped__'), 'prysm.propagation.%s is already wrapped (global monkey-patch leaked into the harness)' % name
    g = ctx.call(pol.jones_adapter, f)
    E = cplx(seed, shape + (2, 2), 50)
    out = U.tup(case['out'])
    if name in ('focus', 'unfocus'):
        a, k = ((), {'Q': case['Q']}) if case['kwargs'] else ((case['Q'],), {})
    elif name in ('focus_fixed_sampling', 'unfocus_fixed_sampling'):
        base = (case['dx'], 10.0, 0.5, 0.2, out)
        if case['kwargs']:
            a, k = (), dict(zip(('input_dx', 'prop_dist', 'wavelength', 'output_dx', 'output_samples'), base))
            k['method'] = case['method']
        else:
            a, k = base, {'method': case['method']}
    else:
        a, k = (0.5, case['dx'], case['z']), {'Q': case['Q'] if case['Q'] in (1, 2, 3) else 2}
    ctx.nt(shape[0] != shape[1] or shape[0] % 2 == 1)
    ctx.label('func:' + name, 'square' if shape[0] == shape[1] else 'nonsquare', 'kwargs' if case['kwargs'] else 'positional')
    what = 'jones_adapter(%s)(E%s, *%r, **%r)' % (name, list(E.shape), a, k)
    got = np.asarray(ctx.call(g, E, *a, **k))
    comp = [[np.asarray(ctx.call(f, np.ascontiguousarray(E[..., i, j]), *a, **k)) for j in range(2)] for i in range(2)]
    U.check_shape(got, comp[0][0].shape + (2, 2), 'jones_adapter:' + name, what)
    for i in range(2):
        for j in range(2):
            U.check_close(got[..., i, j], comp[i][j], 1e-13, 'jones_adapter:%s:component' % name, '%s component [%d,%d] vs direct propagation' % (what, i, j))
    ctx.require(np.iscomplexobj(got), 'jones_adapter:%s:dtype' % name, 'output dtype %s' % got.dtype)
    # scalar (2-D) input passes through
    s = np.ascontiguousarray(E[..., 0, 1])
    U.check_close(np.asarray(ctx.call(g, s, *a, **k)), comp[0][1], 1e-13, 'jones_adapter:%s:passthrough' % name, '2-D input through the adapter')
    ctx.require(getattr(P, name) is f, 'jones_adapter:global-side-effect', 'jones_adapter replaced prysm.propagation.%s' % name)
    # a second polarised propagation (other field, same shapes) must leave the first result untouched: the caller owns it
    keep = got.copy()
    E2 = cplx(seed, shape + (2, 2), 51)
    got2 = np.asarray(ctx.call(g, E2, *a, **k))
    U.check_equal(got, keep, 'jones_adapter:%s:result-overwritten-by-later-call' % name, 'first result changed after a second call of the same wrapped routine')
    for i in range(2):
        for j in range(2):
            U.check_close(got2[..., i, j], np.asarray(ctx.call(f, np.ascontiguousarray(E2[..., i, j]), *a, **k)), 1e-13,
                          'jones_adapter:%s:component' % name, 'second call, component [%d,%d]' % (i, j))
    # applying a spatially varying optic to a scalar field is the element-wise product
    A = cplx(seed, shape, 60)
    JA = np.asarray(ctx.call(pol.apply_polarization_optic, A, E))
    U.check_shape(JA, shape + (2, 2), 'apply_polarization_optic')
    for i in range(2):
        for j in range(2):
            U.check_close(JA[..., i, j], A * E[..., i, j], 1e-13, 'apply_polarization_optic', 'component [%d,%d]' % (i, j))


CLAUSES = [
    HypClause('retarders', strat_retarder, check_retarder, examples={'quick': 500, 'thorough': 3000}, shards={'quick': 2, 'thorough': 8}),
    HypClause('vortex', strat_vortex, check_vortex, examples={'quick': 400, 'thorough': 2500}, shards={'quick': 2, 'thorough': 8}),
    HypClause('polarizer', strat_polarizer, check_polarizer, examples={'quick': 800, 'thorough': 4000}, shards={'quick': 1, 'thorough': 8}),
    HypClause('mueller', strat_mueller, check_mueller, examples={'quick': 300, 'thorough': 2000}, shards={'quick': 2, 'thorough': 8}),
    HypClause('pauli', strat_pauli, check_pauli, examples={'quick': 400, 'thorough': 2000}, shards={'quick': 1, 'thorough': 4}),
    HypClause('propagation', strat_prop, check_prop, examples={'quick': 250, 'thorough': 1500}, shards={'quick': 2, 'thorough': 8}),
]
