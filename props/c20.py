"""C20 - Jones and Mueller calculus preserve the algebra of polarisation optics."""
import math

import numpy as np
from hypothesis import strategies as st

from vlib.core import HypClause
from vlib import util as U

RULE = ("Hypothesis-drawn retardances and orientation angles in [-50, 50] rad (plus the special values 0, pi/2, pi, 2pi), "
        "diattenuations in [0,1] incl. the end points, vortex charges +-1..+-6 and half-integers, rotations, theta arrays of "
        "0-3 leading dimensions (random angles or the azimuth of a centred grid), shape= batching of every constructor, "
        "random complex 2x2 matrices / random unitaries (harness QR) in batches of 0-3 leading dimensions expanded from a "
        "drawn integer, and every routine of supported_propagation_funcs wrapped *locally* by jones_adapter; clause add_jones_propagation "
        "also installs the adapters globally through sequences of 1-4 add_jones_propagation(...) calls (no argument / any sub-list of the "
        "supported names incl. the empty one, list or tuple, positional or keyword; overlapping, repeated and growing requests) and checks "
        "after every call each routine requested so far, module state of prysm.x.polarization being rebuilt (reload) before and the "
        "attributes of prysm.propagation restored after every case.  Oracles are harness-side numpy: J J^H = I, P^2 = P, Malus cos^2, the closed "
        "form R(-t) diag(1, x) R(t) with the harness' own rotation matrix, M(J1 J2) = M(J1) M(J2), M M^T = I and M00 = 1 for "
        "unitary J, M_ij = tr(s_i J s_j J^H)/2 up to the handedness (S3 sign) convention, sum c_k s_k = J, element-by-element "
        "loops for everything batched, per-component propagation for the adapter.  Non-trivial = generic (non-special) angle / "
        "retardance, or a batch with more than one element, or a non-square propagated array.  Hardening dimensions drawn for every "
        "clause: angles / retardances at the far ends (1e-300 .. 1e5 rad), parameters as Python floats, Python ints, numpy scalars and "
        "0-d arrays, positional and keyword, shape= as list or tuple; theta / retardance arrays of float64, float32 and integer dtype in "
        "C / Fortran / transposed / strided layouts, with special values (0, pi/2, pi, 2pi) planted among generic ones; Jones batches "
        "of complex128 / complex64 / float64 / int64 dtype, any layout, amplitudes 1e-150 .. 1e150 (1e-300 .. 1e300 for the linear "
        "Pauli map), with identity / zero / singular / Pauli matrices planted among generic ones; the library switched to 32-bit "
        "precision (checked at float32 tolerance) or used at 32 bits before the checked 64-bit call; polarised fields as "
        "complex128 / complex64 / real arrays with the Jones axes last or as a view of a components-first array, per-axis different "
        "shift=(sx, sy), a non-symmetric tf= array and Q=1 through the adapter.  Every array (and shape list) handed over is compared "
        "with a copy taken before the call (bucket ...:argument-modified); results are kept and re-checked after later calls with other "
        "parameters (...:result-overwritten) and constructors are called again after their previous result was edited in place "
        "(...:aliased-state).  Round-7 hardening, clause large_batches: leading shapes with just more than 2**15 / 2**16 / 2**17 / 3 * 2**15 (thorough: to 2**18) matrices, "
        "never a multiple of 2**15 (300x300, 130x520, 1x65537, 257x257, 2x3x10923, 1-D, thin 2-D / 3-D; C and Fortran order; complex128 / "
        "complex64 / float64; random, unitary in closed form, whole-batch structure): jones_to_mueller on EVERY element against tr(s_i J s_j "
        "J^H)/2 (vectorised harness arithmetic, one handedness for the whole batch), M(J1 J2) = M(J1) M(J2) and M M^T = I, M00 = 1 (unitary) on "
        "every element, broadcast_kron against the Kronecker product of every pair, pauli_coefficients against tr(sigma_k J)/2 and the "
        "reconstruction on every element, vector_vortex_retarder on an angle map of that size (unitary everywhere, then its Mueller matrices); "
        "a sample (both ends, both sides of every multiple of 2**15, a strided sweep) against the single-matrix call.  "
        "Round-8 hardening, clause vortex: charges that are not integers (the docstring: 'float, typically an integer') - 0.5, 1.5, -0.5, 0.25, 1/3, "
        "arbitrary floats in [-6.5, 6.5], integer-valued floats, 0, 25, 100.5 - on azimuth maps in conventions other than arctan2's (-pi, pi]: "
        "[0, 2 pi), measured from another axis (+ offset up to 10 pi, not wrapped), an unwrapped spiral (+ 2 pi per ring), several turns "
        "(+-12 pi); every pixel of the batched plate against the pixel-by-pixel construction sin(d/2) HWP(charge theta / 2) - i cos(d/2) I "
        "conjugated by R(rotate) (Mawet et al. 2009 Eq. 7, cited by the docstring): (a) harness closed form from cos / sin of charge * theta[pixel], "
        "(b) the same construction from the library's scalar half_wave_plate / jones_rotation_matrix, (c) the library's scalar plate of charge 1 at "
        "charge * theta wrapped into (-pi, pi] by the harness; buckets name the class (...:non-integer-charge:azimuth-outside-principal-range); another plate "
        "(other charge, on another or the very same theta object) or caught failing requests before the checked call; the theta array given new "
        "angles in place between two calls (...:after-theta-edited-in-place); the same in clause large_batches on > 2**15 pixels (every pixel, vectorised).  "
        "Other clauses: truthy / falsy flags that are not the objects True / False (0, 1, numpy booleans; positional and keyword) for "
        "jones_to_mueller(broadcast=) and linear_pol_vector(degrees=); one array object for both factors of broadcast_kron and one 0-d array as "
        "retardance and orientation of linear_retarder (vs an equal copy and the closed form); polarised propagation with numpy.fft / a transforms-only "
        "module behind the backend shim (not generated: angular_spectrum on the transforms-only backend, where the routine itself raises on the unchanged "
        "code - fixes/C20/03-angular-spectrum-fftfreq-fallback, see BACKEND_GAPS); clause burst: 40-300 requests to one constructor (or all in turn) with exact repeats, parameters a relative 3e-7 .. 1e-4 next to "
        "earlier ones and re-visits of an early request every 2-17 calls, every answer against the harness' closed form.  Non-trivial (vortex) = "
        "retardance other than half a wave, or a non-integer charge on an azimuth map that leaves (-pi, pi].")
ASSUMPTIONS = ["numpy linear algebra (matmul, QR, kron, trace) is correct",
               "the rotation matrix convention is [[cos, sin], [-sin, cos]] (pinned by the repository's own test at 45 deg)",
               "either handedness convention (sign of S3) is accepted for the Jones-to-Mueller map",
               "theta passed to vector_vortex_retarder is an ndarray, as documented (float64, float32 or integer valued)",
               "the vortex plate of charge q at azimuth theta is Mawet et al. (2009) Eq. 7 as cited by the docstring: sin(d/2) [[cos q theta, sin q theta], [sin q theta, -cos q theta]] "
               "- i cos(d/2) I, for any real q and any real theta (no wrapping of theta is implied by the documentation)",
               "with prysm.conf.config.precision = 32, or float32 / complex64 inputs, the laws are asserted at float32 tolerance (1e-4)"]

TWO_PI = 2 * math.pi
FAR = [1e-300, -1e-300, 1e-16, 1e-8, -1e-8, 1e5, -1e5, 12345.678, 1.0, 2.0, -3.0, 100.0]
ANG = st.one_of(U.nice_float(-50.0, 50.0), U.nice_float(-7.0, 7.0), U.nice_float(0.1, 6.0), U.nice_float(-50.0, 50.0),
                st.sampled_from([0.0, math.pi / 2, math.pi, TWO_PI, math.pi / 4, -math.pi / 2]), st.sampled_from(FAR))
BSHAPE = st.one_of(st.just([]), st.lists(st.integers(1, 4), min_size=1, max_size=3))
SHAPE_OR_NONE = st.one_of(st.none(), st.lists(st.integers(1, 4), min_size=1, max_size=3))
SPECIAL = (0.0, math.pi / 2, math.pi, TWO_PI, math.pi / 4, -math.pi / 2)
HOW = st.sampled_from(['py', 'py', 'py', 'np', '0d', 'int'])
PREC = st.sampled_from([64, 64, 64, 64, 32])
F32TOL = 1e-4    # observed <= 1e-6 on the unchanged code at 32 bits


def _arg(v, how):
    """the number v as the drawn Python / numpy type"""
    if v is None:
        return None
    if how == 'np':
        return np.float64(v)
    if how == '0d':
        return np.array(float(v))
    if how == 'int' and float(v) == int(v):
        return int(v)
    return v


def _shape_arg(shape, as_tuple):
    if shape is None:
        return None
    return tuple(shape) if as_tuple else list(shape)


def _tol(tol, prec):
    return tol if prec == 64 else max(tol, F32TOL)


def _unchanged(ctx, arr, keep, bucket, what):
    a, k = np.asarray(arr), np.asarray(keep)
    same = a.shape == k.shape and a.dtype == k.dtype and bool(np.all((a == k) | ((a != a) & (k != k))))
    ctx.require(same, bucket + ':argument-modified', '%s was modified by the call' % what)


def _plant(a, seed, salt, values, p=0.3):
    """overwrite a random ~30% of the entries of the float array a with special values"""
    if a.size == 0:
        return a
    r = U.rng_of(seed, salt)
    m = r.uniform(0, 1, a.shape) < p
    v = np.asarray(values, dtype=float)[r.integers(0, len(values), a.shape)]
    return np.where(m, v, a)


def _prec_ctx(case, ctx, body):
    """history: optionally use the library at 32 bits first; then run the body at the drawn precision"""
    from prysm.x import polarization as pol
    if case.get('pre32', False):
        with U.precision(32):
            ctx.call(pol.linear_retarder, 0.3, 0.2, [2])
            ctx.call(pol.jones_rotation_matrix, 0.7)
            ctx.call(pol.vector_vortex_retarder, 2, np.array([[0.1, 0.2]]), 1.0, 0.3)
            ctx.call(pol.jones_to_mueller, np.eye(2, dtype=np.complex64))
            ctx.call(pol.pauli_spin_matrix, 3, [2])
    with U.precision(case.get('prec', 64)):
        body(case, ctx)


SIG = [np.eye(2, dtype=complex), np.array([[1, 0], [0, -1]], dtype=complex), np.array([[0, 1], [1, 0]], dtype=complex),
       np.array([[0, -1j], [1j, 0]], dtype=complex)]
I2 = np.eye(2)
I4 = np.eye(4)


def rot(t):
    c, s = math.cos(t), math.sin(t)
    return np.array([[c, s], [-s, c]], dtype=complex)


def dag(a):
    return np.conj(np.swapaxes(a, -1, -2))


def cplx(seed, shape, salt):
    r = U.rng_of(seed, salt)
    return r.uniform(-1, 1, shape) + 1j * r.uniform(-1, 1, shape)


def unitary(seed, bshape, salt):
    a = cplx(seed, tuple(bshape) + (2, 2), salt)
    q = np.empty_like(a)
    ph = U.rng_of(seed, salt + 1).uniform(0, TWO_PI, tuple(bshape))
    for idx in np.ndindex(*bshape):
        q[idx] = np.linalg.qr(a[idx])[0] * np.exp(1j * ph[idx])
    return q


def mueller_ref(J, hand=1):
    s = [SIG[0], SIG[1], SIG[2], hand * SIG[3]]
    return np.array([[0.5 * np.trace(s[i] @ J @ s[j] @ dag(J)) for j in range(4)] for i in range(4)]).real


def _generic(*angles):
    return any(all(abs(a - s) > 1e-9 for s in SPECIAL) for a in angles)


def _check_batch_copies(ctx, J, shape, bucket, what):
    """a constructor called with scalar parameters and shape= must hold the same 2x2 matrix everywhere"""
    want = tuple(shape or ()) + (2, 2)
    U.check_shape(J, want, bucket, what)
    flat = np.asarray(J).reshape(-1, 2, 2)
    U.check_equal(flat, np.broadcast_to(flat[0], flat.shape), bucket + ':shape-batch', what + ': elements of the shape= batch differ')
    return flat[0]


def _check_unitary(ctx, J, bucket, what, tol=1e-12):
    J = np.asarray(J)
    e = J @ dag(J)
    U.check_close(e, np.broadcast_to(I2, e.shape), tol, bucket, what + ': J J^H != I')
    e = dag(J) @ J
    U.check_close(e, np.broadcast_to(I2, e.shape), tol, bucket, what + ': J^H J != I')


def _check_mueller_orthogonal(ctx, J, bucket, what, prec=64):
    from prysm.x import polarization as pol
    keep = np.array(J, copy=True)
    M = np.asarray(ctx.call(pol.jones_to_mueller, J))
    _unchanged(ctx, J, keep, 'jones_to_mueller', 'the Jones matrix (%s)' % what)
    U.check_shape(M, J.shape[:-2] + (4, 4), bucket, what)
    e = M @ np.swapaxes(M, -1, -2)
    U.check_close(e, np.broadcast_to(I4, e.shape), _tol(1e-11, prec), bucket, what + ': M M^T != I for unitary J')
    U.check_close(M[..., 0, 0], np.ones(M.shape[:-2]), _tol(1e-12, prec), bucket + ':M00', what + ': M00 != 1 for unitary J')


# ---- retarders, rotation matrix ------------------------------------------------------------------
def strat_retarder(tier):
    return st.fixed_dictionaries({'kind': st.sampled_from(['linear', 'linear', 'hwp', 'qwp']), 'ret': ANG, 'theta': ANG,
                                  'theta2': ANG, 'shape': SHAPE_OR_NONE, 'seed': U.seeds,
                                  'how': st.tuples(HOW, HOW).map(list), 'tuple_shape': st.booleans(), 'kwargs': st.booleans(),
                                  'adtype': st.sampled_from(['float64', 'float64', 'float32', 'int64']), 'alayout': U.layouts,
                                  'prec': PREC, 'pre32': st.booleans()})


def check_retarder(case, ctx):
    """linear_retarder / HWP / QWP: unitary, == R(-t) diag(1, e^{i d}) R(t), rotation law, shape= and retardance-array batches."""
    _prec_ctx(case, ctx, _check_retarder)


def _check_retarder(case, ctx):
    from prysm.x import polarization as pol
    kind, d, t, t2, shape = case['kind'], case['ret'], case['theta'], case['theta2'], case['shape']
    hd, ht = case.get('how', ['py', 'py'])
    prec, astuple, usekw = case.get('prec', 64), case.get('tuple_shape', False), case.get('kwargs', False)
    if kind == 'hwp':
        d = math.pi
    elif kind == 'qwp':
        d = math.pi / 2
    batch = shape is not None and int(np.prod(shape)) > 1
    ctx.nt(_generic(d, t) or batch)
    ctx.label('kind:' + kind, 'shape=None' if shape is None else 'shape:%dd' % len(shape), 'generic' if _generic(d, t) else 'special',
              'prec:%d' % prec, 'pre32' if case.get('pre32', False) else 'no-pre32', 'ret-as:' + hd, 'theta-as:' + ht,
              'far-angle' if max(abs(d), abs(t)) > 60 or 0 < min(abs(d), abs(t)) < 1e-7 else 'near-angle', 'kwargs' if usekw else 'positional')
    shape_arg = _shape_arg(shape, astuple)
    shape_keep = None if shape is None else list(shape)

    def build(theta, shp, hows=('py', 'py')):
        th, dd = _arg(theta, hows[1]), _arg(d, hows[0])
        if kind == 'linear':
            if usekw:
                return ctx.call(pol.linear_retarder, retardance=dd, theta=th, shape=shp)
            return ctx.call(pol.linear_retarder, dd, th, shp)
        if kind == 'hwp':
            return ctx.call(pol.half_wave_plate, theta=th, shape=shp) if usekw else ctx.call(pol.half_wave_plate, th, shp)
        return ctx.call(pol.quarter_wave_plate, theta=th, shape=shp) if usekw else ctx.call(pol.quarter_wave_plate, th, shp)
    what = '%s(retardance=%r, theta=%r, shape=%r) [%s/%s, precision %d]' % (kind, d, t, shape_arg, hd, ht, prec)
    Jb = build(t, shape_arg, (hd, ht))
    if shape is not None:
        ctx.require(list(shape_arg) == shape_keep, kind + ':argument-modified', 'the shape= sequence was modified: %r' % (shape_arg,))
    Jb_keep = np.array(Jb, copy=True)
    J = _check_batch_copies(ctx, Jb, shape, kind, what)
    _check_unitary(ctx, Jb, kind + ':unitary', what, _tol(1e-12, prec))
    want = rot(-t) @ np.diag([1, np.exp(1j * d)]) @ rot(t)
    U.check_close(J, want, _tol(1e-12, prec), kind + ':closed-form', what + ' vs R(-t) diag(1,e^{id}) R(t)')
    # rotation law with the library's own pieces
    R1_raw = ctx.call(pol.jones_rotation_matrix, _arg(t, ht))
    R1 = np.array(R1_raw, copy=True)
    Rm = np.asarray(ctx.call(pol.jones_rotation_matrix, -t))
    U.check_close(R1, rot(t), _tol(1e-14, prec), 'jones_rotation_matrix', 'jones_rotation_matrix(%r)' % t, atol=_tol(1e-15, prec))
    J0 = np.asarray(build(0, None))
    U.check_close(J, Rm @ J0 @ R1, _tol(1e-12, prec), kind + ':rotation-law', what + ' vs R(-t) X(0) R(t)')
    # group law of the rotation matrix, incl. its own shape= batching (the sum t + t2 itself is rounded: allow its spacing)
    R2 = np.asarray(ctx.call(pol.jones_rotation_matrix, t2, shape_arg))
    R2e = _check_batch_copies(ctx, R2, shape, 'jones_rotation_matrix', 'jones_rotation_matrix(%r, shape=%r)' % (t2, shape))
    U.check_close(R1 @ R2e, rot(t + t2), _tol(1e-12, prec), 'jones_rotation_matrix:group', 'R(%r) R(%r) vs R(sum)' % (t, t2),
                  atol=_tol(1e-13, prec) + 4 * float(np.spacing(abs(t) + abs(t2))))
    _check_unitary(ctx, R2, 'jones_rotation_matrix:unitary', 'jones_rotation_matrix(%r)' % t2, _tol(1e-12, prec))
    _check_mueller_orthogonal(ctx, np.asarray(Jb), kind + ':mueller', what, prec)
    # the caller owns what it got: nothing built since may have changed the first element, and a result edited in place must not come back
    U.check_equal(np.asarray(Jb), Jb_keep, kind + ':result-overwritten', what + ': the first result changed while other elements were built')
    np.asarray(R1_raw)[...] = 7
    np.asarray(Jb)[...] = 7
    U.check_close(np.asarray(ctx.call(pol.jones_rotation_matrix, _arg(t, ht))), R1, 1e-14, 'jones_rotation_matrix:aliased-state',
                  'jones_rotation_matrix(%r) again, after the previous result was overwritten by the caller' % t, atol=1e-15)
    U.check_close(np.asarray(build(t, shape_arg, (hd, ht))), Jb_keep, 1e-14, kind + ':aliased-state', what + ' again, after the previous result was overwritten by the caller', atol=1e-15)
    # one 0-d array object given as retardance and as orientation (equal numbers, the same object): a function of the values
    if kind == 'linear' and case.get('same_object', True):
        z = np.array(float(t))
        Jz = np.asarray(ctx.call(pol.linear_retarder, z, z))
        Jc = np.asarray(ctx.call(pol.linear_retarder, z, z.copy()))
        U.check_close(Jz, rot(-t) @ np.diag([1, np.exp(1j * t)]) @ rot(t), _tol(1e-12, prec), 'linear:same-object', 'linear_retarder(z, z) with one 0-d array z = %r for both parameters vs R(-z) diag(1, e^{iz}) R(z)' % t)
        U.check_equal(Jz, Jc, 'linear:same-object', 'linear_retarder(z, z) vs linear_retarder(z, z.copy()), z = %r' % t)
        ctx.require(float(z) == float(t) and z.shape == (), 'linear:argument-modified', 'the 0-d array given as retardance and theta was modified: %r -> %r' % (t, z))
    # spatially varying retardance (array of exactly the batch shape) == element by element; special retardances among generic ones
    if kind == 'linear' and shape is not None:
        adt = np.dtype(case.get('adtype', 'float64'))
        dr = U.rng_of(case['seed'], 3).uniform(-10, 10, tuple(shape))
        if 'adtype' in case:
            dr = _plant(dr, case['seed'], 13, [0.0, math.pi, TWO_PI, -math.pi, math.pi / 2, 1e-300])
        dr = np.rint(dr).astype(adt) if adt.kind == 'i' else dr.astype(adt)
        dr = U.relayout(dr, case.get('alayout', 'C'))
        dkeep = dr.copy()
        ctx.label('ret-array:%s' % adt)
        atol_ = _tol(1e-13, 32 if adt == np.float32 else prec)
        Jv = np.asarray(ctx.call(pol.linear_retarder, dr, _arg(t, ht), shape_arg))
        _unchanged(ctx, dr, dkeep, 'linear', 'the retardance array')
        U.check_shape(Jv, tuple(shape) + (2, 2), 'linear:retardance-array')
        loop = np.empty(tuple(shape) + (2, 2), complex)
        for idx in np.ndindex(*shape):
            loop[idx] = ctx.call(pol.linear_retarder, float(dkeep[idx]), t)
        U.check_close(Jv, loop, atol_, 'linear:retardance-array', 'linear_retarder(%s array %s, %r, shape) vs loop' % (adt, shape, t), atol=atol_ * 0.1)
        _check_unitary(ctx, Jv, 'linear:unitary', 'spatially varying linear_retarder', _tol(1e-12, 32 if adt == np.float32 else prec))
        ta = U.rng_of(case['seed'], 4).uniform(-10, 10, tuple(shape))
        if 'adtype' in case:
            ta = _plant(ta, case['seed'], 14, [0.0, math.pi / 2, math.pi, -math.pi / 2, 1e5])
        ta = np.rint(ta).astype(adt) if adt.kind == 'i' else ta.astype(adt)
        ta = U.relayout(ta, case.get('alayout', 'C'))
        tkeep = ta.copy()
        Rv = np.asarray(ctx.call(pol.jones_rotation_matrix, ta, shape_arg))
        _unchanged(ctx, ta, tkeep, 'jones_rotation_matrix', 'the theta array')
        U.check_shape(Rv, tuple(shape) + (2, 2), 'jones_rotation_matrix:theta-array')
        rtol_ = _tol(1e-14, 32 if adt == np.float32 else prec)
        for idx in np.ndindex(*shape):
            U.check_close(Rv[idx], rot(float(tkeep[idx])), rtol_, 'jones_rotation_matrix:theta-array', 'element %s (theta %r)' % (idx, float(tkeep[idx])), atol=rtol_ * 0.1)


# ---- vortex retarder -----------------------------------------------------------------------------
CHARGES = [1, -1, 2, -2, 3, -3, 4, -4, 5, -5, 6, -6, 0.5, -0.5, 1.5, -1.5, 2.5, 3.5, -4.5, 5.5]


# round-8 hardening: the charge is "float, typically an integer" - fractional vortices (0.5, 1.5, -0.5), arbitrary floats, integer-valued
# floats, zero and large charges; the azimuth map in conventions other than numpy.arctan2's (-pi, pi]: [0, 2 pi), measured from another
# axis (+ offset, not wrapped), an unwrapped spiral (+ 2 pi per ring), several turns
CHARGES2 = [0.5, -0.5, 1.5, -1.5, 0.25, 1.0 / 3.0, -2.75, 2.0, -3.0, 0, 0.0, 25, 100.5, 1e-3, 0.5, 1.5]
THETA_KINDS = ['random', 'grid', 'special-mix', 'zero-to-2pi', 'offset', 'spiral', 'turns', 'zero-to-2pi', 'offset']
OFFSETS = [math.pi / 2, math.pi, TWO_PI, 3.3, -4.0, 10 * math.pi, 0.1, -math.pi, 7.0]


def strat_vortex(tier):
    mx = 5 if tier == 'quick' else 9
    return st.fixed_dictionaries({
        'charge': st.one_of(st.sampled_from(CHARGES), st.sampled_from(CHARGES), st.sampled_from(CHARGES2), U.nice_float(-6.5, 6.5)),
        'tshape': st.one_of(st.just([]), st.lists(st.integers(1, mx), min_size=1, max_size=3)),
        'theta_kind': st.sampled_from(THETA_KINDS), 'offset': st.sampled_from(OFFSETS), 'turns': st.integers(1, 6),
        'pre': st.sampled_from(['none', 'none', 'other-charge', 'same-theta-other-charge', 'failed-call']), 'edit': st.booleans(), 'seed': U.seeds,
        'ret': st.one_of(ANG, st.just(math.pi), st.just(None)), 'rotate': st.one_of(st.just(0.0), ANG), 'default_rotate': st.booleans(),
        'tdtype': st.sampled_from(['float64', 'float64', 'float64', 'float32', 'int64']), 'tlayout': U.layouts,
        'how': st.tuples(HOW, HOW, HOW).map(list), 'kwargs': st.booleans(), 'prec': PREC, 'pre32': st.booleans()})


def _vortex_theta(case, salt=5):
    shp = tuple(case['tshape'])
    kind = case['theta_kind']
    if kind in ('grid', 'zero-to-2pi', 'offset', 'spiral') and len(shp) >= 2:
        ny, nx = shp[-2], shp[-1]
        y = (np.arange(ny) - ny // 2)[:, None] * 1.0
        x = (np.arange(nx) - nx // 2)[None, :] * 1.0
        t = np.arctan2(y, x) + np.zeros(shp)
        ring = np.rint(np.hypot(y, x) / 1.5) + np.zeros(shp)
        if kind == 'grid':
            return np.ascontiguousarray(t)
    else:
        t = U.rng_of(case['seed'], salt).uniform(-math.pi, math.pi, shp)
        ring = U.rng_of(case['seed'], salt + 100).integers(-3, 4, shp).astype(float)
    if kind == 'zero-to-2pi':        # the [0, 2 pi) convention
        return np.ascontiguousarray(np.mod(t, TWO_PI))
    if kind == 'offset':             # azimuth measured from another axis, not wrapped back
        return np.ascontiguousarray(t + case.get('offset', 0.0))
    if kind == 'spiral':             # unwrapped: one more turn per ring
        return np.ascontiguousarray(t + TWO_PI * ring)
    if kind == 'turns':              # several turns either way
        n = case.get('turns', 1)
        return U.rng_of(case['seed'], salt).uniform(-n * TWO_PI, n * TWO_PI, shp)
    if case['theta_kind'] == 'special-mix':
        t = np.asarray(_plant(t, case['seed'], 15, [0.0, math.pi, -math.pi, math.pi / 2, -math.pi / 2, TWO_PI, 1e-300], p=0.5))
    return t


def check_vortex(case, ctx):
    """vector_vortex_retarder: unitary at every retardance, batched == element-wise, rotate = conjugation, theta untouched."""
    _prec_ctx(case, ctx, _check_vortex)


def _check_vortex(case, ctx):
    from prysm.x import polarization as pol
    q, ret, rho = case['charge'], case['ret'], case['rotate']
    prec = case.get('prec', 64)
    tdt = np.dtype(case.get('tdtype', 'float64'))
    hq, hr, hrho = case.get('how', ['py', 'py', 'py'])
    theta = _vortex_theta(case)
    theta = np.rint(theta).astype(tdt) if tdt.kind == 'i' else theta.astype(tdt)
    if theta.ndim:      # (a 0-d theta has one layout only)
        theta = U.relayout(theta, case.get('tlayout', 'C'))
    else:
        theta = np.array(theta)
    keep = theta.copy()
    low = prec == 32 or tdt == np.float32
    eff = 32 if low else 64
    kw = {}
    if ret is not None:
        kw['retardance'] = _arg(ret, hr)
    if not (case['default_rotate'] and rho == 0.0):
        kw['rotate'] = _arg(rho, hrho)
    qa = _arg(q, hq)
    r_eff = math.pi if ret is None else ret
    halfwave = abs(math.cos(r_eff / 2)) < 1e-9
    outside = bool(keep.size) and bool(np.any((keep.astype(np.float64) > math.pi) | (keep.astype(np.float64) <= -math.pi)))
    qclass = 'integer' if float(q) == int(q) else ('half-integer' if float(2 * q) == int(2 * q) else 'other-non-integer')
    ctx.nt(not halfwave or (qclass != 'integer' and outside))
    ctx.label('charge:' + qclass, 'azimuth:' + ('outside (-pi, pi]' if outside else 'inside (-pi, pi]'), 'pre:' + case.get('pre', 'none'),
              '%s-charge, azimuth %s (-pi, pi]' % ('integer' if qclass == 'integer' else 'non-integer', 'outside' if outside else 'inside'),
              'charge=0' if q == 0 else ('|charge|>6' if abs(q) > 6 else '0<|charge|<=6'))
    ctx.label('halfwave' if halfwave else 'general-retardance', 'ndim=%d' % theta.ndim, 'half-int' if q != int(q) else 'int-charge',
              'rotated' if rho != 0 else 'unrotated', 'theta:' + case['theta_kind'], 'tdtype:%s' % tdt, 'tlayout:' + case.get('tlayout', 'C'),
              'prec:%d' % prec, 'charge-as:' + hq, '|charge|=1' if abs(q) == 1 else '|charge|!=1')
    what = 'vector_vortex_retarder(charge=%r, theta%s %s, %s) [precision %d]' % (qa, list(theta.shape), tdt, ', '.join('%s=%r' % kv for kv in sorted(kw.items())), prec)

    def vvr(th, kws):
        if case.get('kwargs', False):
            return ctx.call(pol.vector_vortex_retarder, charge=qa, theta=th, **kws)
        return ctx.call(pol.vector_vortex_retarder, qa, th, **kws)
    # history inside one process: another plate first (other charge / retardance; on another or on the very same azimuth array), or
    # requests that fail and are caught (no azimuth map, a Python float where the array is documented)
    pre = case.get('pre', 'none')
    if pre == 'other-charge':
        ctx.call(pol.vector_vortex_retarder, 3 if q != 3 else 2, _vortex_theta(case, salt=45), 1.0, 0.3)
    elif pre == 'same-theta-other-charge':
        ctx.call(pol.vector_vortex_retarder, (q + 1) if float(q) != int(q) else 0.5, theta, retardance=0.7)
    elif pre == 'failed-call':
        for bad in (None, 0.3):
            try:
                pol.vector_vortex_retarder(qa, bad)
                ctx.label('failed-call:did-not-raise')
            except Exception:
                ctx.label('failed-call:raised')
    V_raw = vvr(theta, kw)
    V = np.array(V_raw, copy=True)
    U.check_shape(V, theta.shape + (2, 2), 'vector_vortex_retarder', what)
    bucket = 'vector_vortex_retarder:' + ('halfwave' if halfwave else 'retardance!=pi')
    # float32 angles: cos / sin of charge * theta are evaluated in float32, the rounding of the product scales with |charge * theta|
    amp = 1.0 + (abs(q) * float(np.max(np.abs(keep))) if (tdt == np.float32 and keep.size) else 0.0)
    _check_unitary(ctx, V, bucket + ':unitary', what, _tol(1e-12, eff) * amp)
    ctx.require(np.array_equal(theta, keep) and theta.dtype == keep.dtype, 'vector_vortex_retarder:theta-mutated',
                '%s modified the caller\'s theta array in place (max change %.3g)' % (what, float(np.max(np.abs(theta - keep))) if theta.size else 0.0))
    # element by element
    for n, idx in enumerate(np.ndindex(*theta.shape)):
        if n >= 40:
            break
        # the element is defined by the value of its angle: built from a float64 0-d array whatever the dtype of the batch
        one = np.asarray(vvr(np.array(float(keep[idx])) if tdt != np.float64 else np.array(keep[idx]), kw))
        U.check_close(V[idx], one, _tol(1e-13, eff) * amp, bucket + ':batch-vs-element', '%s element %s' % (what, idx), atol=_tol(1e-14, eff) * amp)
    # the plate is the pixel-by-pixel construction sin(d/2) HWP(charge theta / 2) - i cos(d/2) I, conjugated by R(rotate) (Mawet et al. (2009),
    # Eq. 7, as cited by the docstring): every pixel against (a) the harness' closed form from cos / sin of charge * theta[pixel] (the
    # product formed in theta's precision, as documented for a float charge), (b) the same construction from the library's own scalar
    # half_wave_plate / jones_rotation_matrix, (c) the library's scalar plate of charge 1 at the angle charge * theta wrapped by the
    # harness into (-pi, pi] (the plate depends on theta through charge * theta modulo 2 pi only).  Non-integer charges on azimuth maps
    # outside (-pi, pi] are where a shortcut through exp(i theta) ** charge or a wrapped angle goes wrong.
    if case.get('elementwise', True) and keep.size:
        k64 = keep.astype(np.float64)
        prod = (keep * q).astype(np.float64) if tdt == np.float32 else k64 * float(q)      # float32 maps: the product as float32 arithmetic gives it
        cq, sq = np.cos(prod), np.sin(prod)
        core = np.empty(theta.shape + (2, 2), complex)
        core[..., 0, 0], core[..., 0, 1], core[..., 1, 0], core[..., 1, 1] = cq, sq, sq, -cq
        core = math.sin(r_eff / 2) * core - 1j * math.cos(r_eff / 2) * I2
        closed = rot(-rho) @ core @ rot(rho)
        cb = bucket + ':batch-vs-pixel-construction' + ('' if qclass == 'integer' else ':non-integer-charge') + (':azimuth-outside-principal-range' if outside else '')
        tol_c = _tol(1e-12, eff) * amp
        U.check_close(V, closed, tol_c, cb, '%s vs R(-rho) [sin(d/2) [[c, s], [s, -c]] - i cos(d/2) I] R(rho) with c, s = cos, sin(charge theta) of every pixel' % what, atol=tol_c)
        hd = rot(-rho) if rho == 0 else np.asarray(ctx.call(pol.jones_rotation_matrix, -rho)).astype(complex)
        hr = rot(rho) if rho == 0 else np.asarray(ctx.call(pol.jones_rotation_matrix, rho)).astype(complex)
        for n, idx in enumerate(np.ndindex(*theta.shape)):
            if n >= 12:
                break
            phi = float(prod[idx])
            hwp = np.asarray(ctx.call(pol.half_wave_plate, phi / 2)).astype(complex)
            built = hd @ (math.sin(r_eff / 2) * hwp - 1j * math.cos(r_eff / 2) * I2) @ hr
            U.check_close(V[idx], built, tol_c, cb, '%s pixel %s (azimuth %r) vs sin(d/2) half_wave_plate(charge theta / 2) - i cos(d/2) I, conjugated by the rotation' % (what, idx, float(k64[idx])), atol=tol_c)
            wrapped = math.remainder(phi, TWO_PI)
            kw1 = dict(kw)
            kw1.pop('rotate', None)
            one1 = np.asarray(ctx.call(pol.vector_vortex_retarder, 1, np.array(wrapped), rotate=rho, **kw1)).astype(complex)
            tol_w = tol_c + 4 * abs(phi) * 2.3e-16
            U.check_close(V[idx], one1, tol_w, cb, '%s pixel %s (azimuth %r) vs the plate of charge 1 at the angle charge * theta wrapped into (-pi, pi] = %r' % (what, idx, float(k64[idx]), wrapped), atol=tol_w)
    # rotate == conjugation with the rotation matrix
    kw0 = dict(kw)
    kw0['rotate'] = 0.0
    V0 = np.asarray(vvr(keep.copy(), kw0))
    U.check_close(V, rot(-rho) @ V0 @ rot(rho), _tol(1e-12, eff) * amp, bucket + ':rotation-law', what + ' vs R(-rho) V(rotate=0) R(rho)', atol=_tol(1e-13, eff) * amp)
    if V.size:
        _check_mueller_orthogonal(ctx, V, bucket + ':mueller', what, eff if amp == 1.0 else 32)
    # the first result is the caller's: untouched by the later calls, and not handed out again after the caller edits it
    U.check_equal(np.asarray(V_raw), V, 'vector_vortex_retarder:result-overwritten', what + ': the first result changed during later calls')
    np.asarray(V_raw)[...] = 7
    U.check_close(np.asarray(vvr(theta, kw)), V, 1e-14, 'vector_vortex_retarder:aliased-state', what + ' again, after the previous result was overwritten by the caller', atol=1e-15)
    ctx.require(np.array_equal(theta, keep), 'vector_vortex_retarder:theta-mutated', '%s modified the caller\'s theta array in place (later call)' % what)
    # the caller edits its azimuth map in place (same array object, new angles in another convention): the next plate follows the data
    if case.get('edit', False) and theta.ndim and theta.size:
        new = _vortex_theta(dict(case, theta_kind={'turns': 'offset'}.get(case['theta_kind'], 'turns')), salt=55)
        new = np.rint(new).astype(tdt) if tdt.kind == 'i' else new.astype(tdt)
        theta[...] = new
        k2 = theta.copy()
        V2 = np.asarray(vvr(theta, kw))
        U.check_shape(V2, theta.shape + (2, 2), 'vector_vortex_retarder', what)
        prod = (k2 * q).astype(np.float64) if tdt == np.float32 else k2.astype(np.float64) * float(q)
        cq, sq = np.cos(prod), np.sin(prod)
        core = np.empty(theta.shape + (2, 2), complex)
        core[..., 0, 0], core[..., 0, 1], core[..., 1, 0], core[..., 1, 1] = cq, sq, sq, -cq
        closed = rot(-rho) @ (math.sin(r_eff / 2) * core - 1j * math.cos(r_eff / 2) * I2) @ rot(rho)
        amp2 = 1.0 + (abs(q) * float(np.max(np.abs(k2))) if tdt == np.float32 else 0.0)
        ctx.label('theta-edited-in-place')
        U.check_close(V2, closed, _tol(1e-12, eff) * amp2, 'vector_vortex_retarder:after-theta-edited-in-place',
                      '%s called again after the same theta array had been given new angles in place' % what, atol=_tol(1e-12, eff) * amp2)
        ctx.require(np.array_equal(theta, k2), 'vector_vortex_retarder:theta-mutated', '%s modified the caller\'s theta array in place (after the edit)' % what)


# ---- polariser / diattenuator --------------------------------------------------------------------
def strat_polarizer(tier):
    return st.fixed_dictionaries({'theta': ANG, 'phi': ANG, 'alpha': st.one_of(U.nice_float(0.0, 1.0), st.sampled_from([0.0, 1.0, 0.5, 1e-300])),
                                  'shape': SHAPE_OR_NONE, 'how': st.tuples(HOW, HOW).map(list), 'tuple_shape': st.booleans(), 'kwargs': st.booleans(),
                                  'prec': PREC, 'pre32': st.booleans()})


def check_polarizer(case, ctx):
    """ideal polariser idempotent + Malus' law; diattenuator == R(-t) diag(1, alpha) R(t) and obeys the rotation law."""
    _prec_ctx(case, ctx, _check_polarizer)


def _check_polarizer(case, ctx):
    from prysm.x import polarization as pol
    t, phi, al, shape = case['theta'], case['phi'], case['alpha'], case['shape']
    ht, ha = case.get('how', ['py', 'py'])
    prec, usekw = case.get('prec', 64), case.get('kwargs', False)
    shape_arg = _shape_arg(shape, case.get('tuple_shape', False))
    ctx.nt(_generic(t, phi))
    ctx.label('shape=None' if shape is None else 'shape:%dd' % len(shape), 'alpha=0' if al == 0 else ('alpha=1' if al == 1 else 'alpha-mid'),
              'generic' if _generic(t, phi) else 'special', 'prec:%d' % prec, 'theta-as:' + ht, 'alpha-as:' + ha)
    ta, aa = _arg(t, ht), _arg(al, ha)
    Pb_raw = ctx.call(pol.linear_polarizer, theta=ta, shape=shape_arg) if usekw else ctx.call(pol.linear_polarizer, ta, shape_arg)
    Pb = np.array(Pb_raw, copy=True)
    P = _check_batch_copies(ctx, Pb, shape, 'linear_polarizer', 'linear_polarizer(%r, shape=%r)' % (t, shape))
    U.check_close(Pb @ Pb, Pb, _tol(1e-12, prec), 'linear_polarizer:idempotent', 'P(%r)^2 vs P' % t, atol=_tol(1e-13, prec))
    e = np.array([math.cos(phi), math.sin(phi)], dtype=complex)
    I = float(np.sum(np.abs(P @ e) ** 2))
    ctx.within(abs(I - math.cos(t - phi) ** 2), _tol(1e-12, prec) + 4 * float(np.spacing(abs(t) + abs(phi))), 'linear_polarizer:malus',
                'polariser at %r rad, linear input at %r rad: transmitted %.17g, cos^2 = %.17g' % (t, phi, I, math.cos(t - phi) ** 2))
    v = np.asarray(ctx.call(pol.linear_pol_vector, math.degrees(phi)))
    U.check_close(v, e, _tol(1e-12, prec), 'linear_pol_vector', 'linear_pol_vector(%r deg)' % math.degrees(phi), atol=_tol(1e-13, prec) + 4 * float(np.spacing(abs(phi))))
    pick = int(abs(phi) * 1e6) % 3
    off, on = [False, 0, np.False_][pick], [True, 1, np.True_][pick]
    ctx.label('degrees-flag-as:' + type(off).__name__)
    vr = np.asarray(ctx.call(pol.linear_pol_vector, angle=phi, degrees=off) if usekw else ctx.call(pol.linear_pol_vector, phi, off))
    U.check_close(vr, e, _tol(1e-12, prec), 'linear_pol_vector', 'linear_pol_vector(%r, degrees=%r)' % (phi, off), atol=_tol(1e-13, prec))
    vd = np.asarray(ctx.call(pol.linear_pol_vector, math.degrees(phi), degrees=on))
    U.check_close(vd, e, _tol(1e-12, prec), 'linear_pol_vector', 'linear_pol_vector(%r deg, degrees=%r)' % (math.degrees(phi), on), atol=_tol(1e-13, prec) + 4 * float(np.spacing(abs(phi))))
    I2_ = float(np.sum(np.abs(P @ vr) ** 2))
    ctx.within(abs(I2_ - math.cos(t - phi) ** 2), _tol(1e-11, prec) + 4 * float(np.spacing(abs(t) + abs(phi))), 'linear_polarizer:malus',
                'Malus with linear_pol_vector: %.17g vs %.17g' % (I2_, math.cos(t - phi) ** 2))
    U.check_close(P, rot(-t) @ np.diag([1, 0]) @ rot(t), _tol(1e-12, prec), 'linear_polarizer:closed-form', 'P(%r)' % t, atol=_tol(1e-13, prec))
    # diattenuator
    Db = np.asarray(ctx.call(pol.linear_diattenuator, alpha=aa, theta=ta, shape=shape_arg) if usekw else ctx.call(pol.linear_diattenuator, aa, ta, shape_arg))
    D = _check_batch_copies(ctx, Db, shape, 'linear_diattenuator', 'linear_diattenuator(%r, %r, shape=%r)' % (al, t, shape))
    U.check_close(D, rot(-t) @ np.diag([1, al]) @ rot(t), _tol(1e-12, prec), 'linear_diattenuator:closed-form', 'D(%r, %r)' % (al, t), atol=_tol(1e-13, prec))
    D0 = np.asarray(ctx.call(pol.linear_diattenuator, al, 0))
    R1 = np.asarray(ctx.call(pol.jones_rotation_matrix, t))
    Rm = np.asarray(ctx.call(pol.jones_rotation_matrix, -t))
    U.check_close(D, Rm @ D0 @ R1, _tol(1e-12, prec), 'linear_diattenuator:rotation-law', 'D(%r, %r) vs R(-t) D(0) R(t)' % (al, t), atol=_tol(1e-13, prec))
    if al == 0:
        U.check_close(D, P, _tol(1e-14, prec), 'linear_polarizer:is-diattenuator(0)', 'polariser vs diattenuator(0)', atol=_tol(1e-15, prec))
    if shape is not None:
        ctx.require(list(shape_arg) == list(shape), 'linear_polarizer:argument-modified', 'the shape= sequence was modified: %r' % (shape_arg,))
    # the polariser built first still is what it was, and is not handed out again once the caller has edited it
    U.check_equal(np.asarray(Pb_raw), Pb, 'linear_polarizer:result-overwritten', 'linear_polarizer(%r, shape=%r): the result changed while other elements were built' % (t, shape))
    np.asarray(Pb_raw)[...] = 7
    again = np.asarray(ctx.call(pol.linear_polarizer, ta, shape_arg))
    U.check_close(again, Pb, 1e-14, 'linear_polarizer:aliased-state', 'linear_polarizer(%r, shape=%r) again, after the previous result was overwritten by the caller' % (t, shape), atol=1e-15)


# ---- Jones -> Mueller ----------------------------------------------------------------------------
JDT = ['complex128', 'complex128', 'complex128', 'complex64', 'float64', 'int64']
MSCALE = [[0, 0]] * 6 + [[100, -100], [70, 70], [-70, -70], [150, -150], [-150, 0], [0, 150], [-150, 150]]


def strat_mueller(tier):
    return st.fixed_dictionaries({'bshape': BSHAPE, 'seed': U.seeds, 'kind': st.sampled_from(['random', 'random', 'unitary', 'elements', 'special-mix', 'structured', 'structured']),
                                  'jdtype': st.sampled_from(JDT), 'layout': U.layouts, 'scale': st.sampled_from(MSCALE), 'pre32': st.booleans()})


_PLANT = [np.eye(2), np.zeros((2, 2)), np.array([[1, 0], [0, 0]]), np.array([[0, 1], [1, 0]]), np.array([[0, -1j], [1j, 0]]),
          np.array([[1, 1], [1, 1]]) / 2, np.array([[1, 0], [0, -1]]), np.array([[0, 1], [0, 0]])]


def _plant_matrices(J, seed, salt, cplx_ok):
    """special Jones matrices (identity, zero, projectors, Pauli matrices, nilpotent) among the generic ones"""
    B = J.shape[:-2]
    r = U.rng_of(seed, salt)
    for idx in np.ndindex(*B):
        if r.uniform() < 0.4:
            m = _PLANT[int(r.integers(0, len(_PLANT)))]
            if np.iscomplexobj(m) and not cplx_ok:
                m = _PLANT[0]
            J[idx] = m
    return J


STRUCTURES = ['diagonal', 'diagonal', 'antidiagonal', 'upper', 'lower', 'identity-multiple', 'hermitian', 'symmetric', 'generic']


def _structure(J, name):
    """give every matrix of the batch the same zero / symmetry pattern (unrotated elements are diagonal, scalar pupils are multiples of the
    identity, ...): whole-batch structure is what a shortcut inside the library would test for"""
    J = np.array(J, copy=True)
    if name == 'diagonal':
        J[..., 0, 1] = 0
        J[..., 1, 0] = 0
    elif name == 'antidiagonal':
        J[..., 0, 0] = 0
        J[..., 1, 1] = 0
    elif name == 'upper':
        J[..., 1, 0] = 0
    elif name == 'lower':
        J[..., 0, 1] = 0
    elif name == 'identity-multiple':
        J[..., 0, 1] = 0
        J[..., 1, 0] = 0
        J[..., 1, 1] = J[..., 0, 0]
    elif name == 'hermitian':
        J[..., 1, 0] = np.conj(J[..., 0, 1])
        J[..., 0, 0] = np.real(J[..., 0, 0])
        J[..., 1, 1] = np.real(J[..., 1, 1])
    elif name == 'symmetric':
        J[..., 1, 0] = J[..., 0, 1]
    return J


def _jones_batch(seed, B, salt, kind, jdt, e):
    """a batch of Jones matrices of dtype jdt and amplitude 10**e (integers stay integers)"""
    jdt = np.dtype(jdt)
    if kind == 'unitary' and jdt.kind == 'c':
        J = unitary(seed, B, salt)
    else:
        J = cplx(seed, B + (2, 2), salt)
    if jdt.kind != 'c':
        J = J.real.copy()
    if kind == 'special-mix':
        J = _plant_matrices(J, seed, salt + 5, jdt.kind == 'c')
    if jdt.kind == 'i':
        return np.rint(J * 3).astype(jdt)
    if jdt == np.complex64:
        e = int(round(e / 10))
    return (J * 10.0 ** e).astype(jdt)


def check_mueller(case, ctx):
    """M(J1 J2) == M(J1) M(J2); unitary -> orthogonal, M00 = 1; definition up to handedness; batch == loop; broadcast_kron == kron."""
    _prec_ctx(dict(case, prec=64), ctx, _check_mueller)


def _check_mueller(case, ctx):
    from prysm.x import polarization as pol
    B, seed, kind = tuple(case['bshape']), case['seed'], case['kind']
    jdt = np.dtype(case.get('jdtype', 'complex128'))
    e1, e2 = case.get('scale', [0, 0])
    lay = case.get('layout', 'C')
    low = jdt == np.complex64
    if kind == 'unitary':
        e1 = e2 = 0
    if kind == 'elements':
        e1 = e2 = 0
        if not low:
            jdt = np.dtype('complex128')
    if kind == 'unitary' and jdt.kind != 'c':
        jdt = np.dtype('complex128')
    ctx.nt(True)
    ctx.label('ndim=%d' % len(B), 'kind:' + kind, 'size>1' if int(np.prod(B)) > 1 else 'size1', 'jdtype:%s' % jdt, 'layout:' + lay,
              'scale:%s' % ('unit' if (e1, e2) == (0, 0) else 'extreme'))
    if kind == 'elements':
        if not low:
            jdt = np.dtype('complex128')
        r = U.rng_of(seed, 30)
        J1 = np.empty(B + (2, 2), complex)
        J2 = np.empty(B + (2, 2), complex)
        for idx in np.ndindex(*B):
            J1[idx] = ctx.call(pol.linear_retarder, float(r.uniform(-7, 7)), float(r.uniform(-7, 7)))
            J2[idx] = ctx.call(pol.linear_diattenuator, float(r.uniform(0, 1)), float(r.uniform(-7, 7)))
        if low:
            J1, J2 = J1.astype(jdt), J2.astype(jdt)
    elif 'jdtype' in case:
        J1, J2 = _jones_batch(seed, B, 10, kind, jdt, e1), _jones_batch(seed, B, 20, kind, jdt, e2)
    elif kind == 'unitary':
        J1, J2 = unitary(seed, B, 10), unitary(seed, B, 20)
    else:
        J1, J2 = cplx(seed, B + (2, 2), 10), cplx(seed, B + (2, 2), 20)
    if kind == 'structured':
        s1n, s2n = STRUCTURES[seed % len(STRUCTURES)], STRUCTURES[(seed // len(STRUCTURES)) % len(STRUCTURES)]
        if (seed // 97) % 2:
            s2n = 'generic'
        J1, J2 = _structure(J1, s1n), _structure(J2, s2n)
        ctx.label('J1:' + s1n, 'J2:' + s2n)
    J1, J2 = U.relayout(J1, lay), U.relayout(J2, lay)
    k1, k2 = J1.copy(), J2.copy()
    W1, W2 = J1.astype(np.complex128), J2.astype(np.complex128)     # the same numbers in the harness' working precision
    J12 = W1 @ W2
    s1 = float(np.max(np.abs(W1))) if W1.size else 0.0
    s2 = float(np.max(np.abs(W2))) if W2.size else 0.0
    S1, S2, S12 = s1 ** 2, s2 ** 2, (s1 * s2) ** 2     # magnitudes of the Mueller matrices
    rt = F32TOL if low else 1e-12
    M1_raw = ctx.call(pol.jones_to_mueller, J1)
    M1 = np.array(M1_raw, copy=True)
    M1_keep = M1.copy()
    M2 = np.asarray(ctx.call(pol.jones_to_mueller, J2))
    M12 = np.asarray(ctx.call(pol.jones_to_mueller, J12))
    _unchanged(ctx, J1, k1, 'jones_to_mueller', 'the Jones batch J1')
    _unchanged(ctx, J2, k2, 'jones_to_mueller', 'the Jones batch J2')
    for M in (M1, M2, M12):
        U.check_shape(M, B + (4, 4), 'jones_to_mueller')
        ctx.require(M.dtype.kind == 'f', 'jones_to_mueller:dtype', 'Mueller matrix dtype %s is not real' % M.dtype)
    M1, M2, M12 = M1.astype(np.float64), M2.astype(np.float64), M12.astype(np.float64)
    U.check_close(M12, M1 @ M2, rt, 'jones_to_mueller:multiplicative', 'M(J1 J2) vs M(J1) M(J2), batch %s dtype %s amplitudes %.3g, %.3g' % (B, jdt, s1, s2), atol=rt * S12)
    hands = set()
    for n, idx in enumerate(np.ndindex(*B)):
        if n >= 24:
            break
        one = np.asarray(ctx.call(pol.jones_to_mueller, J1[idx])).astype(np.float64)
        U.check_close(M1[idx], one, rt * 0.1, 'jones_to_mueller:batch-vs-element', 'element %s of batch %s' % (idx, B), atol=rt * 0.1 * S1)
        # the flag in the spellings a caller may use: the objects False / True, 0 / 1, numpy booleans; positional and keyword
        off, on = [False, 0, np.False_][n % 3], [True, 1, np.True_][(n // 3) % 3]
        nb = np.asarray(ctx.call(pol.jones_to_mueller, J1[idx], off) if n % 2 else ctx.call(pol.jones_to_mueller, J1[idx], broadcast=off)).astype(np.float64)
        U.check_close(nb, one, rt * 0.1, 'jones_to_mueller:broadcast-flag', 'broadcast=%r vs the default' % (off,), atol=rt * 0.1 * S1)
        if case.get('flags', True):
            yb = np.asarray(ctx.call(pol.jones_to_mueller, J1[idx], broadcast=on)).astype(np.float64)
            U.check_close(yb, one, rt * 0.1, 'jones_to_mueller:broadcast-flag', 'broadcast=%r vs the default' % (on,), atol=rt * 0.1 * S1)
        m00 = 0.5 * float(np.sum(np.abs(W1[idx]) ** 2))
        if m00 > 0:
            ea, eb = U.relerr(one, mueller_ref(W1[idx], 1)), U.relerr(one, mueller_ref(W1[idx], -1))
            ctx.within(min(ea, eb), rt, 'jones_to_mueller:definition',
                        'M differs from tr(s_i J s_j J^H)/2 in both handedness conventions (rel err %.3g / %.3g) for J=%r' % (ea, eb, W1[idx].tolist()))
            if abs(ea - eb) > 1e3 * rt:
                hands.add(1 if ea < eb else -1)
        else:
            ctx.require(not np.any(one), 'jones_to_mueller:definition', 'Mueller matrix of the zero Jones matrix is %r' % one.tolist())
        tol00 = rt * max(1, m00) if (e1, e2) == (0, 0) or 'scale' not in case else rt * m00
        ctx.within(abs(one[0, 0] - m00), tol00, 'jones_to_mueller:M00', 'M00=%r, sum|J|^2/2=%r' % (one[0, 0], m00))
    ctx.require(len(hands) <= 1, 'jones_to_mueller:definition', 'handedness convention differs between elements of one batch')
    if case.get('flags', True):
        # the whole batch with the flag spelled as a truthy object that is not True
        on = [1, np.True_, True][seed % 3]
        Mb = np.asarray(ctx.call(pol.jones_to_mueller, J1, broadcast=on) if seed % 2 else ctx.call(pol.jones_to_mueller, J1, on))
        U.check_shape(Mb, B + (4, 4), 'jones_to_mueller:broadcast-flag', 'jones_to_mueller(batch %s, broadcast=%r)' % (B, on))
        U.check_close(Mb.astype(np.float64), M1, rt * 0.1, 'jones_to_mueller:broadcast-flag', 'jones_to_mueller(batch %s, broadcast=%r) vs the default' % (B, on), atol=rt * 0.1 * S1)
    if kind == 'unitary' and jdt.kind == 'c':
        for J, M in ((J1, M1), (J2, M2)):
            e = M @ np.swapaxes(M, -1, -2)
            U.check_close(e, np.broadcast_to(I4, e.shape), _tol(1e-11, 32 if low else 64), 'jones_to_mueller:orthogonal', 'M M^T for unitary J, batch %s' % (B,))
            U.check_close(M[..., 0, 0], np.ones(B), _tol(1e-12, 32 if low else 64), 'jones_to_mueller:orthogonal:M00', 'M00 for unitary J')
    # broadcast_kron
    K = np.asarray(ctx.call(pol.broadcast_kron, J1, J2))
    U.check_shape(K, B + (4, 4), 'broadcast_kron')
    for n, idx in enumerate(np.ndindex(*B)):
        if n >= 24:
            break
        U.check_close(K[idx], np.kron(W1[idx], W2[idx]), rt * 0.1, 'broadcast_kron', 'element %s of batch %s vs numpy.kron' % (idx, B), atol=1e-15 * s1 * s2)
    # the same batch object for both factors (J (x) J), against numpy.kron of every element with itself and against an equal copy
    if case.get('same_object', True) and abs(e1) <= 100:
        K11 = np.asarray(ctx.call(pol.broadcast_kron, J1, J1))
        U.check_shape(K11, B + (4, 4), 'broadcast_kron:same-object')
        K1c = np.asarray(ctx.call(pol.broadcast_kron, J1, J1.copy()))
        U.check_equal(K11, K1c, 'broadcast_kron:same-object', 'broadcast_kron(J, J) with one array object for both factors vs broadcast_kron(J, J.copy()), batch %s dtype %s' % (B, jdt))
        for n, idx in enumerate(np.ndindex(*B)):
            if n >= 24:
                break
            U.check_close(K11[idx], np.kron(W1[idx], W1[idx]), rt * 0.1, 'broadcast_kron:same-object', 'element %s of batch %s: J (x) J vs numpy.kron' % (idx, B), atol=1e-15 * s1 * s1)
    _unchanged(ctx, J1, k1, 'broadcast_kron', 'the Jones batch J1')
    _unchanged(ctx, J2, k2, 'broadcast_kron', 'the Jones batch J2')
    # the first Mueller batch belongs to the caller
    U.check_equal(np.asarray(M1_raw), M1_keep, 'jones_to_mueller:result-overwritten', 'M(J1) changed during later conversions')


# ---- Pauli ---------------------------------------------------------------------------------------
PSCALE = [0, 0, 0, 0, -300, 300, -150, 150, -17]


def strat_pauli(tier):
    return st.fixed_dictionaries({'bshape': BSHAPE, 'seed': U.seeds, 'shape': SHAPE_OR_NONE, 'jdtype': st.sampled_from(JDT), 'layout': U.layouts,
                                  'scale': st.sampled_from(PSCALE), 'kind': st.sampled_from(['random', 'random', 'special-mix']),
                                  'tuple_shape': st.booleans(), 'np_index': st.booleans(), 'prec': PREC, 'pre32': st.booleans()})


def check_pauli(case, ctx):
    """sum_k c_k sigma_k == J for batches; pauli_spin_matrix == the Pauli matrices (with shape=); c_k == tr(sigma_k J)/2."""
    _prec_ctx(case, ctx, _check_pauli)


def _check_pauli(case, ctx):
    from prysm.x import polarization as pol
    B, seed, shape = tuple(case['bshape']), case['seed'], case['shape']
    jdt, lay, e = np.dtype(case.get('jdtype', 'complex128')), case.get('layout', 'C'), case.get('scale', 0)
    shape_arg = _shape_arg(shape, case.get('tuple_shape', False))
    ctx.nt(True)
    ctx.label('ndim=%d' % len(B), 'shape=None' if shape is None else 'shape:%dd' % len(shape), 'jdtype:%s' % jdt, 'layout:' + lay,
              'scale:%s' % ('unit' if e == 0 else 'extreme'), 'prec:%d' % case.get('prec', 64))
    if 'jdtype' in case:
        J = U.relayout(_jones_batch(seed, B, 40, case.get('kind', 'random'), jdt, e), lay)
    else:
        J = cplx(seed, B + (2, 2), 40)
    keep = J.copy()
    W = J.astype(np.complex128)
    sc = float(np.max(np.abs(W))) if W.size else 0.0
    rt = 1e-5 if jdt == np.complex64 else 1e-14
    c = ctx.call(pol.pauli_coefficients, J)
    _unchanged(ctx, J, keep, 'pauli_coefficients', 'the Jones batch')
    ctx.require(len(c) == 4, 'pauli_coefficients:len', 'expected 4 coefficients, got %d' % len(c))
    S = []
    for k in range(4):
        kk = np.int64(k) if case.get('np_index', False) else k
        sk_raw = ctx.call(pol.pauli_spin_matrix, kk, shape_arg)
        sk = np.array(sk_raw, copy=True)
        s1 = _check_batch_copies(ctx, sk, shape, 'pauli_spin_matrix', 'pauli_spin_matrix(%d, shape=%r)' % (k, shape))
        U.check_equal(s1, SIG[k], 'pauli_spin_matrix:%d' % k, 'pauli_spin_matrix(%d)' % k)
        S.append(s1.astype(np.complex128))
        # a Pauli matrix handed out earlier and edited by the caller must not come back
        np.asarray(sk_raw)[...] = 7
        again = np.asarray(ctx.call(pol.pauli_spin_matrix, kk, shape_arg))
        U.check_equal(again, sk, 'pauli_spin_matrix:aliased-state', 'pauli_spin_matrix(%d, shape=%r) again, after the previous result was overwritten by the caller' % (k, shape))
    if shape is not None:
        ctx.require(list(shape_arg) == list(shape), 'pauli_spin_matrix:argument-modified', 'the shape= sequence was modified: %r' % (shape_arg,))
    rec = np.zeros(B + (2, 2), complex)
    rec_lib = np.zeros(B + (2, 2), complex)
    for k in range(4):
        ck = np.asarray(c[k])
        U.check_shape(ck, B, 'pauli_coefficients', 'c%d' % k)
        ck = ck.astype(np.complex128)
        want = 0.5 * np.trace(SIG[k] @ W, axis1=-2, axis2=-1)
        U.check_close(ck, want, rt, 'pauli_coefficients:c%d' % k, 'c%d vs tr(sigma_%d J)/2, batch %s dtype %s amplitude %.3g' % (k, k, B, jdt, sc), atol=rt * 0.1 * sc)
        rec = rec + ck[..., None, None] * SIG[k]
        rec_lib = rec_lib + ck[..., None, None] * S[k]
    U.check_close(rec, W, rt, 'pauli:reconstruct', 'sum c_k sigma_k vs J, batch %s dtype %s amplitude %.3g' % (B, jdt, sc), atol=rt * 0.1 * sc)
    U.check_close(rec_lib, W, rt, 'pauli:reconstruct', 'sum c_k pauli_spin_matrix(k) vs J, batch %s' % (B,), atol=rt * 0.1 * sc)
    _unchanged(ctx, J, keep, 'pauli_coefficients', 'the Jones batch')


# ---- polarised propagation -----------------------------------------------------------------------
FUNCS = ['focus', 'unfocus', 'focus_fixed_sampling', 'unfocus_fixed_sampling', 'angular_spectrum']
SHIFTS = [None, None, [0.0, 0.0], [0.3, -0.7], [1.5, 0.0], [0.0, -2.2], [0.4, 0.4]]


# (routine, FFT backend) pairs that are not generated because the routine itself - not the polarised adapter - fails there on the
# unchanged code: angular_spectrum_transfer_function calls fft.fftfreq directly instead of fttools.fftfreq, so it raises AttributeError
# with a backend that provides the transforms only (/verif/fixes/C20/03-angular-spectrum-fftfreq-fallback.*; the check itself honours
# any backend named in a case, so the saved replays show the failure and pass on the repaired tree).  Empty this set once that
# repair is in the repository.
BACKEND_GAPS = {('angular_spectrum', 'transforms-only')}


def _avoid_gap(case):
    names = [case['func']] if 'func' in case else sorted({n for op in case['ops'] for n in (FUNCS if op == 'default' else op)})
    if any((n, case['backend']) in BACKEND_GAPS for n in names):
        return dict(case, backend='numpy')
    return case


def strat_prop(tier):
    return _strat_prop(tier).map(_avoid_gap)


def _strat_prop(tier):
    mx = 10 if tier == 'quick' else 24
    ax = U.axis_len(mx, 2)
    return st.fixed_dictionaries({
        'func': st.sampled_from(FUNCS), 'shape': st.one_of(st.tuples(ax, ax).map(list), st.tuples(ax, ax).map(list), ax.map(lambda n: [n, n])), 'seed': U.seeds,
        'Q': st.sampled_from([1, 2, 3, 1.5, 2.5]), 'out': st.one_of(st.integers(2, mx), st.tuples(st.integers(2, mx), st.integers(2, mx)).map(list)),
        'method': st.sampled_from(['mdft', 'czt']), 'kwargs': st.booleans(), 'dx': st.sampled_from([0.1, 0.25, 1.0]),
        'z': st.sampled_from([0.0, 1.0, 25.0, -3.0]),
        'edtype': st.sampled_from(['complex128', 'complex128', 'complex128', 'complex64', 'float64']),
        'elayout': st.sampled_from(['jones-last', 'jones-last', 'components-first', 'F', 'strided']),
        'shift': st.sampled_from(SHIFTS), 'tf': st.booleans(), 'escale': st.sampled_from([0, 0, 0, -150, 150, -300]), 'backend': U.fft_backends})


def _field(seed, shape, salt, edt, lay, e):
    """a polarised field (*shape, 2, 2) of the drawn dtype / memory layout / amplitude"""
    edt = np.dtype(edt)
    E = cplx(seed, shape + (2, 2), salt)
    if edt.kind == 'f':
        E = E.real.copy()
    if edt == np.complex64:
        e = int(round(e / 10))
    E = (E * 10.0 ** e).astype(edt)
    if lay == 'components-first':
        return np.moveaxis(np.ascontiguousarray(np.moveaxis(E, (-2, -1), (0, 1))), (0, 1), (-2, -1))   # each component contiguous
    if lay in ('F', 'strided'):
        return U.relayout(E, lay)
    return np.ascontiguousarray(E)


def check_prop(case, ctx):
    """jones_adapter(f)(E)[..., i, j] == f(E[..., i, j]) for every supported routine; 2-D input passes through unchanged."""
    with U.fft_backend(case.get('backend', 'scipy')):
        ctx.label('fft:' + case.get('backend', 'scipy'))
        _check_prop(case, ctx)


def _check_prop(case, ctx):
    from prysm.x import polarization as pol
    from prysm import propagation as P
    name, shape, seed = case['func'], tuple(case['shape']), case['seed']
    edt, lay, esc = np.dtype(case.get('edtype', 'complex128')), case.get('elayout', 'jones-last'), case.get('escale', 0)
    ctx.require(sorted(pol.supported_propagation_funcs) == sorted(FUNCS), 'supported_propagation_funcs',
                'list changed: %r' % (pol.supported_propagation_funcs,))
    f = getattr(P, name)
    assert not hasattr(f, '__wrapped__'), 'prysm.propagation.%s is already wrapped (global monkey-patch leaked into the harness)' % name
    g = ctx.call(pol.jones_adapter, f)
    E = _field(seed, shape, 50, edt, lay, esc)
    Ekeep = E.copy()
    out = U.tup(case['out'])
    shift = case.get('shift')
    extra_arrays = []
    if name in ('focus', 'unfocus'):
        a, k = ((), {'Q': case['Q']}) if case['kwargs'] else ((case['Q'],), {})
    elif name in ('focus_fixed_sampling', 'unfocus_fixed_sampling'):
        base = (case['dx'], 10.0, 0.5, 0.2, out)
        if case['kwargs']:
            a, k = (), dict(zip(('input_dx', 'prop_dist', 'wavelength', 'output_dx', 'output_samples'), base))
            k['method'] = case['method']
        else:
            a, k = base, {'method': case['method']}
        if shift is not None:
            k['shift'] = tuple(shift)     # (sx, sy), in general sx != sy
    else:
        a, k = (0.5, case['dx'], case['z']), {'Q': case['Q'] if case['Q'] in (1, 2, 3) else 2}
        if case.get('tf', False):
            tfa = cplx(seed, shape, 70)   # a transfer function without any symmetry; "clobbers all other arguments"
            k['tf'] = tfa
            extra_arrays.append((tfa, tfa.copy(), 'the tf= array'))
    low = edt == np.complex64
    rt = 1e-4 if low else 1e-13
    ctx.nt(shape[0] != shape[1] or shape[0] % 2 == 1)
    ctx.label('func:' + name, 'square' if shape[0] == shape[1] else 'nonsquare', 'kwargs' if case['kwargs'] else 'positional', 'edtype:%s' % edt,
              'elayout:' + lay, 'shift:' + ('none' if 'shift' not in k else ('asymmetric' if k['shift'][0] != k['shift'][1] else 'symmetric')),
              'tf' if 'tf' in k else 'no-tf', 'escale:%s' % ('unit' if esc == 0 else 'extreme'))
    what = 'jones_adapter(%s)(E%s %s %s, *%r, **%r)' % (name, list(E.shape), edt, lay, a, {kk: (vv if kk != 'tf' else '<array>') for kk, vv in k.items()})
    got_raw = ctx.call(g, E, *a, **k)
    got = np.asarray(got_raw)
    comp = [[np.asarray(ctx.call(f, np.ascontiguousarray(Ekeep[..., i, j]), *a, **k)) for j in range(2)] for i in range(2)]
    U.check_shape(got, comp[0][0].shape + (2, 2), 'jones_adapter:' + name, what)
    sc = max(float(np.max(np.abs(c_))) for row in comp for c_ in row)
    for i in range(2):
        for j in range(2):
            U.check_close(got[..., i, j], comp[i][j], rt, 'jones_adapter:%s:component' % name, '%s component [%d,%d] vs direct propagation' % (what, i, j), atol=rt * sc)
    ctx.require(np.iscomplexobj(got), 'jones_adapter:%s:dtype' % name, 'output dtype %s' % got.dtype)
    _unchanged(ctx, E, Ekeep, 'jones_adapter:' + name, 'the polarised field')
    for arr, kp, nm in extra_arrays:
        _unchanged(ctx, arr, kp, 'jones_adapter:' + name, nm)
    # scalar (2-D) input passes through
    s = np.ascontiguousarray(Ekeep[..., 0, 1])
    U.check_close(np.asarray(ctx.call(g, s, *a, **k)), comp[0][1], rt, 'jones_adapter:%s:passthrough' % name, '2-D input through the adapter', atol=rt * sc)
    ctx.require(getattr(P, name) is f, 'jones_adapter:global-side-effect', 'jones_adapter replaced prysm.propagation.%s' % name)
    # a second polarised propagation (other field, same shapes) must leave the first result untouched: the caller owns it
    keep = got.copy()
    E2 = _field(seed, shape, 51, edt, 'jones-last', esc)
    got2 = np.asarray(ctx.call(g, E2, *a, **k))
    U.check_equal(np.asarray(got_raw), keep, 'jones_adapter:%s:result-overwritten-by-later-call' % name, 'first result changed after a second call of the same wrapped routine')
    for i in range(2):
        for j in range(2):
            U.check_close(got2[..., i, j], np.asarray(ctx.call(f, np.ascontiguousarray(E2[..., i, j]), *a, **k)), rt,
                          'jones_adapter:%s:component' % name, 'second call, component [%d,%d]' % (i, j), atol=rt * sc)
    # ... and a third one through a *fresh* adapter of the same routine with other parameters (state shared between adapters)
    g3 = ctx.call(pol.jones_adapter, f)
    if name in ('focus', 'unfocus'):
        ctx.call(g3, E2, 1 if case['Q'] != 1 else 2)
    elif name == 'angular_spectrum':
        ctx.call(g3, E2, 0.6, case['dx'], 2.0, Q=1)
    else:
        ctx.call(g3, E2, case['dx'], 10.0, 0.5, 0.2, out, shift=(0.25, -0.5))
    U.check_equal(np.asarray(got_raw), keep, 'jones_adapter:%s:result-overwritten-by-later-call' % name, 'first result changed after a call through a second adapter')
    again = np.asarray(ctx.call(g, E, *a, **k))
    U.check_close(again, keep, rt, 'jones_adapter:%s:history' % name, '%s again, after calls with other parameters' % what, atol=rt * sc)
    # applying a spatially varying optic to a scalar field is the element-wise product
    A = cplx(seed, shape, 60)
    if edt.kind == 'f':
        A = A.real.copy()
    Akeep = A.copy()
    JA = np.asarray(ctx.call(pol.apply_polarization_optic, A, E))
    U.check_shape(JA, shape + (2, 2), 'apply_polarization_optic')
    for i in range(2):
        for j in range(2):
            U.check_close(JA[..., i, j], A * Ekeep[..., i, j], 1e-6 if low else 1e-13, 'apply_polarization_optic', 'component [%d,%d]' % (i, j))
    _unchanged(ctx, A, Akeep, 'apply_polarization_optic', 'the scalar field')
    _unchanged(ctx, E, Ekeep, 'apply_polarization_optic', 'the Jones optic')


# ---- add_jones_propagation: sequences of calls ---------------------------------------------------
def strat_global(tier):
    return _strat_global(tier).map(_avoid_gap)


def _strat_global(tier):
    mx = 8 if tier == 'quick' else 16
    ax = U.axis_len(mx, 2)
    sub = st.lists(st.sampled_from(FUNCS), min_size=0, max_size=5, unique=True)
    op = st.one_of(st.just('default'), sub, sub, st.sampled_from(FUNCS).map(lambda n: [n]))
    return st.fixed_dictionaries({
        'ops': st.lists(op, min_size=1, max_size=4), 'as_tuple': st.booleans(), 'kw': st.booleans(),
        'shape': st.one_of(st.tuples(ax, ax).map(list), ax.map(lambda n: [n, n])), 'seed': U.seeds,
        'Q': st.sampled_from([1, 2, 1, 3]), 'out': st.one_of(st.integers(2, mx), st.tuples(st.integers(2, mx), st.integers(2, mx)).map(list)),
        'dx': st.sampled_from([0.1, 0.25, 1.0]), 'z': st.sampled_from([0.0, 1.0, 25.0, -3.0]),
        'edtype': st.sampled_from(['complex128', 'complex128', 'complex64', 'float64']),
        'elayout': st.sampled_from(['jones-last', 'jones-last', 'components-first', 'F', 'strided']), 'backend': U.fft_backends})


def _restore_namespace(mod, snap):
    """put every attribute of a module back to the object it was (and drop new ones)"""
    now = vars(mod)
    for key in [k_ for k_ in now if k_ not in snap]:
        delattr(mod, key)
    for key, val in snap.items():
        if now.get(key, None) is not val:
            setattr(mod, key, val)


def check_global(case, ctx):
    """after any sequence of add_jones_propagation(...) calls, every routine requested so far propagates the four Jones components independently."""
    import importlib
    from prysm.x import polarization as pol
    from prysm import propagation as P
    from vlib.core import Violation
    snap = dict(vars(P))
    for name in FUNCS:
        assert not hasattr(snap[name], '__wrapped__'), 'prysm.propagation.%s is already wrapped (global monkey-patch leaked into the harness)' % name
    # every case starts from the state of a fresh process: module-level state of prysm.x.polarization is rebuilt, the functions of
    # prysm.propagation are the originals (and are put back whatever happens)
    pol = importlib.reload(pol)
    try:
        with U.fft_backend(case.get('backend', 'scipy')):
            ctx.label('fft:' + case.get('backend', 'scipy'))
            _check_global(case, ctx, pol, P, {n_: snap[n_] for n_ in FUNCS}, Violation)
    finally:
        _restore_namespace(P, snap)
        importlib.reload(pol)


def _check_global(case, ctx, pol, P, orig, Violation):
    shape, seed = tuple(case['shape']), case['seed']
    edt, lay = np.dtype(case['edtype']), case['elayout']
    ctx.require(sorted(pol.supported_propagation_funcs) == sorted(FUNCS), 'supported_propagation_funcs', 'list changed: %r' % (pol.supported_propagation_funcs,))
    out = U.tup(case['out'])
    args = {'focus': ((case['Q'],), {}), 'unfocus': ((case['Q'],), {}),
            'focus_fixed_sampling': ((case['dx'], 10.0, 0.5, 0.2, out), {}), 'unfocus_fixed_sampling': ((case['dx'], 10.0, 0.5, 0.2, out), {}),
            'angular_spectrum': ((0.5, case['dx'], case['z']), {'Q': case['Q']})}
    E = _field(seed, shape, 80, edt, lay, 0)
    Ekeep = E.copy()
    low = edt == np.complex64
    rt = 1e-4 if low else 1e-13
    # the component-wise reference, from the routines as they were before anything was adapted
    ops = case['ops']
    names_of = [list(FUNCS) if op == 'default' else list(op) for op in ops]
    ref = {}
    for name in FUNCS:
        if not any(name in nm for nm in names_of):
            continue     # (never requested in this case: not needed)
        a, k = args[name]
        ref[name] = [[np.asarray(ctx.call(orig[name], np.ascontiguousarray(Ekeep[..., i, j]), *a, **k)) for j in range(2)] for i in range(2)]
    ctx.nt(any(names_of))
    seen = set()
    grows = False          # a later call asks for routines that were not requested before, together with some that were
    for nm in names_of:
        if seen and set(nm) & seen and set(nm) - seen:
            grows = True
        seen |= set(nm)
    ctx.label('calls:%d' % len(ops), 'has-default-call' if 'default' in ops else 'explicit-lists-only',
              'later-call-overlaps-and-extends-earlier' if grows else 'no-overlapping-extension',
              'same-routine-requested-twice' if sum(len(nm) for nm in names_of) > len(seen) else 'each-routine-requested-once',
              'edtype:%s' % edt, 'elayout:' + lay, 'square' if shape[0] == shape[1] else 'nonsquare', 'routines-requested:%d' % len(seen))
    requested = []
    history = []
    for op, nm in zip(ops, names_of):
        if op == 'default':
            history.append('add_jones_propagation()')
            ctx.call(pol.add_jones_propagation)
        else:
            arg = tuple(nm) if case['as_tuple'] else list(nm)
            keep = list(nm)
            history.append('add_jones_propagation(%s%r)' % ('funcs_to_change=' if case['kw'] else '', arg))
            if case['kw']:
                ctx.call(pol.add_jones_propagation, funcs_to_change=arg)
            else:
                ctx.call(pol.add_jones_propagation, arg)
            ctx.require(list(arg) == keep and type(arg) is (tuple if case['as_tuple'] else list), 'add_jones_propagation:argument-modified',
                        'the list of names was changed: %r -> %r' % (keep, arg))
        ctx.require(sorted(pol.supported_propagation_funcs) == sorted(FUNCS), 'add_jones_propagation:supported-list-modified',
                    'supported_propagation_funcs is %r after %s' % (pol.supported_propagation_funcs, '; '.join(history)))
        requested += [n_ for n_ in nm if n_ not in requested]
        after = 'after ' + '; '.join(history)
        for name in FUNCS:
            if name not in requested:
                continue
            a, k = args[name]
            fn = getattr(P, name)
            what = 'propagation.%s(E%s %s %s, *%r, **%r) %s' % (name, list(E.shape), edt, lay, a, k, after)
            try:
                got = np.asarray(ctx.call(fn, E, *a, **k))
            except Violation as v:
                ctx.fail('add_jones_propagation:%s:polarised-field-not-propagated' % name, '%s: %s' % (what, v.msg))
            comp = ref[name]
            U.check_shape(got, comp[0][0].shape + (2, 2), 'add_jones_propagation:%s:polarised-field-not-propagated' % name, what)
            sc = max(float(np.max(np.abs(c_))) for row in comp for c_ in row)
            for i in range(2):
                for j in range(2):
                    U.check_close(got[..., i, j], comp[i][j], rt, 'add_jones_propagation:%s:component' % name,
                                  '%s component [%d,%d] vs propagating that component alone' % (what, i, j), atol=rt * sc)
            # a scalar (2-D) field still goes through the routine as before
            s2 = np.ascontiguousarray(Ekeep[..., 1, 0])
            U.check_close(np.asarray(ctx.call(fn, s2, *a, **k)), comp[1][0], rt, 'add_jones_propagation:%s:passthrough' % name,
                          '2-D input, %s' % what, atol=rt * sc)
        _unchanged(ctx, E, Ekeep, 'add_jones_propagation', 'the polarised field')


# ---- very many requests in one process ------------------------------------------------------------------
BURST_CTORS = ['rotation', 'retarder', 'hwp', 'qwp', 'polarizer', 'diattenuator', 'vortex', 'pauli', 'mueller', 'mixed', 'mixed', 'mixed']


def strat_burst(tier):
    return st.fixed_dictionaries({'n': st.integers(40, 300), 'seed': U.seeds, 'ctor': st.sampled_from(BURST_CTORS), 'revisit': st.integers(0, 5),
                                  'stride': st.integers(2, 17), 'shape': SHAPE_OR_NONE, 'near': st.sampled_from([1e-6, 1e-5, 1e-4, 3e-7])})


def check_burst(case, ctx):
    """40-300 distinct small requests to one constructor (or all of them in turn), re-visits of an early request in between, parameters that
    repeat exactly or differ by a relative 1e-6 .. 1e-4 from an earlier one: every answer equals the harness' closed form."""
    with U.precision(64):
        _check_burst(case, ctx)


def _check_burst(case, ctx):
    from prysm.x import polarization as pol
    n, seed, ctor, shape = case['n'], case['seed'], case['ctor'], case['shape']
    r = U.rng_of(seed, 90)
    t = r.uniform(-7, 7, n)
    d = r.uniform(-7, 7, n)
    al = r.uniform(0, 1, n)
    # every fifth request repeats an earlier angle exactly, every seventh is next to an earlier one
    for i in range(5, n, 5):
        t[i] = t[int(r.integers(0, i))]
    for i in range(7, n, 7):
        t[i] = t[int(r.integers(0, i))] * (1 + case['near'])
    charges = [1, 2, -1, 0.5, 3, 1.5]
    ctx.nt(True)
    ctx.label('burst:' + ctor, 'requests:%d+' % (n // 50 * 50), 'shape=None' if shape is None else 'shape:%dd' % len(shape))
    hands = set()

    def request(i):
        """(what, result, expected) of the i-th request"""
        kind = ctor if ctor != 'mixed' else BURST_CTORS[i % 9]
        ti, di, ai = float(t[i]), float(d[i]), float(al[i])
        if kind == 'rotation':
            return 'jones_rotation_matrix(%r, %r)' % (ti, shape), ctx.call(pol.jones_rotation_matrix, ti, shape), rot(ti)
        if kind == 'retarder':
            return 'linear_retarder(%r, %r, %r)' % (di, ti, shape), ctx.call(pol.linear_retarder, di, ti, shape), rot(-ti) @ np.diag([1, np.exp(1j * di)]) @ rot(ti)
        if kind == 'hwp':
            return 'half_wave_plate(%r, %r)' % (ti, shape), ctx.call(pol.half_wave_plate, ti, shape), rot(-ti) @ np.diag([1, -1]) @ rot(ti)
        if kind == 'qwp':
            return 'quarter_wave_plate(%r, %r)' % (ti, shape), ctx.call(pol.quarter_wave_plate, ti, shape), rot(-ti) @ np.diag([1, 1j]) @ rot(ti)
        if kind == 'polarizer':
            return 'linear_polarizer(%r, %r)' % (ti, shape), ctx.call(pol.linear_polarizer, ti, shape), rot(-ti) @ np.diag([1, 0]) @ rot(ti)
        if kind == 'diattenuator':
            return 'linear_diattenuator(%r, %r, %r)' % (ai, ti, shape), ctx.call(pol.linear_diattenuator, ai, ti, shape), rot(-ti) @ np.diag([1, ai]) @ rot(ti)
        if kind == 'pauli':
            return 'pauli_spin_matrix(%d, %r)' % (i % 4, shape), ctx.call(pol.pauli_spin_matrix, i % 4, shape), SIG[i % 4]
        if kind == 'vortex':
            q = charges[i % len(charges)]
            th = np.array([ti, di, ti + di])
            c_, s_ = np.cos(th * q), np.sin(th * q)
            core = np.empty((3, 2, 2), complex)
            core[:, 0, 0], core[:, 0, 1], core[:, 1, 0], core[:, 1, 1] = c_, s_, s_, -c_
            want = rot(-ai) @ (math.sin(di / 2) * core - 1j * math.cos(di / 2) * I2) @ rot(ai)
            return 'vector_vortex_retarder(%r, %r, %r, %r)' % (q, th.tolist(), di, ai), ctx.call(pol.vector_vortex_retarder, q, th, di, ai), want
        J = cplx(seed, (2, 2), 1000 + i)
        M = np.asarray(ctx.call(pol.jones_to_mueller, J))
        ea, eb = U.relerr(M, mueller_ref(J, 1)), U.relerr(M, mueller_ref(J, -1))
        if abs(ea - eb) > 1e-9:
            hands.add(1 if ea < eb else -1)
        return 'jones_to_mueller(%r)' % (J.tolist(),), M, mueller_ref(J, 1 if ea <= eb else -1)

    def verify(i, when):
        what, got, want = request(i)
        got = np.asarray(got)
        if want.shape == (2, 2) and shape is not None and got.ndim > 2:
            got = _check_batch_copies(ctx, got, shape, 'burst:' + ctor, what)
        U.check_close(got, want, 1e-12, 'burst:%s:%s' % (ctor, when), 'request %d of %d, %s' % (i, n, what), atol=1e-13)
        return got
    first = None
    for i in range(n):
        g = verify(i, 'request')
        if i == case['revisit']:
            first, first_keep = g, np.array(g, copy=True)
        if i > case['revisit'] and i % case['stride'] == 0:
            verify(case['revisit'], 're-visit')
    verify(case['revisit'], 're-visit')
    ctx.require(len(hands) <= 1, 'burst:jones_to_mueller:definition', 'handedness convention changed during the burst')
    if first is not None:
        U.check_equal(first, first_keep, 'burst:%s:result-overwritten' % ctor, 'the result of request %d changed during the later requests' % case['revisit'])


# ---- batches that cross internal block / threshold sizes ---------------------------------------------
BIG_BASES = {'quick': [2 ** 16, 2 ** 16, 2 ** 16, 2 ** 15, 2 ** 17, 3 * 2 ** 15], 'thorough': [2 ** 16, 2 ** 16, 2 ** 15, 2 ** 17, 3 * 2 ** 15, 3 * 2 ** 16, 2 ** 18]}
BIG_FIXED = [[300, 300], [130, 520], [1, 65537], [65537], [257, 257], [2, 3, 10923], [182, 181]]


def strat_large(tier):
    """leading shapes with just more than 2**15 / 2**16 / 2**17 ... matrices, never a multiple of 2**15 (thin, square-ish, 1-D, 3-D)"""
    shape = st.one_of(st.sampled_from(BIG_FIXED), st.fixed_dictionaries({
        'base': st.sampled_from(BIG_BASES[tier]), 'extra': st.one_of(st.integers(1, 40), st.integers(1, 4000)),
        'rows': st.sampled_from([0, 0, 1, 2, 3, 7, 130, 255]), 'orient': st.sampled_from(['rc', 'cr', 'r1c'])}))
    return st.fixed_dictionaries({'shape': shape, 'what': st.sampled_from(['mueller', 'mueller', 'mueller', 'pauli', 'vortex']), 'seed': U.seeds,
                                  'kind': st.sampled_from(['random', 'unitary', 'unitary', 'structured']), 'jdtype': st.sampled_from(['complex128', 'complex128', 'complex64', 'float64']),
                                  'layout': st.sampled_from(['C', 'C', 'F']), 'charge': st.sampled_from([1, 2, -2, 3, 0.5, 6, 1.5, -0.5, 2.25]), 'ret': st.sampled_from([2.1, math.pi, 0.4, -1.3]),
                                  'rotate': st.sampled_from([0.3, 0.0, -1.1]), 'tconv': st.sampled_from(['principal', 'zero-to-2pi', 'turns', 'zero-to-2pi'])})


def _big_shape(spec):
    if isinstance(spec, list):
        return tuple(spec)
    total, rows = spec['base'] + spec['extra'], spec['rows']
    if rows == 0:
        return (total,)
    cols = total // rows + 1
    return {'rc': (rows, cols), 'cr': (cols, rows), 'r1c': (rows, 1, cols)}[spec['orient']]


def _unitary_fast(seed, B, salt):
    """unitary 2x2 matrices in closed form (vectorised): e^{i phi} [[a, b], [-b*, a*]], |a|^2 + |b|^2 = 1"""
    r = U.rng_of(seed, salt)
    al, be, ga, ph = (r.uniform(0, TWO_PI, B) for _ in range(4))
    mix = r.uniform(0, math.pi / 2, B)
    a, b = np.cos(mix) * np.exp(1j * al), np.sin(mix) * np.exp(1j * be)
    J = np.empty(B + (2, 2), complex)
    J[..., 0, 0], J[..., 0, 1], J[..., 1, 0], J[..., 1, 1] = a, b, -np.conj(b), np.conj(a)
    return J * np.exp(1j * ph)[..., None, None]


def _mueller_ref_all(W, hand):
    """tr(s_i J s_j J^H) / 2 for every matrix of the batch (harness arithmetic, vectorised)"""
    Wh = dag(W)
    s = [SIG[0], SIG[1], SIG[2], hand * SIG[3]]
    left = [si @ W for si in s]
    right = [sj @ Wh for sj in s]
    M = np.empty(W.shape[:-2] + (4, 4))
    for i in range(4):
        for j in range(4):
            M[..., i, j] = 0.5 * np.einsum('...ab,...ba->...', left[i], right[j]).real
    return M


def _sample_indices(N, seed, n=16):
    pick = {0, 1, N - 2, N - 1}
    for b in range(2 ** 15, N, 2 ** 15):
        pick |= {b - 1, b, b + 1}
    step = max(1, N // n)
    pick |= set(range(seed % step, N, step))
    return sorted(k for k in pick if 0 <= k < N)


def _first_bad(bad, B):
    k = int(np.flatnonzero(bad.reshape(-1))[0])
    return k, tuple(int(v) for v in np.unravel_index(k, B))


def check_large(case, ctx):
    """batches of more than 2**15 / 2**16 / 2**17 matrices: every element against the vectorised definition, a sample against the
    element-by-element call, and the algebra (multiplicative, unitary -> orthogonal with M00 = 1, Pauli reconstruction) on every element."""
    with U.precision(64):
        _check_large(case, ctx)


def _check_large(case, ctx):
    from prysm.x import polarization as pol
    B = _big_shape(case['shape'])
    N = int(np.prod(B))
    seed, what, kind = case['seed'], case['what'], case['kind']
    jdt = np.dtype(case['jdtype'])
    if kind == 'unitary' and jdt.kind != 'c':
        jdt = np.dtype('complex128')
    low = jdt == np.complex64
    rt = F32TOL if low else 1e-12
    lay = case['layout']
    ctx.nt(N % 2 ** 15 != 0)
    ctx.label('what:' + what, 'matrices:%d*2^15+' % (N // 2 ** 15), 'ndim=%d' % len(B), 'layout:' + lay)
    pick = _sample_indices(N, seed)
    ctx.tally('elements-compared-with-the-single-call', len(pick))

    def batch(salt):
        J = _unitary_fast(seed, B, salt) if kind == 'unitary' else cplx(seed, B + (2, 2), salt)
        if kind == 'structured':
            J = _structure(J, STRUCTURES[(seed + salt) % len(STRUCTURES)])
        if jdt.kind != 'c':
            J = J.real.copy()
        return U.relayout(J.astype(jdt), lay)

    if what == 'vortex':
        q, ret, rho = case['charge'], case['ret'], case['rotate']
        tconv = case.get('tconv', 'principal')
        t0 = U.rng_of(seed, 5).uniform(-math.pi, math.pi, B)
        if tconv == 'zero-to-2pi':
            t0 = np.mod(t0, TWO_PI)
        elif tconv == 'turns':
            t0 = t0 * 5
        theta = U.relayout(t0, lay)
        keep = theta.copy()
        ctx.label('azimuth-convention:' + tconv, 'charge:' + ('integer' if float(q) == int(q) else 'non-integer'))
        desc = 'vector_vortex_retarder(%r, theta%s in the %s convention, retardance=%r, rotate=%r)' % (q, list(B), tconv, ret, rho)
        V = np.asarray(ctx.call(pol.vector_vortex_retarder, q, theta, retardance=ret, rotate=rho))
        U.check_shape(V, B + (2, 2), 'large:vector_vortex_retarder', desc)
        ctx.require(np.array_equal(theta, keep), 'vector_vortex_retarder:theta-mutated', desc + ' modified theta in place')
        # every pixel against the pixel-by-pixel construction (harness closed form, vectorised)
        cq, sq = np.cos(keep * float(q)), np.sin(keep * float(q))
        core = np.empty(B + (2, 2), complex)
        core[..., 0, 0], core[..., 0, 1], core[..., 1, 0], core[..., 1, 1] = cq, sq, sq, -cq
        closed = rot(-rho) @ (math.sin(ret / 2) * core - 1j * math.cos(ret / 2) * I2) @ rot(rho)
        bad = ~(np.abs(V - closed).max(axis=(-2, -1)) <= 1e-12)
        if bad.any():
            k, idx = _first_bad(bad, B)
            ctx.fail('large:vector_vortex_retarder:batch-vs-pixel-construction', '%s: %d of %d pixels differ from sin(d/2) [[c, s], [s, -c]] - i cos(d/2) I (rotated), first at %s (flat %d, azimuth %r): got %r' % (
                desc, int(bad.sum()), N, idx, k, float(keep.reshape(N)[k]), V.reshape(N, 2, 2)[k].tolist()))
        e = V @ dag(V)
        bad = ~(np.abs(e - I2).max(axis=(-2, -1)) <= 1e-12)
        if bad.any():
            k, idx = _first_bad(bad, B)
            ctx.fail('large:vector_vortex_retarder:unitary', '%s: %d of %d elements are not unitary, first at %s (flat %d): J J^H = %r' % (desc, int(bad.sum()), N, idx, k, e.reshape(N, 2, 2)[k].tolist()))
        Vf = V.reshape(N, 2, 2)
        tf_ = keep.reshape(N)
        for k in pick:
            one = np.asarray(ctx.call(pol.vector_vortex_retarder, q, np.array(tf_[k]), retardance=ret, rotate=rho))
            U.check_close(Vf[k], one, 1e-13, 'large:vector_vortex_retarder:batch-vs-element', '%s flat element %d' % (desc, k), atol=1e-14)
        J1, kind, jdt, low, rt = V, 'unitary', np.dtype('complex128'), False, 1e-12
        ctx.label('vortex-then-mueller')
        # ... and its Mueller matrices, below
        J2 = None
    elif what == 'pauli':
        J = batch(40)
        keep = J.copy()
        W = J.astype(np.complex128)
        c = ctx.call(pol.pauli_coefficients, J)
        _unchanged(ctx, J, keep, 'pauli_coefficients', 'the Jones batch')
        ctx.require(len(c) == 4, 'pauli_coefficients:len', 'expected 4 coefficients, got %d' % len(c))
        rec = np.zeros(B + (2, 2), complex)
        for k in range(4):
            ck = np.asarray(c[k])
            U.check_shape(ck, B, 'large:pauli_coefficients', 'c%d' % k)
            ck = ck.astype(np.complex128)
            want = 0.5 * np.einsum('ab,...ba->...', SIG[k], W)
            U.check_close(ck, want, rt, 'large:pauli_coefficients:c%d' % k, 'c%d vs tr(sigma_%d J)/2, batch %s (%d matrices) dtype %s' % (k, k, B, N, jdt), atol=rt * 0.1)
            rec = rec + ck[..., None, None] * SIG[k]
        U.check_close(rec, W, rt, 'large:pauli:reconstruct', 'sum c_k sigma_k vs J, batch %s (%d matrices) dtype %s' % (B, N, jdt), atol=rt * 0.1)
        return
    else:
        J1, J2 = batch(10), batch(20)
    # Jones -> Mueller on the whole batch
    k1 = J1.copy()
    W1 = J1.astype(np.complex128)
    ctx.label('kind:' + kind, 'jdtype:%s' % jdt)
    desc = 'batch %s (%d Jones matrices, %s, %s, layout %s)' % (B, N, kind, jdt, lay)
    M1_raw = ctx.call(pol.jones_to_mueller, J1)
    M1 = np.array(M1_raw, copy=True)
    _unchanged(ctx, J1, k1, 'jones_to_mueller', 'the Jones batch J1')
    U.check_shape(M1, B + (4, 4), 'large:jones_to_mueller', desc)
    ctx.require(M1.dtype.kind == 'f', 'jones_to_mueller:dtype', 'Mueller matrix dtype %s is not real' % M1.dtype)
    M1 = M1.astype(np.float64)
    fin = np.isfinite(M1).all(axis=(-2, -1))
    if not fin.all():
        k, idx = _first_bad(~fin, B)
        ctx.fail('large:jones_to_mueller:nonfinite', '%s: %d of %d Mueller matrices have non-finite entries, first at %s (flat index %d)' % (desc, int((~fin).sum()), N, idx, k))
    # definition, every element, in one of the two handedness conventions for the whole batch
    errs = []
    for hand in (1, -1):
        ref = _mueller_ref_all(W1, hand)
        errs.append((np.abs(M1 - ref).max(axis=(-2, -1)), ref))
    S1 = float(np.max(np.abs(W1))) ** 2
    nbad = [int((e > rt * max(S1, 1e-300)).sum()) for e, _ in errs]
    h = 0 if nbad[0] <= nbad[1] else 1
    if nbad[h]:
        bad = errs[h][0] > rt * S1
        k, idx = _first_bad(bad, B)
        ctx.fail('large:jones_to_mueller:definition', '%s: %d of %d Mueller matrices differ from tr(s_i J s_j J^H)/2, first at %s (flat index %d): got row 0 %r, want %r' % (
            desc, nbad[h], N, idx, k, M1.reshape(N, 4, 4)[k, 0].tolist(), errs[h][1].reshape(N, 4, 4)[k, 0].tolist()))
    # the batch equals the element-by-element conversion (sample: both ends, both sides of every multiple of 2**15, a strided sweep)
    Jf, Mf = J1.reshape(N, 2, 2), M1.reshape(N, 4, 4)
    for k in pick:
        one = np.asarray(ctx.call(pol.jones_to_mueller, Jf[k])).astype(np.float64)
        U.check_close(Mf[k], one, rt * 0.1, 'large:jones_to_mueller:batch-vs-element', 'flat element %d of %s' % (k, desc), atol=rt * 0.1 * S1)
    if kind == 'unitary':
        e = M1 @ np.swapaxes(M1, -1, -2)
        tol = _tol(1e-11, 32 if low else 64)
        bad = ~((np.abs(e - I4).max(axis=(-2, -1)) <= tol) & (np.abs(M1[..., 0, 0] - 1) <= tol))
        if bad.any():
            k, idx = _first_bad(bad, B)
            ctx.fail('large:jones_to_mueller:orthogonal', '%s: %d of %d Mueller matrices of unitary Jones matrices are not orthogonal with M00 = 1, first at %s (flat %d): M00 = %r' % (
                desc, int(bad.sum()), N, idx, k, float(Mf[k, 0, 0])))
    if J2 is not None:
        W2 = J2.astype(np.complex128)
        M2 = np.asarray(ctx.call(pol.jones_to_mueller, J2)).astype(np.float64)
        M12 = np.asarray(ctx.call(pol.jones_to_mueller, W1 @ W2)).astype(np.float64)
        U.check_shape(M2, B + (4, 4), 'large:jones_to_mueller', desc)
        U.check_shape(M12, B + (4, 4), 'large:jones_to_mueller', desc)
        S12 = S1 * float(np.max(np.abs(W2))) ** 2
        err = np.abs(M12 - M1 @ M2).max(axis=(-2, -1))
        bad = ~(err <= 4 * rt * S12)
        if bad.any():
            k, idx = _first_bad(bad, B)
            ctx.fail('large:jones_to_mueller:multiplicative', '%s: M(J1 J2) != M(J1) M(J2) at %d of %d elements, first at %s (flat %d), err %.3g' % (desc, int(bad.sum()), N, idx, k, float(err.reshape(N)[k])))
        # broadcast_kron, every element
        K = np.asarray(ctx.call(pol.broadcast_kron, J1, J2))
        U.check_shape(K, B + (4, 4), 'large:broadcast_kron', desc)
        want = np.einsum('...ab,...cd->...acbd', W1, W2).reshape(B + (4, 4))
        U.check_close(K, want, rt * 0.1, 'large:broadcast_kron', 'vs the Kronecker product of every pair, %s' % desc, atol=rt * 0.1)
    U.check_equal(np.asarray(M1_raw).astype(np.float64), M1, 'jones_to_mueller:result-overwritten', 'M(J1) changed during later conversions')


CLAUSES = [
    HypClause('retarders', strat_retarder, check_retarder, examples={'quick': 500, 'thorough': 3000}, shards={'quick': 2, 'thorough': 8}),
    HypClause('vortex', strat_vortex, check_vortex, examples={'quick': 400, 'thorough': 2500}, shards={'quick': 2, 'thorough': 8}),
    HypClause('polarizer', strat_polarizer, check_polarizer, examples={'quick': 800, 'thorough': 4000}, shards={'quick': 1, 'thorough': 8}),
    HypClause('mueller', strat_mueller, check_mueller, examples={'quick': 300, 'thorough': 2000}, shards={'quick': 2, 'thorough': 8}),
    HypClause('pauli', strat_pauli, check_pauli, examples={'quick': 400, 'thorough': 2000}, shards={'quick': 1, 'thorough': 4}),
    HypClause('propagation', strat_prop, check_prop, examples={'quick': 250, 'thorough': 1500}, shards={'quick': 2, 'thorough': 8}),
    HypClause('add_jones_propagation', strat_global, check_global, examples={'quick': 150, 'thorough': 1000}, shards={'quick': 1, 'thorough': 4}),
    HypClause('burst', strat_burst, check_burst, examples={'quick': 80, 'thorough': 200}, shards={'quick': 1, 'thorough': 2}),
    HypClause('large_batches', strat_large, check_large, examples={'quick': 10, 'thorough': 60}, shards={'quick': 4, 'thorough': 10}),
]
