"""C08 - asking for a whole list of orders at once returns what the single-order function returns, mode for mode."""
import numpy as np
from hypothesis import strategies as st

from vlib.core import HypClause, Violation
from vlib import util as U

RULE = ("Hypothesis draws, per polynomial family, an ascending order list (contiguous from 0 / 1 / 2 / k, gapped random "
        "subset, singleton, long; orders up to 120 quick / 200 thorough - 100 / 150 for Hermite - i.e. far beyond the int64 "
        "range of closed-form constants), given as list / tuple / range / int64 or int32 ndarray; the shape parameters "
        "(incl. Jacobi pairs on and within 1e-16..1e-6 of the lines alpha+beta = 0, -1); a coordinate shape (0-D array or "
        "numpy scalar, 1-D, 2-D square / non-square, 3-D, a forced class whose leading dimension equals the number of "
        "orders and one whose trailing dimension does, one large 257x263 class); the coordinate dtype (float64, float32, "
        "complex128, complex64 for every family (single precision only up to order 30, Q2d n<=14 |m|<=10, xy exponents <= 12); "
        "int64 / int32 for the integer-coefficient families "
        "Hermite, Dickson with integer alpha, xy, at orders that cannot overflow); the memory layout (C, Fortran, "
        "transposed view, strided view); positional or keyword coordinate argument; and a history: nothing, or an "
        "earlier call of the same routine at single precision / with another order list of the same first, last and "
        "length / other coordinates / other shape parameters.  For the two-index families an arbitrary list of valid (n,m) "
        "pairs in any order with repeated |m| and repeated pairs, given as list of tuples / lists, tuple of tuples or "
        "(k,2) ndarray.  Coordinates are expanded from a drawn integer inside the family's domain (end points included; "
        "complex: imaginary part in [-0.3,0.3], zero for some entries) or, one case in four, beyond the interval of orthogonality, where the "
        "single-order evaluators are still the polynomial (|x| <= 1.5 for Jacobi / Legendre / Chebyshev, u <= 1.5 for Qbfs / Qcon, r <= 1.5 - the corners "
        "of a square grid - for Zernike / Q2d, x >= -2 for Laguerre, |x| <= 4 for Dickson).  Oracle "
        "(differential, as the property states): seq(ns, x)[k] against scalar(ns[k], x) for every k - per mode, "
        "|diff| <= 1e-11 max(max|mode at x|, max|mode| on a fixed grid of the domain - used when fewer than 8 points are given) "
        "in double precision (same recurrence; observed 0 "
        "for all one-index families, <= 2.5e-15 for zernike / xy / complex coordinates up to order 200), 1e-3 in single "
        "(observed <= 3.4e-6) - and the leading "
        "shape (len(ns), *x.shape); xy_seq additionally against x**m * y**n on the same grid.  Around the checked call: "
        "every argument (order list, coordinates) is compared with a copy taken before the call; the result is kept, the "
        "routine is called with other coordinates (that result is spot-checked too) and the kept result must not have "
        "changed; then the kept result is overwritten in place and the routine called again with the original arguments - "
        "it must return the same modes.  Value pattern of the coordinate arrays (drawn, about one case in three; for two-coordinate "
        "families on the first, the second or both arrays; for xy meshgrids on the axis vectors): the array is cut into slices along a drawn axis and the leading / "
        "trailing 1..4 slices are copies of the first / last one (edge-padded arrays, a grid larger than the aperture clipped to the interval, a repeated first "
        "sample), all slices equal (the X of a meshgrid), all but the last / first equal, slices in equal pairs; optionally every slice constant (the Y of a meshgrid, "
        "so that equal leading rows are a clipped Y).  Boolean options (norm= of zernike_nm_seq / zernike_nm_der_seq, cartesian_grid= of xy_seq) are given as the "
        "object True / False, as a numpy bool (element of a boolean array, result of comparing numpy scalars) and as 1 / 0 - the same object to the sequence and to "
        "the single-order routine.  Order lists also as one-shot iterables (generator expression, iter(list)) for the one-index routines whose unchanged code walks "
        "ns once (all but the Chebyshev 2nd / 4th kind sequences).  Jacobi pairs also nearly equal / next to the Chebyshev and Legendre values (relative 1e-12 .. 1e-4).  "
        "Non-trivial = gapped "
        "list, or list not starting at 0/1, or x.ndim != 1, or a dimension of x equal to len(ns), or dtype not float64, or "
        "non-C layout, or a history, or coordinates beyond the orthogonality interval (two-index: list "
        "not sorted or |m| repeated, or ndim != 1, or such a dimension, or dtype / layout / history as above).  Distinct = distinct canonical JSON.")
ASSUMPTIONS = ["order lists are non-empty, strictly ascending (one-index families) as documented; coordinates are numpy "
               "arrays or numpy scalars (0-D included) of floating or complex dtype; integer dtype only where the "
               "polynomial has integer coefficients (elsewhere the unchanged sequence routines allocate the output in the "
               "coordinate dtype and truncate - reported, not asserted); Python floats are not arrays and are not given",
               "xy / xy_seq with cartesian_grid=True are only given 2-D "
               "meshgrids (the two functions document different conventions for 1-D input)",
               "the scalar-order function is the reference (its own correctness is C07 / C09)"]

NMAX = {'quick': 120, 'thorough': 200}
NMAX_HERMITE = {'quick': 100, 'thorough': 150}      # H_n(3 sqrt 2) stays well inside the double range
LONG = {'quick': 70, 'thorough': 130}               # longest contiguous-from-0 list (cost grows with the square)
DMAX = {'quick': 7, 'thorough': 12}
# integer coordinates: highest order at which neither the values nor the intermediate products of the recurrence
# leave the integer range for |x| <= 3 (Hermite) / |x| <= 2, |alpha| <= 2 (Dickson); measured, with a factor 16 spare
INT_CAP = {'hermite': {'int32': 9, 'int64': 20}, 'dickson': {'int32': 15, 'int64': 35}}
FLOATS = ['float64'] * 6 + ['float32', 'complex128', 'complex128', 'complex64']
SINGLE = ('float32', 'complex64')
# single precision: the sequence routine works in the coordinate dtype, some single-order routines promote to double, and the
# rounding error of a recurrence in single precision grows with the order (faster off the real axis): orders stay low there
NMAX_SINGLE = 30


# ---- families --------------------------------------------------------------------------------------
def _families():
    from prysm import polynomials as P
    return {
        # name: (seq, scalar, n params, domain lo, hi)
        'jacobi': (P.jacobi_seq, P.jacobi, 2, -1.0, 1.0),
        'jacobi_der': (P.jacobi_der_seq, P.jacobi_der, 2, -1.0, 1.0),
        'legendre': (P.legendre_seq, P.legendre, 0, -1.0, 1.0),
        'legendre_der': (P.legendre_der_seq, P.legendre_der, 0, -1.0, 1.0),
        'cheby1': (P.cheby1_seq, P.cheby1, 0, -1.0, 1.0),
        'cheby2': (P.cheby2_seq, P.cheby2, 0, -1.0, 1.0),
        'cheby3': (P.cheby3_seq, P.cheby3, 0, -1.0, 1.0),
        'cheby4': (P.cheby4_seq, P.cheby4, 0, -1.0, 1.0),
        'cheby1_der': (P.cheby1_der_seq, P.cheby1_der, 0, -1.0, 1.0),
        'cheby2_der': (P.cheby2_der_seq, P.cheby2_der, 0, -1.0, 1.0),
        'cheby3_der': (P.cheby3_der_seq, P.cheby3_der, 0, -1.0, 1.0),
        'cheby4_der': (P.cheby4_der_seq, P.cheby4_der, 0, -1.0, 1.0),
        'hermite_He': (P.hermite_He_seq, P.hermite_He, 0, -3.0, 3.0),
        'hermite_H': (P.hermite_H_seq, P.hermite_H, 0, -3.0, 3.0),
        'hermite_He_der': (P.hermite_He_der_seq, P.hermite_He_der, 0, -3.0, 3.0),
        'hermite_H_der': (P.hermite_H_der_seq, P.hermite_H_der, 0, -3.0, 3.0),
        'laguerre': (P.laguerre_seq, P.laguerre, 1, 0.0, 8.0),
        'laguerre_der': (P.laguerre_der_seq, P.laguerre_der, 1, 0.0, 8.0),
        'dickson1': (P.dickson1_seq, P.dickson1, 1, -2.0, 2.0),
        'dickson2': (P.dickson2_seq, P.dickson2, 1, -2.0, 2.0),
        'Qbfs': (P.Qbfs_seq, P.Qbfs, 0, 0.0, 1.0),
        'Qcon': (P.Qcon_seq, P.Qcon, 0, 0.0, 1.0),
    }


GROUPS = {
    'jacobi_legendre': ['jacobi', 'jacobi_der', 'legendre', 'legendre_der'],
    'chebyshev': ['cheby1', 'cheby2', 'cheby3', 'cheby4'],
    'chebyshev_der': ['cheby1_der', 'cheby2_der', 'cheby3_der', 'cheby4_der'],
    'hermite': ['hermite_He', 'hermite_H', 'hermite_He_der', 'hermite_H_der'],
    'laguerre': ['laguerre'],
    'laguerre_der': ['laguerre_der'],
    'dickson': ['dickson1', 'dickson2'],
    'qbfs_qcon': ['Qbfs', 'Qcon'],
}

# Coordinates beyond the interval the family is orthogonal on.  Every evaluator is a recurrence in the coordinate, i.e. the polynomial
# itself, and is used that way: a grid normalised by the aperture radius reaches r = sqrt(2) in its corners, a guard band around a
# clear aperture gives |x| > 1, a Laguerre argument may be negative.  (Hermite: the whole real line is the domain; the range is
# limited by overflow instead.  Integer coordinates keep the measured range.)
SPANS = ['domain', 'domain', 'domain', 'beyond']
RADIUS_BEYOND = 1.5


def _span(fam, lo, hi, span, dtype):
    if span != 'beyond' or dtype.startswith('int') or fam.startswith('hermite'):
        return lo, hi
    if fam.startswith('laguerre'):
        return -2.0, hi
    if fam.startswith('dickson'):
        return -4.0, 4.0
    if fam in ('Qbfs', 'Qcon'):
        return 0.0, RADIUS_BEYOND
    return -1.5, 1.5


# shape parameters: Jacobi alpha,beta > -1 incl. the Chebyshev half-integer pairs, a+b in {0,-1} (special-cased in the
# recurrence); Laguerre alpha > -1; Dickson alpha small real
_AB = [-0.5, 0.5, 0, 1, 2, 4, 1.5, -0.75, 0.25, 3, 5.5]
_NEXT_TO = [0.0, 5.5e-17, -1.1e-16, 2.2e-16, 1e-15, 1e-12, -1e-9, 1e-6]
_NEARLY = [1e-4, -3e-5, 1e-5, -3e-6, 1e-6, -1e-7, 1e-9, -1e-12]      # relative distance from an equality-defined special case
_TINY = [0.0, 1e-9, -1e-9, 3e-9, -5e-9, 1e-8]
PARAMS = {
    'jacobi': st.one_of(st.tuples(st.sampled_from(_AB), st.sampled_from(_AB)).map(list),
                        st.tuples(U.nice_float(-0.95, 6.0), U.nice_float(-0.95, 6.0)).map(list),
                        # on and next to the special lines alpha+beta = 0 and alpha+beta = -1 of the recurrence
                        st.tuples(U.nice_float(-0.95, 0.95), st.sampled_from(_NEXT_TO)).map(lambda t: [t[0], -t[0] + t[1]]),
                        st.tuples(U.nice_float(-0.95, -0.05), st.sampled_from(_NEXT_TO)).map(lambda t: [t[0], -1.0 - t[0] + t[1]]),
                        # nearly, but not exactly, equal parameters (next to the ultraspherical case alpha = beta), and pairs next to the
                        # Chebyshev half-integer / Legendre values: ordinary pairs for both routines
                        st.tuples(st.one_of(st.sampled_from(_AB), U.nice_float(-0.95, 6.0)), st.sampled_from(_NEARLY), st.booleans()).map(
                            lambda t: [t[0], t[0] * (1 + t[1]) + (t[1] if t[0] == 0 else 0.0)][::1 if t[2] else -1]),
                        st.tuples(st.sampled_from([-0.5, 0.5, 0]), st.sampled_from([-0.5, 0.5, 0]), st.sampled_from(_NEARLY), st.sampled_from(_NEARLY)).map(
                            lambda t: [t[0] + t[2], t[1] - t[3]]),
                        # next to Legendre's (0, 0) by less than numpy.isclose's default absolute tolerance
                        st.tuples(st.sampled_from(_TINY), st.sampled_from(_TINY)).filter(lambda t: t != (0.0, 0.0)).map(list)),
    'laguerre': st.one_of(st.sampled_from([0, 1, 2, 0.5, -0.5, 3.25, -1 + 1e-9, 1e-16, -1e-16]), U.nice_float(-0.95, 6.0)).map(lambda a: [a]),
    'dickson': st.one_of(st.sampled_from([0, 1, -1, 2, 0.5, 1e-16, -1e-16, 1 + 2.2e-16]), U.nice_float(-2.0, 2.0)).map(lambda a: [a]),
    'dickson-int': st.sampled_from([0, 1, -1, 2, -2]).map(lambda a: [a]),
}


def _param_strategy(fam, dtype='float64'):
    if fam.startswith('jacobi'):
        return PARAMS['jacobi']
    if fam.startswith('laguerre'):
        return PARAMS['laguerre']
    if fam.startswith('dickson'):
        return PARAMS['dickson-int' if dtype.startswith('int') else 'dickson']
    return st.just([])


def _dtype_strategy(fam):
    """coordinate dtypes the unchanged routines accept for this family (integer: integer-coefficient polynomials only)"""
    if fam.startswith('hermite') or fam.startswith('dickson'):
        return st.sampled_from(FLOATS + ['int64', 'int32'])
    return st.sampled_from(FLOATS)


def _nmax(fam, dtype, tier):
    key = 'hermite' if fam.startswith('hermite') else ('dickson' if fam.startswith('dickson') else None)
    if dtype.startswith('int'):
        return INT_CAP[key][dtype]
    if dtype in SINGLE:
        return NMAX_SINGLE
    return NMAX_HERMITE[tier] if key == 'hermite' else NMAX[tier]


# ---- order lists and shapes --------------------------------------------------------------------------
def order_lists(N, L=None):
    """ascending, strictly increasing, non-empty lists of orders in 0..N; each class forced.  L caps the contiguous-from-0 class."""
    L = min(N, L or N)
    contiguous = st.tuples(st.one_of(st.sampled_from([0, 0, 1, 1, 2, 3]), st.integers(0, max(0, N - 1))), st.integers(1, 14)).map(
        lambda t: [n for n in range(t[0], t[0] + t[1]) if n <= N])
    gapped = st.sets(st.integers(0, N), min_size=2, max_size=10).map(sorted)
    low_gapped = st.sets(st.integers(0, min(8, N)), min_size=1, max_size=6).map(sorted)
    single = st.one_of(st.sampled_from([0, 1, 2, 3]), st.integers(0, N)).map(lambda n: [n])
    long_ = st.integers(max(2, L - 12), L).map(lambda n: list(range(0, n + 1)))
    high = st.sets(st.integers(max(0, N - 30), N), min_size=1, max_size=5).map(sorted)     # the far end of the range
    # arithmetic progressions (every other / every third order, from 0 or not): what range(start, stop, step) spells
    stepped = st.tuples(st.sampled_from([0, 0, 0, 1, 2]), st.sampled_from([2, 2, 3, 4]), st.integers(2, 9)).map(
        lambda t: [n for n in range(t[0], t[0] + t[1] * t[2], t[1]) if n <= N] or [0])
    return st.one_of(contiguous, gapped, low_gapped, single, long_, high, stepped)


def shape_spec(D):
    """[kind, dims]; kind 'lead' / 'trail' / 'both' replace the leading / trailing dimension by the number of orders."""
    d = st.integers(1, D)
    return st.one_of(
        st.just(['plain', []]),
        d.map(lambda a: ['plain', [a]]),
        st.tuples(d, d).map(lambda t: ['plain', list(t)]),
        d.map(lambda a: ['plain', [a, a]]),
        st.tuples(d, d, d).map(lambda t: ['plain', [min(t[0], 4), t[1], t[2]]]),
        st.just(['lead', [1]]),
        d.map(lambda a: ['lead', [1, a]]),
        d.map(lambda a: ['trail', [a, 1]]),
        st.just(['both', [1, 1]]),
        st.tuples(d, d).map(lambda t: ['lead', [1, min(t[0], 4), t[1]]]),
    )


BIG = ['plain', [257, 263]]     # > 2**16 samples, prime sides; only drawn together with short low-order lists


def resolve_shape(spec, k):
    kind, dims = spec
    dims = [int(v) for v in dims]
    if kind in ('lead', 'both') and dims:
        dims[0] = k
    if kind in ('trail', 'both') and dims:
        dims[-1] = k
    return tuple(dims)


# Value patterns of a coordinate array (not its shape or type).  The array is cut into slices along one axis and the slices are
# re-used: the leading / trailing slices are copies of the first / last one (np.pad(..., mode='edge'); the coordinate of a grid larger than
# the aperture clipped to the interval of orthogonality; an axis whose first sample is repeated), all slices are equal (the X of a
# meshgrid), all but the last / the first are equal, slices come in equal pairs; 'flat' additionally makes every slice constant (the Y of a
# meshgrid, so that head / tail on it is a clipped Y).  For a 1-D array the slices are its elements.  Every value is still one of the
# points drawn inside the family's range, so tolerances are unaffected.
PATTERN_KINDS = ['head', 'head', 'tail', 'head+tail', 'head+tail', 'all-equal', 'all-but-last', 'all-but-last', 'all-but-first', 'pairs']
FREE = ['free', 0, 2, False]


def patterns():
    drawn = st.tuples(st.sampled_from(PATTERN_KINDS), st.integers(0, 2), st.integers(2, 4), st.booleans()).map(list)
    return st.one_of(st.just(FREE), drawn)        # measured: about one case in three carries a pattern


def impose(x, pat):
    """x with the value pattern pat = [kind, axis, count, flat] imposed (a new C-ordered array of the same shape and dtype)"""
    kind, ax, c, flat = pat[0], int(pat[1]), int(pat[2]), bool(pat[3])
    x = np.asarray(x)
    if kind == 'free' or x.ndim == 0:
        return x
    ax = ax % x.ndim
    n = x.shape[ax]
    c = max(1, min(c, n - 1))          # where the axis is long enough at least one slice stays different
    i = np.arange(n)
    if kind in ('head', 'head+tail'):
        i = np.where(i < c, 0, i)
    if kind in ('tail', 'head+tail'):
        i = np.where(i >= n - c, n - 1, i)
    if kind == 'all-equal':
        i = np.zeros(n, dtype=int)
    elif kind == 'all-but-last':
        i = np.where(i < n - 1, 0, i)
    elif kind == 'all-but-first':
        i = np.where(i > 0, min(1, n - 1), i)
    elif kind == 'pairs':
        i = i - i % 2
    if flat and x.ndim > 1:
        first = tuple(slice(None) if d == ax else slice(0, 1) for d in range(x.ndim))
        x = np.broadcast_to(x[first], x.shape)
    return np.ascontiguousarray(np.take(x, i, axis=ax))


def pattern_label(pat, shape):
    if pat[0] == 'free' or len(shape) == 0:
        return 'values:free'
    ax = int(pat[1]) % len(shape)
    if shape[ax] < 2:
        return 'values:free'
    return 'values:%s:along-%s%s' % (pat[0], 'rows' if ax == 0 else 'last-axis' if ax == len(shape) - 1 else 'middle-axis',
                                       ':constant-slices' if pat[3] and len(shape) > 1 else '')


def coords(seed, shape, lo, hi, dtype, salt=0, pat=FREE):
    """points inside [lo,hi] from the drawn integer; ~1 in 8 entries is pinned to an end point or the middle.

    complex dtypes: the same real parts plus an imaginary part in [-0.3, 0.3] (exactly zero for ~1 entry in 4);
    integer dtypes: the integers of [lo, hi].  pat: the value pattern imposed on the array (see impose)."""
    return impose(_coords(seed, shape, lo, hi, dtype, salt), pat)


def _coords(seed, shape, lo, hi, dtype, salt):
    r = U.rng_of(seed, salt)
    x = r.uniform(lo, hi, shape)
    pin = r.integers(0, 24, shape)
    x = np.where(pin == 0, lo, x)
    x = np.where(pin == 1, hi, x)
    x = np.where(pin == 2, 0.5 * (lo + hi), x)
    if dtype.startswith('complex'):
        r2 = U.rng_of(seed, salt + 1000)
        im = r2.uniform(-0.3, 0.3, shape)
        im = np.where(r2.integers(0, 4, shape) == 0, 0.0, im)
        x = x + 1j * im
    elif dtype.startswith('int'):
        x = U.rng_of(seed, salt + 2000).integers(int(np.ceil(lo)), int(np.floor(hi)) + 1, shape)
    return np.asarray(x, dtype=dtype)


def present(x, layout, x0d):
    """the same values as the routine will see them: another memory layout, or (0-D) a numpy scalar instead of an array"""
    if x.ndim == 0:
        if x0d == 'pyfloat' and x.dtype == np.float64:
            return float(x)
        return x[()] if x0d == 'npscalar' else x
    return U.relayout(x, layout)


def _single(dtype):
    """the single-precision partner of a coordinate dtype (None for integer dtypes)"""
    return {'float64': 'float32', 'float32': 'float32', 'complex128': 'complex64', 'complex64': 'complex64'}.get(dtype)


def _tol(dtype):
    return 1e-11 if dtype in ('float64', 'complex128', 'int64', 'int32') else 1e-3


def _cmp(got, want, ref, dtype, bucket, what):
    """|got - want| <= tol * max(max|want|, max|mode| on a fixed reference grid of the domain).

    The reference amplitude keeps the comparison meaningful when every drawn point happens to sit next to a zero of
    the mode (0-D input): the two routines may round intermediate terms differently, which is an error relative to
    the size of the mode, not to its value at a zero."""
    want = np.asarray(want)
    ref = float(np.max(np.abs(ref))) if np.all(np.isfinite(ref)) else 0.0
    return U.check_close(got, want, _tol(dtype), bucket, what, atol=_tol(dtype) * ref)


def _with_radial_amplitude(ref, dtype, *amps):
    """the reference amplitude of a mode with an azimuthal factor, in single precision: |mode| and |radial part| at the given radii.

    In single precision the argument m*t of the azimuthal factor carries a rounding error of eps32 |m t|, i.e. the mode one of
    eps32 |m t| |radial part|, whatever the value of cos / sin there; the sequence routines form m*t in double precision when the
    orders come as an int64 array and the single-order routines in single, so the two differ by that much where the azimuthal factor
    is next to a zero (t = 2 pi) and the radial part is large (a complex radius beyond 1).  Found by a thorough run: Q2d_seq(11, -3)
    at r = 1 + 0.27j, t = float32(2 pi), |radial part| = 9e3, all other samples of order 1."""
    if dtype not in SINGLE:
        return ref
    parts = [np.ravel(np.abs(np.asarray(ref)))]
    for a in amps:
        a = np.ravel(np.abs(np.asarray(a)))
        parts.append(a[np.isfinite(a)])
    return np.concatenate(parts)


def _shape_class(shape, k):
    cls = 'ndim%d' % len(shape)
    if shape and shape[0] == k:
        cls += ':lead=len(ns)'
    elif k in shape:
        cls += ':dim=len(ns)'
    return cls


def _list_class(ns):
    if len(ns) == 1:
        return 'single:n=%s' % (ns[0] if ns[0] < 3 else '3+')
    contiguous = ns == list(range(ns[0], ns[0] + len(ns)))
    return ('contig' if contiguous else 'gapped') + ':from%s' % (ns[0] if ns[0] < 3 else '3+')


def _order_class(n):
    return 'n=%d' % n if n < 3 else ('n>=3' if n < 50 else 'n>=50')


def _guard(ctx, cls, fn, *a, **k):
    """ctx.call with the input class appended to the bucket of a crash."""
    try:
        return ctx.call(fn, *a, **k)
    except Violation as v:
        raise Violation(v.bucket + ':' + cls, v.msg) from v


def _as_orders(ns, how):
    """the order list in the container the case asks for (list | tuple | range | ndarray | ndarray-int32)"""
    if how == 'tuple':
        return tuple(ns)
    if how == 'range' and len(ns) >= 2 and ns == list(range(ns[0], ns[-1] + 1, ns[1] - ns[0])):
        return range(ns[0], ns[-1] + 1, ns[1] - ns[0])       # any arithmetic progression, also with a step > 1
    if how == 'range' and len(ns) == 1:
        return range(ns[0], ns[0] + 1)
    if how == 'ndarray':
        return np.asarray(ns, dtype=np.int64)
    if how == 'ndarray-int32':
        return np.asarray(ns, dtype=np.int32)
    if how == 'generator':
        return (n for n in list(ns))
    if how == 'iterator':
        return iter(list(ns))
    return list(ns)


def _other_orders(ns):
    """another ascending list with the same first element, last element and length (a different interior where one exists)"""
    if len(ns) < 3:
        return [n + 1 for n in ns]
    lo, hi, k = ns[0], ns[-1], len(ns)
    up = [lo] + list(range(hi - (k - 2), hi)) + [hi]       # interior pushed against the last element
    dn = list(range(lo, lo + k - 1)) + [hi]                # interior pushed against the first element
    return up if up != ns else dn


def _unchanged(ctx, now, before, bucket, what):
    """an argument handed to the routine still holds what it held before the call"""
    now, before = np.asarray(now), np.asarray(before)
    ctx.require(now.shape == before.shape and now.dtype == before.dtype and bool(np.all(now == before)), bucket,
                '%s was modified by the call' % what)


# families whose sequence routines document 'Scalars and arrays both work' (Hermite).  On the unchanged tree they read
# x.shape / x.dtype and raise AttributeError for a Python float, which the single-order functions accept; the repair is
# fixes/C08/04-hermite-seq-python-scalar.patch.  Put the four Hermite families here once it is in the repository.
PYFLOAT_FAMILIES = ('hermite_He', 'hermite_H', 'hermite_He_der', 'hermite_H_der')
HISTORY = ['none', 'none', 'none', 'single-first', 'other-ns', 'other-x', 'other-params', 'shorter-first', 'shorter-first']
ORDERS_AS = ['list', 'list', 'list', 'tuple', 'range', 'ndarray', 'ndarray-int32']
# 'ns : iterable of int': one-shot iterables (a generator expression, iter(list), the keys view of a dict) are walked exactly once by the
# unchanged one-index routines.  Not given to the Chebyshev 2nd / 4th kind sequences, whose unchanged code does arithmetic on ns itself
# (TypeError for anything that is not a list / array), nor to the two-index routines, which take len(nms) - reported, not asserted.
ONE_SHOT = ['generator', 'iterator']
SIZED_ONLY = ('cheby2', 'cheby4', 'cheby2_der', 'cheby4_der')


# ---- one-index families --------------------------------------------------------------------------------
def strat_one_index(group):
    def build(tier):
        D = DMAX[tier]

        def rest(fd):
            fam, dtype = fd
            N = _nmax(fam, dtype, tier)
            shapes = st.one_of(shape_spec(D), shape_spec(D), shape_spec(D), shape_spec(D), st.just(BIG))
            return shapes.flatmap(lambda sh: st.fixed_dictionaries({
                'family': st.just(fam), 'ns': order_lists(min(N, 8), 8) if sh == BIG else order_lists(N, LONG[tier]),
                'params': _param_strategy(fam, dtype), 'shape': st.just(sh), 'dtype': st.just(dtype),
                'layout': U.layouts, 'x0d': st.sampled_from(['array', 'npscalar'] + (['pyfloat'] if fam in PYFLOAT_FAMILIES else [])),
                'ns_as': st.sampled_from(ORDERS_AS + ([] if fam in SIZED_ONLY else ONE_SHOT)),
                'pattern': patterns(), 'xkw': st.booleans(), 'history': st.sampled_from(HISTORY), 'seed': U.seeds, 'span': st.sampled_from(SPANS)}))
        return st.sampled_from(GROUPS[group]).flatmap(lambda fam: st.tuples(st.just(fam), _dtype_strategy(fam))).flatmap(rest)
    return build


def check_one_index(case, ctx):
    """seq(ns, *params, x)[k] == scalar(ns[k], *params, x) for every k; shape (len(ns), *x.shape); arguments unchanged;
    results independent of earlier calls and of what the caller did to earlier results."""
    fam, ns, params, dtype = case['family'], [int(n) for n in case['ns']], list(case['params']), case['dtype']
    seq, scalar, npar, lo, hi = _families()[fam]
    k = len(ns)
    shape = resolve_shape(case['shape'], k)
    layout, x0d, ns_as = case.get('layout', 'C'), case.get('x0d', 'array'), case.get('ns_as', 'list')
    history, xkw = case.get('history', 'none'), bool(case.get('xkw', False))
    lo, hi = _span(fam, lo, hi, case.get('span', 'domain'), dtype)
    span = 'beyond' if (lo, hi) != _families()[fam][3:] else 'domain'
    pat = case.get('pattern', FREE)
    vcls = pattern_label(pat, shape)
    if ns_as in ONE_SHOT and fam in SIZED_ONLY:
        ns_as = 'list'
    x = present(coords(case['seed'], shape, lo, hi, dtype, pat=pat), layout, x0d)
    scls, lcls = _shape_class(shape, k), _list_class(ns)
    gapped = ns != list(range(ns[0], ns[0] + k))
    ctx.nt(gapped or ns[0] > 1 or len(shape) != 1 or k in shape or dtype != 'float64' or history != 'none'
           or (layout != 'C' and len(shape) > 0) or span != 'domain' or vcls != 'values:free' or ns_as in ONE_SHOT)
    ctx.label(fam, scls, lcls, dtype, 'maxn>=50' if ns[-1] >= 50 else ('maxn>=20' if ns[-1] >= 20 else 'maxn<20'),
              'layout:' + (layout if shape else x0d), 'ns_as:' + ns_as, 'history:' + history, 'x-keyword' if xkw else 'x-positional',
              'big' if int(np.prod(shape)) > 2 ** 16 else 'small', 'span:' + span, vcls)
    bsuf = '' if span == 'domain' else ':beyond-orthogonality-interval'
    scls += bsuf
    if vcls != 'values:free':
        scls += ':' + vcls
    if ns_as in ONE_SHOT:
        lcls += ':orders-as-' + ns_as

    def run(orders, pars, xx):
        if xkw:
            return _guard(ctx, scls + ':' + lcls, seq, orders, *pars, x=xx)
        return _guard(ctx, scls + ':' + lcls, seq, orders, *pars, xx)

    # history inside the process: an earlier call that differs in exactly one respect
    if history == 'single-first' and _single(dtype):
        run(_as_orders(ns, ns_as), params, present(coords(case['seed'], shape, lo, hi, _single(dtype), pat=pat), layout, x0d))
    elif history == 'other-ns':
        run(_as_orders(_other_orders(ns), ns_as), params, x)
    elif history == 'other-x':
        run(_as_orders(ns, ns_as), params, present(coords(case['seed'], shape, lo, hi, dtype, salt=5, pat=pat), layout, x0d))
    elif history == 'other-params' and params:
        run(_as_orders(ns, ns_as), [p + 1 for p in params], x)
    elif history == 'shorter-first':
        # the everyday request first (the first few orders of the same family and parameters), then - twice - growing ones: tables that are
        # built for the first request and extended for the later ones
        for top in (5, 9, min(17, max(ns))):
            if top < max(ns):
                run(list(range(0, top + 1)), params, x)

    x_before = np.array(x, copy=True)
    ns_arg = _as_orders(ns, ns_as)
    out = run(ns_arg, params, x)
    _unchanged(ctx, x, x_before, '%s_seq:argument-modified:x' % fam, 'the coordinate array')
    if ns_as not in ONE_SHOT:
        ctx.require([int(n) for n in ns_arg] == ns, '%s_seq:argument-modified:ns' % fam, 'the order list %r became %r' % (ns, list(ns_arg)))

    def again():
        # a one-shot iterable is used up by the call it was given to: every later call gets a new one; any other container is given again
        return _as_orders(ns, ns_as) if ns_as in ONE_SHOT else ns_arg
    ctx.require(isinstance(out, np.ndarray), '%s_seq:type' % fam, 'returned %s, not an ndarray' % type(out).__name__)
    U.check_shape(out, (k,) + shape, '%s_seq:%s:%s' % (fam, scls, lcls), '%s_seq(%r) on x of shape %s' % (fam, ns, shape))
    kept = np.array(out, copy=True)

    # a later call with other coordinates must not reach into the result already handed out ...
    x2 = present(coords(case['seed'], shape, lo, hi, dtype, salt=7, pat=pat), layout, x0d)
    out2 = np.asarray(run(again(), params, x2))
    U.check_equal(out, kept, '%s_seq:result-overwritten' % fam, 'the result of %s_seq(%r) after a second call at other coordinates' % (fam, ns))
    # ... and the caller may do what it likes with its result
    if out.flags.writeable:
        out[...] = 7
    out3 = np.asarray(run(again(), params, x))
    U.check_shape(out3, (k,) + shape, '%s_seq:aliased-state:%s' % (fam, scls), 'repeated %s_seq(%r) on x of shape %s' % (fam, ns, shape))
    U.check_shape(out2, (k,) + shape, '%s_seq:%s:%s' % (fam, scls, lcls), '%s_seq(%r) on other x of shape %s' % (fam, ns, shape))

    xref = np.linspace(lo, hi, 17)
    spot = int(case['seed']) % k
    for i, n in enumerate(ns):
        want = _guard(ctx, scls, scalar, n, *params, x)
        want = np.asarray(want)
        U.check_shape(want, shape, '%s:scalar:%s' % (fam, scls), '%s(%d) on x of shape %s' % (fam, n, shape))
        ncls = _order_class(n)
        # with only a few points all of them may sit next to a zero of the mode: then the size of the mode on the domain sets the scale
        ref = _guard(ctx, 'ref', scalar, n, *params, xref) if want.size < 8 else want
        _cmp(kept[i], want, ref, dtype, '%s_seq:%s:%s' % (fam, scls, ncls),
             '%s_seq(%r, %r)[%d] vs %s(%d) on x.shape=%s %s %s' % (fam, ns, params, i, fam, n, shape, dtype, layout))
        _cmp(out3[i], want, ref, dtype, '%s_seq:aliased-state:%s%s' % (fam, ncls, bsuf),
             '%s_seq(%r, %r)[%d] vs %s(%d), called again after the caller overwrote the first result in place' % (fam, ns, params, i, fam, n))
        if i == spot:
            _cmp(out2[i], np.asarray(_guard(ctx, scls, scalar, n, *params, x2)), ref, dtype, '%s_seq:second-call:%s%s' % (fam, ncls, bsuf),
                 '%s_seq(%r, %r)[%d] vs %s(%d) on the second coordinate set' % (fam, ns, params, i, fam, n))
    _unchanged(ctx, x, x_before, '%s:argument-modified:x' % fam, 'the coordinate array (scalar-order function)')
    # the caller rescales / shifts its coordinate array in place and asks again with the same objects: the answer follows the values
    if isinstance(x, np.ndarray) and x.ndim >= 1 and x.flags.writeable and x.dtype.kind in 'fc':
        mid = 0.5 * (lo + hi)
        x -= mid
        x *= 0.5
        x += mid        # still inside [lo, hi]
        out4 = np.asarray(run(again(), params, x))
        U.check_shape(out4, (k,) + shape, '%s_seq:coordinates-edited-in-place:%s' % (fam, scls), 'same coordinate object, new values')
        for i in sorted({0, spot, k - 1}):
            want = np.asarray(_guard(ctx, scls, scalar, ns[i], *params, x))
            ref = _guard(ctx, 'ref', scalar, ns[i], *params, xref) if want.size < 8 else want
            _cmp(out4[i], want, ref, dtype, '%s_seq:coordinates-edited-in-place%s' % (fam, bsuf),
                 '%s_seq(%r, %r)[%d] vs %s(%d) after the caller changed the same coordinate array in place' % (fam, ns, params, i, fam, ns[i]))
        ctx.label('coordinates-edited-in-place')


# ---- two-index families --------------------------------------------------------------------------------
def zernike_pairs(N):
    def mk(t):
        am, j, neg = t
        am = min(am, N)
        n = am + 2 * j
        while n > N:
            n -= 2
        return [n, -am if neg else am]
    one = st.tuples(st.one_of(st.integers(0, 4), st.integers(0, N)), st.integers(0, N // 2), st.booleans()).map(mk)
    return st.lists(one, min_size=1, max_size=12)


def q2d_pairs(N, M):
    one = st.tuples(st.one_of(st.integers(0, 4), st.integers(0, N)), st.one_of(st.integers(-3, 3), st.integers(-M, M))).map(list)
    return st.lists(one, min_size=1, max_size=12)


def xy_pairs(N):
    e = st.one_of(st.sampled_from([0, 0, 1, 2]), st.integers(0, N))
    return st.lists(st.tuples(e, e).map(list), min_size=1, max_size=12)


def _pair_class(nms):
    ams = [abs(m) for _, m in nms]
    out = ['sorted' if nms == sorted(nms) else 'unsorted']
    if len(set(ams)) < len(ams):
        out.append('repeated|m|')
    if len(set(map(tuple, nms))) < len(nms):
        out.append('repeated-pair')
    if len(nms) == 1:
        out.append('single')
    return out


def _polar_ref(rmax=1.0):
    r, t = np.meshgrid(np.linspace(0.0, rmax, 9), np.linspace(0.05, 2 * np.pi, 12))
    return r, t


PAIRS_AS = ['tuples', 'tuples', 'lists', 'tuple-of-tuples', 'ndarray']
# a boolean option as callers hold it: the object True / False, a numpy bool (an element of a boolean array, the result of comparing numpy
# scalars), 1 / 0.  The sequence routine and the single-order routine are given the very same object.
FLAG_KINDS = ['bool', 'bool', 'bool', 'np.bool_', 'comparison', 'int']
PAT_ON = ['both', 'first', 'second']


def flag_as(value, how):
    value = bool(value)
    if how == 'np.bool_':
        return np.array([True, False])[0 if value else 1]
    if how == 'comparison':
        return np.float64(1.0) > 0 if value else np.float64(1.0) < 0
    if how == 'int':
        return 1 if value else 0
    return value


def _pair_patterns(case, shape):
    """(pattern of the first coordinate array, of the second, class label) of a two-coordinate case"""
    pat, on = case.get('pattern', FREE), case.get('pat_on', 'both')
    lab = pattern_label(pat, shape)
    if lab == 'values:free':
        return FREE, FREE, lab
    return (pat if on != 'second' else FREE), (pat if on != 'first' else FREE), lab + ':' + on

HISTORY2 = ['none', 'none', 'none', 'single-first', 'other-pairs', 'other-coords']


def _as_pairs(nms, how):
    if how == 'lists':
        return [list(p) for p in nms]
    if how == 'tuple-of-tuples':
        return tuple(tuple(p) for p in nms)
    if how == 'ndarray':
        return np.asarray(nms, dtype=np.int64).reshape(len(nms), 2)
    return [tuple(p) for p in nms]


def _pairs_equal(arg, nms):
    got = [(int(p[0]), int(p[1])) for p in arg]
    return got == [tuple(p) for p in nms]


def _two_index_protocol(ctx, name, cls, run, nms, pairs_as, history, make_coords, dtype, other_pairs):
    """history, the checked call with argument copies, a second call at other coordinates, an in-place edit of the first
    result and a repeat of the first call.  run(pairs, coords) -> ndarray.  Returns (first result (a copy), coordinates,
    result of the repeat, second coordinate set, its result)."""
    c0 = make_coords(dtype, 0)
    if history == 'single-first' and _single(dtype):
        run(_as_pairs(nms, pairs_as), make_coords(_single(dtype), 0))
    elif history == 'other-pairs':
        run(_as_pairs(other_pairs, pairs_as), c0)
    elif history == 'other-coords':
        run(_as_pairs(nms, pairs_as), make_coords(dtype, 40))
    before = [np.array(c, copy=True) for c in c0]
    arg = _as_pairs(nms, pairs_as)
    out = run(arg, c0)
    for c, b, nm in zip(c0, before, ('first', 'second')):
        _unchanged(ctx, c, b, '%s:argument-modified:coords' % name, 'the %s coordinate array' % nm)
    ctx.require(_pairs_equal(arg, nms), '%s:argument-modified:pairs' % name, 'the list of pairs %r became %r' % (nms, arg))
    ctx.require(isinstance(out, np.ndarray), '%s:type' % name, 'returned %s, not an ndarray' % type(out).__name__)
    kept = np.array(out, copy=True)
    c2 = make_coords(dtype, 70)
    out2 = np.asarray(run(arg, c2))
    U.check_equal(out, kept, '%s:result-overwritten' % name, 'the result of %s(%r) after a second call at other coordinates' % (name, nms))
    if out.flags.writeable:
        out[...] = 7
    out3 = np.asarray(run(arg, c0))
    ctx.require(out3.shape == kept.shape, '%s:aliased-state:%s:shape' % (name, cls), 'repeat call returned shape %s, first call %s' % (out3.shape, kept.shape))
    ctx.require(out2.shape == kept.shape, '%s:second-call:%s:shape' % (name, cls), 'second call returned shape %s, first call %s' % (out2.shape, kept.shape))
    for c, b, nm in zip(c0, before, ('first', 'second')):
        _unchanged(ctx, c, b, '%s:argument-modified:coords' % name, 'the %s coordinate array' % nm)
    return kept, c0, out3, c2, out2


def _two_index_labels(ctx, dtype, layout, pairs_as, history, shape):
    ctx.nt(dtype != 'float64' or history != 'none' or (layout != 'C' and len(shape) > 0))
    ctx.label(dtype, 'layout:' + (layout if shape else '0-D'), 'pairs_as:' + pairs_as, 'history:' + history)


def strat_zernike(tier):
    N, D = {'quick': 60, 'thorough': 120}[tier], DMAX[tier]
    return st.sampled_from(FLOATS).flatmap(lambda dtype: st.fixed_dictionaries({
        'fn': st.sampled_from(['zernike_nm_seq', 'zernike_nm_der_seq']), 'nms': zernike_pairs(NMAX_SINGLE if dtype in SINGLE else N), 'norm': st.booleans(),
        'norm_kw': st.booleans(), 'shape': shape_spec(D), 'dtype': st.just(dtype), 'layout': U.layouts,
        'pairs_as': st.sampled_from(PAIRS_AS), 'history': st.sampled_from(HISTORY2), 'seed': U.seeds, 'span': st.sampled_from(SPANS),
        'norm_as': st.sampled_from(FLAG_KINDS), 'pattern': patterns(), 'pat_on': st.sampled_from(PAT_ON)}))


def check_zernike(case, ctx):
    """zernike_nm_seq / zernike_nm_der_seq against zernike_nm / zernike_nm_der, pair by pair, norm True and False; arguments
    unchanged; results independent of earlier calls and of what the caller did to earlier results."""
    from prysm import polynomials as P
    nms = [(int(n), int(m)) for n, m in case['nms']]
    k = len(nms)
    shape = resolve_shape(case['shape'], k)
    dtype = case['dtype']
    layout, pairs_as, history = case.get('layout', 'C'), case.get('pairs_as', 'tuples'), case.get('history', 'none')

    span = case.get('span', 'domain')
    rmax = RADIUS_BEYOND if span == 'beyond' else 1.0
    pat_r, pat_t, vcls = _pair_patterns(case, shape)
    norm_as = case.get('norm_as', 'bool')

    def make_coords(dt, salt):
        return (present(coords(case['seed'], shape, 0.0, rmax, dt, salt=1 + salt, pat=pat_r), layout, 'array'),
                present(coords(case['seed'], shape, 0.0, 2 * np.pi, dt, salt=2 + salt, pat=pat_t), layout, 'array'))
    scls = _shape_class(shape, k)
    pcls = _pair_class(case['nms'])
    ctx.nt('unsorted' in pcls or 'repeated|m|' in pcls or len(shape) != 1 or k in shape or span != 'domain' or vcls != 'values:free' or norm_as != 'bool')
    ctx.label(case['fn'], scls, 'norm=%s' % case['norm'], 'span:' + span, vcls, 'norm-as:' + norm_as, *pcls)
    if span != 'domain':
        scls += ':beyond-unit-disc'
    if vcls != 'values:free':
        scls += ':' + vcls
    ctx.label('maxn>=30' if max(n for n, _ in nms) >= 30 else 'maxn<30')
    _two_index_labels(ctx, dtype, layout, pairs_as, history, shape)
    kw = {'norm': case['norm']} if (case['norm_kw'] or not case['norm']) else {}
    ncls = 'norm=%s' % case['norm']
    if norm_as != 'bool':
        # the same flag object for the sequence routine and for the single-order routine
        kw = {'norm': flag_as(case['norm'], norm_as)}
        ncls += ':given-as-' + norm_as
    rref, tref = _polar_ref(rmax)
    other = [(n + 2, m) for n, m in nms]
    spot = int(case['seed']) % k
    if case['fn'] == 'zernike_nm_seq':
        kept, (r, t), out3, (r2, t2), out2 = _two_index_protocol(
            ctx, 'zernike_nm_seq', scls, lambda pairs, c: _guard(ctx, scls, P.zernike_nm_seq, pairs, c[0], c[1], **kw),
            nms, pairs_as, history, make_coords, dtype, other)
        U.check_shape(kept, (k,) + shape, 'zernike_nm_seq:' + scls, 'zernike_nm_seq of %d pairs on r.shape=%s' % (k, shape))
        for i, (n, m) in enumerate(nms):
            want = np.asarray(_guard(ctx, scls, P.zernike_nm, n, m, r, t, **kw))
            ref = _guard(ctx, 'ref', P.zernike_nm, n, m, rref, tref, **kw)
            if m != 0 and dtype in SINGLE:
                ref = _with_radial_amplitude(ref, dtype, _guard(ctx, 'ref', P.zernike_nm, n, abs(m), r, 0 * t, **kw), _guard(ctx, 'ref', P.zernike_nm, n, abs(m), r2, 0 * t2, **kw))
            _cmp(kept[i], want, ref, dtype, 'zernike_nm_seq:%s:%s' % (scls, ncls),
                 'zernike_nm_seq(%r)[%d] vs zernike_nm(%d,%d) r.shape=%s %s %s' % (nms, i, n, m, shape, dtype, layout))
            _cmp(out3[i], want, ref, dtype, 'zernike_nm_seq:aliased-state:%s' % ncls,
                 'zernike_nm_seq(%r)[%d] vs zernike_nm(%d,%d), called again after the caller overwrote the first result' % (nms, i, n, m))
            if i == spot:
                _cmp(out2[i], np.asarray(_guard(ctx, scls, P.zernike_nm, n, m, r2, t2, **kw)), ref, dtype, 'zernike_nm_seq:second-call',
                     'zernike_nm_seq(%r)[%d] vs zernike_nm(%d,%d) on the second coordinate set' % (nms, i, n, m))
        if all(isinstance(c, np.ndarray) and c.ndim >= 1 and c.flags.writeable for c in (r, t)):
            # the caller normalises its radius and clocks its azimuth in place, then asks again with the same two objects
            r *= 0.75
            t += 0.37
            out4 = np.asarray(_guard(ctx, scls, P.zernike_nm_seq, _as_pairs(nms, pairs_as), r, t, **kw))
            U.check_shape(out4, (k,) + shape, 'zernike_nm_seq:coordinates-edited-in-place:' + scls, 'same coordinate objects, new values')
            for i in sorted({0, spot, k - 1}):
                n, m = nms[i]
                want = np.asarray(_guard(ctx, scls, P.zernike_nm, n, m, r, t, **kw))
                ref = _guard(ctx, 'ref', P.zernike_nm, n, m, rref, tref, **kw)
                if m != 0 and dtype in SINGLE:
                    ref = _with_radial_amplitude(ref, dtype, _guard(ctx, 'ref', P.zernike_nm, n, abs(m), r, 0 * t, **kw))
                _cmp(out4[i], want, ref, dtype, 'zernike_nm_seq:coordinates-edited-in-place',
                     'zernike_nm_seq(%r)[%d] vs zernike_nm(%d,%d) after the caller changed r and t in place' % (nms, i, n, m))
            ctx.label('coordinates-edited-in-place')
    else:
        kept, (r, t), out3, (r2, t2), out2 = _two_index_protocol(
            ctx, 'zernike_nm_der_seq', scls, lambda pairs, c: _guard(ctx, scls, P.zernike_nm_der_seq, pairs, c[0], c[1], **kw),
            nms, pairs_as, history, make_coords, dtype, other)
        U.check_shape(kept, (k, 2) + shape, 'zernike_nm_der_seq:' + scls, 'zernike_nm_der_seq of %d pairs on r.shape=%s' % (k, shape))
        for i, (n, m) in enumerate(nms):
            dr, dt = _guard(ctx, scls, P.zernike_nm_der, n, m, r, t, **kw)
            refs = _guard(ctx, 'ref', P.zernike_nm_der, n, m, rref, tref, **kw)
            if m != 0 and dtype in SINGLE:
                refs = (_with_radial_amplitude(refs[0], dtype, _guard(ctx, 'ref', P.zernike_nm_der, n, abs(m), r, 0 * t, **kw)[0], _guard(ctx, 'ref', P.zernike_nm_der, n, abs(m), r2, 0 * t2, **kw)[0]),
                        _with_radial_amplitude(refs[1], dtype, abs(m) * _guard(ctx, 'ref', P.zernike_nm, n, abs(m), r, 0 * t, **kw), abs(m) * _guard(ctx, 'ref', P.zernike_nm, n, abs(m), r2, 0 * t2, **kw)))
            for j, (want, nm) in enumerate(((dr, 'd/dr'), (dt, 'd/dt'))):
                _cmp(kept[i, j], want, refs[j], dtype, 'zernike_nm_der_seq:%s:%s:%s' % (nm, scls, ncls),
                     'zernike_nm_der_seq(%r)[%d,%d] vs zernike_nm_der(%d,%d) %s r.shape=%s %s %s' % (nms, i, j, n, m, nm, shape, dtype, layout))
                _cmp(out3[i, j], want, refs[j], dtype, 'zernike_nm_der_seq:aliased-state:%s' % nm,
                     'zernike_nm_der_seq(%r)[%d,%d] vs zernike_nm_der(%d,%d), called again after the caller overwrote the first result' % (nms, i, j, n, m))
            if i == spot:
                w2 = _guard(ctx, scls, P.zernike_nm_der, n, m, r2, t2, **kw)
                for j in (0, 1):
                    _cmp(out2[i, j], w2[j], refs[j], dtype, 'zernike_nm_der_seq:second-call',
                         'zernike_nm_der_seq(%r)[%d,%d] vs zernike_nm_der(%d,%d) on the second coordinate set' % (nms, i, j, n, m))


def strat_q2d(tier):
    N, M = {'quick': (30, 16), 'thorough': (60, 30)}[tier]
    return st.sampled_from(FLOATS).flatmap(lambda dtype: st.fixed_dictionaries({
        'nms': q2d_pairs(14, 10) if dtype in SINGLE else q2d_pairs(N, M), 'shape': shape_spec(DMAX[tier]), 'dtype': st.just(dtype),
        'layout': U.layouts, 'pairs_as': st.sampled_from(PAIRS_AS), 'history': st.sampled_from(HISTORY2), 'seed': U.seeds, 'span': st.sampled_from(SPANS),
        'pattern': patterns(), 'pat_on': st.sampled_from(PAT_ON)}))


def check_q2d(case, ctx):
    """Q2d_seq against Q2d pair by pair (m = 0 -> Qbfs, m > 0 cosine, m < 0 sine), any order, repeated |m|; arguments unchanged;
    results independent of earlier calls and of what the caller did to earlier results."""
    from prysm import polynomials as P
    nms = [(int(n), int(m)) for n, m in case['nms']]
    k = len(nms)
    shape = resolve_shape(case['shape'], k)
    dtype = case['dtype']
    layout, pairs_as, history = case.get('layout', 'C'), case.get('pairs_as', 'tuples'), case.get('history', 'none')

    span = case.get('span', 'domain')
    rmax = RADIUS_BEYOND if span == 'beyond' else 1.0
    pat_r, pat_t, vcls = _pair_patterns(case, shape)

    def make_coords(dt, salt):
        return (present(coords(case['seed'], shape, 0.0, rmax, dt, salt=1 + salt, pat=pat_r), layout, 'array'),
                present(coords(case['seed'], shape, 0.0, 2 * np.pi, dt, salt=2 + salt, pat=pat_t), layout, 'array'))
    scls = _shape_class(shape, k)
    pcls = _pair_class(case['nms'])
    ms = [m for _, m in nms]
    content = ('m0' if 0 in ms else '') + ('cos' if any(m > 0 for m in ms) else '') + ('sin' if any(m < 0 for m in ms) else '')
    ctx.nt('unsorted' in pcls or 'repeated|m|' in pcls or len(shape) != 1 or k in shape or span != 'domain' or vcls != 'values:free')
    ctx.label(scls, 'content:' + content, 'span:' + span, vcls, *pcls)
    if span != 'domain':
        scls += ':beyond-unit-disc'
    if vcls != 'values:free':
        scls += ':' + vcls
    ctx.label('maxn>=15' if max(n for n, _ in nms) >= 15 else 'maxn<15')
    _two_index_labels(ctx, dtype, layout, pairs_as, history, shape)
    other = [(n + 1, -m) for n, m in nms]
    kept, (r, t), out3, (r2, t2), out2 = _two_index_protocol(
        ctx, 'Q2d_seq', scls, lambda pairs, c: _guard(ctx, scls, P.Q2d_seq, pairs, c[0], c[1]), nms, pairs_as, history, make_coords, dtype, other)
    U.check_shape(kept, (k,) + shape, 'Q2d_seq:' + scls, 'Q2d_seq of %d pairs on r.shape=%s' % (k, shape))
    rref, tref = _polar_ref(rmax)
    spot = int(case['seed']) % k
    for i, (n, m) in enumerate(nms):
        want = np.asarray(_guard(ctx, scls, P.Q2d, n, m, r, t))
        mcls = 'm=0' if m == 0 else ('m>0' if m > 0 else 'm<0')
        ref = _guard(ctx, 'ref', P.Q2d, n, m, rref, tref)
        if m != 0 and dtype in SINGLE:
            ref = _with_radial_amplitude(ref, dtype, _guard(ctx, 'ref', P.Q2d, n, abs(m), r, 0 * t), _guard(ctx, 'ref', P.Q2d, n, abs(m), r2, 0 * t2))
        _cmp(kept[i], want, ref, dtype, 'Q2d_seq:%s:%s' % (scls, mcls),
             'Q2d_seq(%r)[%d] vs Q2d(%d,%d) r.shape=%s %s %s' % (nms, i, n, m, shape, dtype, layout))
        _cmp(out3[i], want, ref, dtype, 'Q2d_seq:aliased-state:%s' % mcls,
             'Q2d_seq(%r)[%d] vs Q2d(%d,%d), called again after the caller overwrote the first result' % (nms, i, n, m))
        if i == spot:
            _cmp(out2[i], np.asarray(_guard(ctx, scls, P.Q2d, n, m, r2, t2)), ref, dtype, 'Q2d_seq:second-call:%s' % mcls,
                 'Q2d_seq(%r)[%d] vs Q2d(%d,%d) on the second coordinate set' % (nms, i, n, m))


XY_DTYPES = ['float64'] * 5 + ['float32', 'complex128', 'int64', 'int64']
XY_INT_MAX = 12       # 3**12 * 3**12 < 2**63: integer coordinates in [-3, 3] cannot overflow int64


def strat_xy(tier):
    N, D = {'quick': 20, 'thorough': 40}[tier], DMAX[tier]
    d = st.integers(1, D)
    grid = st.tuples(d, d).map(lambda t: ['grid', list(t)])
    grid_forced = st.sampled_from([['grid-lead', [1, 3]], ['grid-trail', [3, 1]], ['grid-both', [1, 1]]])
    free = shape_spec(D).map(lambda s: ['free', s])
    return st.sampled_from(XY_DTYPES).flatmap(lambda dtype: st.fixed_dictionaries({
        'mns': xy_pairs(XY_INT_MAX if (dtype.startswith('int') or dtype in SINGLE) else N),
        'grid': st.sampled_from(['grid', 'grid', 'forced', 'free', 'free']).flatmap(lambda k: {'grid': grid, 'forced': grid_forced, 'free': free}[k]),
        'pass_flag': st.booleans(), 'dtype': st.just(dtype), 'layout': U.layouts, 'pairs_as': st.sampled_from(PAIRS_AS),
        'history': st.sampled_from(HISTORY2), 'seed': U.seeds,
        'cart_as': st.sampled_from(FLAG_KINDS), 'pattern': patterns(), 'pat_on': st.sampled_from(PAT_ON)}))


def check_xy(case, ctx):
    """xy_seq against xy (and x**m * y**n) term by term; cartesian_grid=True on 2-D meshgrids, False on any shape; arguments
    unchanged; results independent of earlier calls and of what the caller did to earlier results."""
    from prysm import polynomials as P
    mns = [(int(m), int(n)) for m, n in case['mns']]
    k = len(mns)
    kind, spec = case['grid']
    dtype = case.get('dtype', 'float64')
    layout, pairs_as, history = case.get('layout', 'C'), case.get('pairs_as', 'tuples'), case.get('history', 'none')
    lo, hi = (-3.0, 3.0) if dtype.startswith('int') else (-1.5, 1.5)
    if kind == 'free':
        shape = resolve_shape(spec, k)
        cart = False
    else:
        ny, nx = int(spec[0]), int(spec[1])
        if kind in ('grid-lead', 'grid-both'):
            ny = k
        if kind in ('grid-trail', 'grid-both'):
            nx = k
        shape = (ny, nx)
        cart = True

    # free arrays: the pattern is imposed on the arrays; meshgrids: on the two axis vectors (repeated leading / trailing samples of an axis,
    # i.e. an edge-padded or clipped grid that is still a meshgrid)
    pat_x, pat_y, vcls = _pair_patterns(case, shape if not cart else (max(shape),))
    cart_as = case.get('cart_as', 'bool')

    def make_coords(dt, salt):
        if not cart:
            x, y = coords(case['seed'], shape, lo, hi, dt, salt=1 + salt, pat=pat_x), coords(case['seed'], shape, lo, hi, dt, salt=2 + salt, pat=pat_y)
        else:
            x, y = np.meshgrid(coords(case['seed'], (shape[1],), lo, hi, dt, salt=1 + salt, pat=pat_x),
                               coords(case['seed'], (shape[0],), lo, hi, dt, salt=2 + salt, pat=pat_y))
        return present(x, layout, 'array'), present(y, layout, 'array')
    scls = _shape_class(shape, k)
    zero = 'zero-exp' if any(m == 0 or n == 0 for m, n in mns) else 'no-zero-exp'
    ctx.nt(len(shape) != 1 or k in shape or mns != sorted(mns) or vcls != 'values:free' or cart_as != 'bool')
    ctx.label(scls, 'cartesian=%s' % cart, zero, 'has(0,0)' if (0, 0) in mns else 'no(0,0)', vcls, 'cartesian_grid-as:' + cart_as)
    if vcls != 'values:free':
        scls += ':' + vcls
    _two_index_labels(ctx, dtype, layout, pairs_as, history, shape)
    kw = {'cartesian_grid': cart} if (case['pass_flag'] or not cart) else {}
    if cart_as != 'bool':
        kw = {'cartesian_grid': flag_as(cart, cart_as)}       # the same flag object for xy_seq and for xy
        scls += ':cartesian_grid-given-as-' + cart_as

    def run(pairs, c):
        return _guard(ctx, scls, P.xy_seq, pairs, c[0], c[1], **kw)
    x, y = make_coords(dtype, 0)
    if history == 'single-first' and _single(dtype):
        run(_as_pairs(mns, pairs_as), make_coords(_single(dtype), 0))
    elif history == 'other-pairs':
        run(_as_pairs([(m + 1, n + 2) for m, n in mns], pairs_as), (x, y))
    elif history == 'other-coords':
        run(_as_pairs(mns, pairs_as), make_coords(dtype, 40))
    xb, yb = np.array(x, copy=True), np.array(y, copy=True)
    arg = _as_pairs(mns, pairs_as)
    out = run(arg, (x, y))
    _unchanged(ctx, x, xb, 'xy_seq:argument-modified:coords', 'the x coordinate array')
    _unchanged(ctx, y, yb, 'xy_seq:argument-modified:coords', 'the y coordinate array')
    ctx.require(_pairs_equal(arg, mns), 'xy_seq:argument-modified:pairs', 'the list of exponents %r became %r' % (mns, arg))
    ctx.require(len(out) == k, 'xy_seq:count', 'xy_seq returned %d modes for %d terms' % (len(out), k))
    kept = [np.array(o, copy=True) for o in out]
    x2, y2 = make_coords(dtype, 70)
    out2 = run(arg, (x2, y2))
    for i in range(k):
        U.check_equal(np.asarray(out[i]), kept[i], 'xy_seq:result-overwritten', 'mode %d of xy_seq(%r) after a second call at other coordinates' % (i, mns))
    for o in out:
        if isinstance(o, np.ndarray) and o.flags.writeable:
            o[...] = 7
    out3 = run(arg, (x, y))
    ctx.require(len(out3) == k and len(out2) == k, 'xy_seq:count', 'xy_seq returned %d / %d modes for %d terms on repeat calls' % (len(out2), len(out3), k))
    tol = _tol(dtype)
    spot = int(case['seed']) % k
    for i, (m, n) in enumerate(mns):
        got = kept[i]
        ecls = 'm=0' if m == 0 else 'm>0'
        ecls += ',n=0' if n == 0 else ',n>0'
        want = np.asarray(_guard(ctx, scls, P.xy, m, n, x, y, **kw))
        if got.shape != shape:
            raise Violation('xy_seq:%s:%s:shape' % (scls, ecls), 'xy_seq(%r)[%d] has shape %s, coordinates %s' % (mns, i, got.shape, shape))
        U.check_close(got, want, tol, 'xy_seq:%s:cart=%s' % (ecls, cart), 'xy_seq(%r)[%d] vs xy(%d,%d) on %s %s %s' % (mns, i, m, n, shape, dtype, layout))
        U.check_close(got, x ** m * y ** n, tol, 'xy_seq:%s:cart=%s:closed-form' % (ecls, cart),
                      'xy_seq(%r)[%d] vs x**%d*y**%d on %s %s' % (mns, i, m, n, shape, dtype))
        U.check_close(np.asarray(out3[i]), want, tol, 'xy_seq:aliased-state:%s' % ecls,
                      'xy_seq(%r)[%d] vs xy(%d,%d), called again after the caller overwrote the first result' % (mns, i, m, n))
        if i == spot:
            U.check_close(np.asarray(out2[i]), np.asarray(_guard(ctx, scls, P.xy, m, n, x2, y2, **kw)), tol, 'xy_seq:second-call:%s' % ecls,
                          'xy_seq(%r)[%d] vs xy(%d,%d) on the second coordinate set' % (mns, i, m, n))
    _unchanged(ctx, x, xb, 'xy:argument-modified:coords', 'the x coordinate array (single-term function)')
    _unchanged(ctx, y, yb, 'xy:argument-modified:coords', 'the y coordinate array (single-term function)')


def _hc(name, group, ex):
    return HypClause(name, strat_one_index(group), check_one_index, examples=ex, shards={'quick': 2, 'thorough': 4},
                     doc='%s: %s' % (', '.join(GROUPS[group]), check_one_index.__doc__))


CLAUSES = [
    _hc('jacobi_legendre', 'jacobi_legendre', {'quick': 350, 'thorough': 1800}),
    _hc('chebyshev', 'chebyshev', {'quick': 350, 'thorough': 1800}),
    _hc('chebyshev_der', 'chebyshev_der', {'quick': 350, 'thorough': 1800}),
    _hc('hermite', 'hermite', {'quick': 350, 'thorough': 1800}),
    _hc('laguerre', 'laguerre', {'quick': 250, 'thorough': 1500}),
    _hc('laguerre_der', 'laguerre_der', {'quick': 250, 'thorough': 1500}),
    _hc('dickson', 'dickson', {'quick': 250, 'thorough': 1500}),
    _hc('qbfs_qcon', 'qbfs_qcon', {'quick': 250, 'thorough': 1500}),
    HypClause('zernike', strat_zernike, check_zernike, examples={'quick': 700, 'thorough': 2500}, shards={'quick': 2, 'thorough': 4}),
    HypClause('q2d', strat_q2d, check_q2d, examples={'quick': 600, 'thorough': 2500}, shards={'quick': 2, 'thorough': 4}),
    HypClause('xy', strat_xy, check_xy, examples={'quick': 350, 'thorough': 2500}, shards={'quick': 2, 'thorough': 4}),
]
