"""C08 - asking for a whole list of orders at once returns what the single-order function returns, mode for mode."""
import numpy as np
from hypothesis import strategies as st

from vlib.core import HypClause, Violation
from vlib import util as U

RULE = ("Hypothesis draws, per polynomial family, an ascending order list (contiguous from 0 / 1 / 2 / k, gapped random "
        "subset, singleton, long - up to order 40 quick / 90 thorough), the shape parameters, and a coordinate shape "
        "(0-D, 1-D, 2-D square / non-square, 3-D, with a forced class whose leading dimension equals the number of "
        "orders, and one whose trailing dimension does); for the two-index families an arbitrary list of valid (n,m) "
        "pairs in any order with repeated |m| and repeated pairs.  Coordinates are expanded from a drawn integer "
        "inside the family's domain (end points included), float64 and (one case in eight) float32.  Oracle "
        "(differential, as the property states): seq(ns, x)[k] against scalar(ns[k], x) for every k - per mode, "
        "|diff| <= 1e-11 max(max|mode at x|, max|mode| on a fixed grid of the domain) in float64 (same recurrence; observed 0 "
        "for all one-index families, <= 5e-16 for zernike / xy), 1e-3 in float32 (observed <= 3e-6) - and the leading "
        "shape (len(ns), *x.shape); xy_seq additionally against x**m * y**n on the same grid.  Non-trivial = gapped "
        "list, or list not starting at 0/1, or x.ndim != 1, or a dimension of x equal to len(ns) (two-index: list "
        "not sorted or |m| repeated, or ndim != 1, or such a dimension).  Distinct = distinct canonical JSON.")
ASSUMPTIONS = ["order lists are non-empty, strictly ascending (one-index families) as documented; coordinates are numpy "
               "arrays (0-D included) of floating dtype", "xy / xy_seq with cartesian_grid=True are only given 2-D "
               "meshgrids (the two functions document different conventions for 1-D input)",
               "the scalar-order function is the reference (its own correctness is C07 / C09)"]

NMAX = {'quick': 40, 'thorough': 90}
DMAX = {'quick': 7, 'thorough': 12}


# ---- families --------------------------------------------------------------------------------------
def _families():
    from prysm import polynomials as P
    return {
        # name: (seq, scalar, n params, domain lo, hi)
        'jacobi': (P.jacobi_seq, P.jacobi, 2, -1.0, 1.0),
        'jacobi_der': (P.jacobi_der_seq, P.jacobi_der, 2, -1.0, 1.0),
        'legendre': (P.legendre_seq, P.legendre, 0, -1.0, 1.0),
        'legendre_der': (P.legendre_der_seq, P.legendre_der, 0, -1.0, 1.0),
        'cheby1': (P.cheby1_seq, P.cheby1, 0, -1.0, 1.0),
        'cheby2': (P.cheby2_seq, P.cheby2, 0, -1.0, 1.0),
        'cheby3': (P.cheby3_seq, P.cheby3, 0, -1.0, 1.0),
        'cheby4': (P.cheby4_seq, P.cheby4, 0, -1.0, 1.0),
        'cheby1_der': (P.cheby1_der_seq, P.cheby1_der, 0, -1.0, 1.0),
        'cheby2_der': (P.cheby2_der_seq, P.cheby2_der, 0, -1.0, 1.0),
        'cheby3_der': (P.cheby3_der_seq, P.cheby3_der, 0, -1.0, 1.0),
        'cheby4_der': (P.cheby4_der_seq, P.cheby4_der, 0, -1.0, 1.0),
        'hermite_He': (P.hermite_He_seq, P.hermite_He, 0, -3.0, 3.0),
        'hermite_H': (P.hermite_H_seq, P.hermite_H, 0, -3.0, 3.0),
        'hermite_He_der': (P.hermite_He_der_seq, P.hermite_He_der, 0, -3.0, 3.0),
        'hermite_H_der': (P.hermite_H_der_seq, P.hermite_H_der, 0, -3.0, 3.0),
        'laguerre': (P.laguerre_seq, P.laguerre, 1, 0.0, 8.0),
        'laguerre_der': (P.laguerre_der_seq, P.laguerre_der, 1, 0.0, 8.0),
        'dickson1': (P.dickson1_seq, P.dickson1, 1, -2.0, 2.0),
        'dickson2': (P.dickson2_seq, P.dickson2, 1, -2.0, 2.0),
        'Qbfs': (P.Qbfs_seq, P.Qbfs, 0, 0.0, 1.0),
        'Qcon': (P.Qcon_seq, P.Qcon, 0, 0.0, 1.0),
    }


GROUPS = {
    'jacobi_legendre': ['jacobi', 'jacobi_der', 'legendre', 'legendre_der'],
    'chebyshev': ['cheby1', 'cheby2', 'cheby3', 'cheby4'],
    'chebyshev_der': ['cheby1_der', 'cheby2_der', 'cheby3_der', 'cheby4_der'],
    'hermite': ['hermite_He', 'hermite_H', 'hermite_He_der', 'hermite_H_der'],
    'laguerre': ['laguerre'],
    'laguerre_der': ['laguerre_der'],
    'dickson': ['dickson1', 'dickson2'],
    'qbfs_qcon': ['Qbfs', 'Qcon'],
}

# shape parameters: Jacobi alpha,beta > -1 incl. the Chebyshev half-integer pairs, a+b in {0,-1} (special-cased in the
# recurrence); Laguerre alpha > -1; Dickson alpha small real
_AB = [-0.5, 0.5, 0, 1, 2, 4, 1.5, -0.75, 0.25, 3, 5.5]
PARAMS = {
    'jacobi': st.one_of(st.tuples(st.sampled_from(_AB), st.sampled_from(_AB)).map(list),
                        st.tuples(U.nice_float(-0.95, 6.0), U.nice_float(-0.95, 6.0)).map(list)),
    'laguerre': st.one_of(st.sampled_from([0, 1, 2, 0.5, -0.5, 3.25]), U.nice_float(-0.95, 6.0)).map(lambda a: [a]),
    'dickson': st.one_of(st.sampled_from([0, 1, -1, 2, 0.5]), U.nice_float(-2.0, 2.0)).map(lambda a: [a]),
}


def _param_strategy(fam):
    if fam.startswith('jacobi'):
        return PARAMS['jacobi']
    if fam.startswith('laguerre'):
        return PARAMS['laguerre']
    if fam.startswith('dickson'):
        return PARAMS['dickson']
    return st.just([])


# ---- order lists and shapes --------------------------------------------------------------------------
def order_lists(N):
    """ascending, strictly increasing, non-empty lists of orders in 0..N; each class forced."""
    contiguous = st.tuples(st.one_of(st.sampled_from([0, 0, 1, 1, 2, 3]), st.integers(0, N - 1)), st.integers(1, 14)).map(
        lambda t: [n for n in range(t[0], t[0] + t[1]) if n <= N])
    gapped = st.sets(st.integers(0, N), min_size=2, max_size=10).map(sorted)
    low_gapped = st.sets(st.integers(0, 8), min_size=1, max_size=6).map(sorted)
    single = st.one_of(st.sampled_from([0, 1, 2, 3]), st.integers(0, N)).map(lambda n: [n])
    long_ = st.integers(max(2, N - 12), N).map(lambda n: list(range(0, n + 1)))
    return st.one_of(contiguous, gapped, low_gapped, single, long_)


def shape_spec(D):
    """[kind, dims]; kind 'lead' / 'trail' / 'both' replace the leading / trailing dimension by the number of orders."""
    d = st.integers(1, D)
    return st.one_of(
        st.just(['plain', []]),
        d.map(lambda a: ['plain', [a]]),
        st.tuples(d, d).map(lambda t: ['plain', list(t)]),
        d.map(lambda a: ['plain', [a, a]]),
        st.tuples(d, d, d).map(lambda t: ['plain', [min(t[0], 4), t[1], t[2]]]),
        st.just(['lead', [1]]),
        d.map(lambda a: ['lead', [1, a]]),
        d.map(lambda a: ['trail', [a, 1]]),
        st.just(['both', [1, 1]]),
        st.tuples(d, d).map(lambda t: ['lead', [1, min(t[0], 4), t[1]]]),
    )


def resolve_shape(spec, k):
    kind, dims = spec
    dims = [int(v) for v in dims]
    if kind in ('lead', 'both') and dims:
        dims[0] = k
    if kind in ('trail', 'both') and dims:
        dims[-1] = k
    return tuple(dims)


def coords(seed, shape, lo, hi, dtype, salt=0):
    """points inside [lo,hi] from the drawn integer; ~1 in 8 entries is pinned to an end point or the middle."""
    r = U.rng_of(seed, salt)
    x = r.uniform(lo, hi, shape)
    pin = r.integers(0, 24, shape)
    x = np.where(pin == 0, lo, x)
    x = np.where(pin == 1, hi, x)
    x = np.where(pin == 2, 0.5 * (lo + hi), x)
    return np.asarray(x, dtype=dtype)


def _tol(dtype):
    return 1e-11 if dtype == 'float64' else 1e-3


def _cmp(got, want, ref, dtype, bucket, what):
    """|got - want| <= tol * max(max|want|, max|mode| on a fixed reference grid of the domain).

    The reference amplitude keeps the comparison meaningful when every drawn point happens to sit next to a zero of
    the mode (0-D input): the two routines may round intermediate terms differently, which is an error relative to
    the size of the mode, not to its value at a zero."""
    want = np.asarray(want)
    ref = float(np.max(np.abs(ref))) if np.all(np.isfinite(ref)) else 0.0
    return U.check_close(got, want, _tol(dtype), bucket, what, atol=_tol(dtype) * ref)


def _shape_class(shape, k):
    cls = 'ndim%d' % len(shape)
    if shape and shape[0] == k:
        cls += ':lead=len(ns)'
    elif k in shape:
        cls += ':dim=len(ns)'
    return cls


def _list_class(ns):
    if len(ns) == 1:
        return 'single:n=%s' % (ns[0] if ns[0] < 3 else '3+')
    contiguous = ns == list(range(ns[0], ns[0] + len(ns)))
    return ('contig' if contiguous else 'gapped') + ':from%s' % (ns[0] if ns[0] < 3 else '3+')


def _guard(ctx, cls, fn, *a, **k):
    """ctx.call with the input class appended to the bucket of a crash."""
    try:
        return ctx.call(fn, *a, **k)
    except Violation as v:
        raise Violation(v.bucket + ':' + cls, v.msg) from v


# ---- one-index families --------------------------------------------------------------------------------
def strat_one_index(group):
    def build(tier):
        N, D = NMAX[tier], DMAX[tier]
        return st.sampled_from(GROUPS[group]).flatmap(lambda fam: st.fixed_dictionaries({
            'family': st.just(fam), 'ns': order_lists(N), 'params': _param_strategy(fam), 'shape': shape_spec(D),
            'dtype': st.sampled_from(['float64'] * 7 + ['float32']), 'seed': U.seeds}))
    return build


def check_one_index(case, ctx):
    """seq(ns, *params, x)[k] == scalar(ns[k], *params, x) for every k; shape (len(ns), *x.shape)."""
    fam, ns, params, dtype = case['family'], [int(n) for n in case['ns']], list(case['params']), case['dtype']
    seq, scalar, npar, lo, hi = _families()[fam]
    k = len(ns)
    shape = resolve_shape(case['shape'], k)
    x = coords(case['seed'], shape, lo, hi, dtype)
    scls, lcls = _shape_class(shape, k), _list_class(ns)
    gapped = ns != list(range(ns[0], ns[0] + k))
    ctx.nt(gapped or ns[0] > 1 or len(shape) != 1 or k in shape)
    ctx.label(fam, scls, lcls, dtype, 'maxn>=20' if ns[-1] >= 20 else 'maxn<20')
    out = _guard(ctx, scls + ':' + lcls, seq, list(ns), *params, x)
    out = np.asarray(out)
    U.check_shape(out, (k,) + shape, '%s_seq:%s:%s' % (fam, scls, lcls), '%s_seq(%r) on x of shape %s' % (fam, ns, shape))
    xref = np.linspace(lo, hi, 17)
    for i, n in enumerate(ns):
        want = _guard(ctx, scls, scalar, n, *params, x)
        want = np.asarray(want)
        U.check_shape(want, shape, '%s:scalar:%s' % (fam, scls), '%s(%d) on x of shape %s' % (fam, n, shape))
        ncls = 'n=%d' % n if n < 3 else 'n>=3'
        _cmp(out[i], want, _guard(ctx, 'ref', scalar, n, *params, xref), dtype, '%s_seq:%s:%s' % (fam, scls, ncls),
             '%s_seq(%r, %r)[%d] vs %s(%d) on x.shape=%s' % (fam, ns, params, i, fam, n, shape))


# ---- two-index families --------------------------------------------------------------------------------
def zernike_pairs(N):
    def mk(t):
        am, j, neg = t
        am = min(am, N)
        n = am + 2 * j
        while n > N:
            n -= 2
        return [n, -am if neg else am]
    one = st.tuples(st.one_of(st.integers(0, 4), st.integers(0, N)), st.integers(0, N // 2), st.booleans()).map(mk)
    return st.lists(one, min_size=1, max_size=12)


def q2d_pairs(N, M):
    one = st.tuples(st.one_of(st.integers(0, 4), st.integers(0, N)), st.one_of(st.integers(-3, 3), st.integers(-M, M))).map(list)
    return st.lists(one, min_size=1, max_size=12)


def xy_pairs(N):
    e = st.one_of(st.sampled_from([0, 0, 1, 2]), st.integers(0, N))
    return st.lists(st.tuples(e, e).map(list), min_size=1, max_size=12)


def _pair_class(nms):
    ams = [abs(m) for _, m in nms]
    out = ['sorted' if nms == sorted(nms) else 'unsorted']
    if len(set(ams)) < len(ams):
        out.append('repeated|m|')
    if len(set(map(tuple, nms))) < len(nms):
        out.append('repeated-pair')
    if len(nms) == 1:
        out.append('single')
    return out


def _polar_ref():
    r, t = np.meshgrid(np.linspace(0.0, 1.0, 9), np.linspace(0.05, 2 * np.pi, 12))
    return r, t


def strat_zernike(tier):
    N, D = {'quick': 30, 'thorough': 60}[tier], DMAX[tier]
    return st.fixed_dictionaries({
        'fn': st.sampled_from(['zernike_nm_seq', 'zernike_nm_der_seq']), 'nms': zernike_pairs(N), 'norm': st.booleans(),
        'norm_kw': st.booleans(), 'shape': shape_spec(D), 'dtype': st.sampled_from(['float64'] * 7 + ['float32']),
        'seed': U.seeds})


def check_zernike(case, ctx):
    """zernike_nm_seq / zernike_nm_der_seq against zernike_nm / zernike_nm_der, pair by pair, norm True and False."""
    from prysm import polynomials as P
    nms = [(int(n), int(m)) for n, m in case['nms']]
    k = len(nms)
    shape = resolve_shape(case['shape'], k)
    dtype = case['dtype']
    r = coords(case['seed'], shape, 0.0, 1.0, dtype, salt=1)
    t = coords(case['seed'], shape, 0.0, 2 * np.pi, dtype, salt=2)
    scls = _shape_class(shape, k)
    pcls = _pair_class(case['nms'])
    ctx.nt('unsorted' in pcls or 'repeated|m|' in pcls or len(shape) != 1 or k in shape)
    ctx.label(case['fn'], scls, 'norm=%s' % case['norm'], dtype, *pcls)
    kw = {'norm': case['norm']} if (case['norm_kw'] or not case['norm']) else {}
    rref, tref = _polar_ref()
    if case['fn'] == 'zernike_nm_seq':
        out = np.asarray(_guard(ctx, scls, P.zernike_nm_seq, list(nms), r, t, **kw))
        U.check_shape(out, (k,) + shape, 'zernike_nm_seq:' + scls, 'zernike_nm_seq of %d pairs on r.shape=%s' % (k, shape))
        for i, (n, m) in enumerate(nms):
            want = np.asarray(_guard(ctx, scls, P.zernike_nm, n, m, r, t, **kw))
            _cmp(out[i], want, _guard(ctx, 'ref', P.zernike_nm, n, m, rref, tref, **kw), dtype,
                 'zernike_nm_seq:%s:norm=%s' % (scls, case['norm']),
                 'zernike_nm_seq(%r)[%d] vs zernike_nm(%d,%d) r.shape=%s' % (nms, i, n, m, shape))
    else:
        out = np.asarray(_guard(ctx, scls, P.zernike_nm_der_seq, list(nms), r, t, **kw))
        U.check_shape(out, (k, 2) + shape, 'zernike_nm_der_seq:' + scls, 'zernike_nm_der_seq of %d pairs on r.shape=%s' % (k, shape))
        for i, (n, m) in enumerate(nms):
            dr, dt = _guard(ctx, scls, P.zernike_nm_der, n, m, r, t, **kw)
            refs = _guard(ctx, 'ref', P.zernike_nm_der, n, m, rref, tref, **kw)
            for j, (want, nm) in enumerate(((dr, 'd/dr'), (dt, 'd/dt'))):
                _cmp(out[i, j], want, refs[j], dtype, 'zernike_nm_der_seq:%s:%s:norm=%s' % (nm, scls, case['norm']),
                     'zernike_nm_der_seq(%r)[%d,%d] vs zernike_nm_der(%d,%d) %s r.shape=%s' % (nms, i, j, n, m, nm, shape))


def strat_q2d(tier):
    N, M = {'quick': (14, 10), 'thorough': (30, 16)}[tier]
    return st.fixed_dictionaries({'nms': q2d_pairs(N, M), 'shape': shape_spec(DMAX[tier]),
                                  'dtype': st.sampled_from(['float64'] * 7 + ['float32']), 'seed': U.seeds})


def check_q2d(case, ctx):
    """Q2d_seq against Q2d pair by pair (m = 0 -> Qbfs, m > 0 cosine, m < 0 sine), any order, repeated |m|."""
    from prysm import polynomials as P
    nms = [(int(n), int(m)) for n, m in case['nms']]
    k = len(nms)
    shape = resolve_shape(case['shape'], k)
    dtype = case['dtype']
    r = coords(case['seed'], shape, 0.0, 1.0, dtype, salt=1)
    t = coords(case['seed'], shape, 0.0, 2 * np.pi, dtype, salt=2)
    scls = _shape_class(shape, k)
    pcls = _pair_class(case['nms'])
    ms = [m for _, m in nms]
    content = ('m0' if 0 in ms else '') + ('cos' if any(m > 0 for m in ms) else '') + ('sin' if any(m < 0 for m in ms) else '')
    ctx.nt('unsorted' in pcls or 'repeated|m|' in pcls or len(shape) != 1 or k in shape)
    ctx.label(scls, dtype, 'content:' + content, *pcls)
    out = np.asarray(_guard(ctx, scls, P.Q2d_seq, list(nms), r, t))
    U.check_shape(out, (k,) + shape, 'Q2d_seq:' + scls, 'Q2d_seq of %d pairs on r.shape=%s' % (k, shape))
    rref, tref = _polar_ref()
    for i, (n, m) in enumerate(nms):
        want = np.asarray(_guard(ctx, scls, P.Q2d, n, m, r, t))
        mcls = 'm=0' if m == 0 else ('m>0' if m > 0 else 'm<0')
        _cmp(out[i], want, _guard(ctx, 'ref', P.Q2d, n, m, rref, tref), dtype, 'Q2d_seq:%s:%s' % (scls, mcls),
             'Q2d_seq(%r)[%d] vs Q2d(%d,%d) r.shape=%s' % (nms, i, n, m, shape))


def strat_xy(tier):
    N, D = {'quick': 12, 'thorough': 25}[tier], DMAX[tier]
    d = st.integers(1, D)
    grid = st.tuples(d, d).map(lambda t: ['grid', list(t)])
    grid_forced = st.sampled_from([['grid-lead', [1, 3]], ['grid-trail', [3, 1]], ['grid-both', [1, 1]]])
    free = shape_spec(D).map(lambda s: ['free', s])
    return st.fixed_dictionaries({'mns': xy_pairs(N), 'grid': st.sampled_from(['grid', 'grid', 'forced', 'free', 'free']).flatmap(lambda k: {'grid': grid, 'forced': grid_forced, 'free': free}[k]),
                                  'pass_flag': st.booleans(), 'seed': U.seeds})


def check_xy(case, ctx):
    """xy_seq against xy (and x**m * y**n) term by term; cartesian_grid=True on 2-D meshgrids, False on any shape."""
    from prysm import polynomials as P
    mns = [(int(m), int(n)) for m, n in case['mns']]
    k = len(mns)
    kind, spec = case['grid']
    if kind == 'free':
        shape = resolve_shape(spec, k)
        x = coords(case['seed'], shape, -1.5, 1.5, 'float64', salt=1)
        y = coords(case['seed'], shape, -1.5, 1.5, 'float64', salt=2)
        cart = False
        xg, yg = x, y
    else:
        ny, nx = int(spec[0]), int(spec[1])
        if kind in ('grid-lead', 'grid-both'):
            ny = k
        if kind in ('grid-trail', 'grid-both'):
            nx = k
        shape = (ny, nx)
        xv = coords(case['seed'], (nx,), -1.5, 1.5, 'float64', salt=1)
        yv = coords(case['seed'], (ny,), -1.5, 1.5, 'float64', salt=2)
        x, y = np.meshgrid(xv, yv)
        cart = True
        xg, yg = x, y
    scls = _shape_class(shape, k)
    zero = 'zero-exp' if any(m == 0 or n == 0 for m, n in mns) else 'no-zero-exp'
    ctx.nt(len(shape) != 1 or k in shape or mns != sorted(mns))
    ctx.label(scls, 'cartesian=%s' % cart, zero, 'has(0,0)' if (0, 0) in mns else 'no(0,0)')
    kw = {'cartesian_grid': cart} if (case['pass_flag'] or not cart) else {}
    out = _guard(ctx, scls, P.xy_seq, list(mns), x, y, **kw)
    ctx.require(len(out) == k, 'xy_seq:count', 'xy_seq returned %d modes for %d terms' % (len(out), k))
    for i, (m, n) in enumerate(mns):
        got = np.asarray(out[i])
        ecls = 'm=0' if m == 0 else 'm>0'
        ecls += ',n=0' if n == 0 else ',n>0'
        want = np.asarray(_guard(ctx, scls, P.xy, m, n, x, y, **kw))
        if got.shape != shape:
            raise Violation('xy_seq:%s:%s:shape' % (scls, ecls), 'xy_seq(%r)[%d] has shape %s, coordinates %s' % (mns, i, got.shape, shape))
        U.check_close(got, want, 1e-11, 'xy_seq:%s:cart=%s' % (ecls, cart), 'xy_seq(%r)[%d] vs xy(%d,%d) on %s' % (mns, i, m, n, shape))
        U.check_close(got, xg ** m * yg ** n, 1e-11, 'xy_seq:%s:cart=%s:closed-form' % (ecls, cart),
                      'xy_seq(%r)[%d] vs x**%d*y**%d on %s' % (mns, i, m, n, shape))


def _hc(name, group, ex):
    return HypClause(name, strat_one_index(group), check_one_index, examples=ex, shards={'quick': 1, 'thorough': 4},
                     doc='%s: %s' % (', '.join(GROUPS[group]), check_one_index.__doc__))


CLAUSES = [
    _hc('jacobi_legendre', 'jacobi_legendre', {'quick': 700, 'thorough': 2500}),
    _hc('chebyshev', 'chebyshev', {'quick': 700, 'thorough': 2500}),
    _hc('chebyshev_der', 'chebyshev_der', {'quick': 700, 'thorough': 2500}),
    _hc('hermite', 'hermite', {'quick': 700, 'thorough': 2500}),
    _hc('laguerre', 'laguerre', {'quick': 500, 'thorough': 2000}),
    _hc('laguerre_der', 'laguerre_der', {'quick': 500, 'thorough': 2000}),
    _hc('dickson', 'dickson', {'quick': 500, 'thorough': 2000}),
    _hc('qbfs_qcon', 'qbfs_qcon', {'quick': 500, 'thorough': 2000}),
    HypClause('zernike', strat_zernike, check_zernike, examples={'quick': 700, 'thorough': 2500}, shards={'quick': 2, 'thorough': 4}),
    HypClause('q2d', strat_q2d, check_q2d, examples={'quick': 600, 'thorough': 2500}, shards={'quick': 2, 'thorough': 4}),
    HypClause('xy', strat_xy, check_xy, examples={'quick': 700, 'thorough': 2500}, shards={'quick': 1, 'thorough': 4}),
]
