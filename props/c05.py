"""C05 - fixed-sampling results depend on the physical field, not on its array embedding."""
import math

import numpy as np
from hypothesis import strategies as st

from vlib.core import HypClause
from vlib import util as U

RULE = ("Hypothesis cases over complex fields of any parity/squareness, zero-pad embeddings whose amount is drawn "
        "independently per axis (harness embed, origin sample to origin sample, not prysm.pad2d), per-axis output sizes and "
        "shifts, both methods, both directions; real/complex masks, mask sampling and mask shift for to_fpm_and_back, "
        "Wavefront.to_fpm_and_back and Wavefront.babinet.  Metamorphic oracles: linearity, embedding invariance with "
        "identical dx/output grid/shift, transposition with swapped per-axis arguments, identity through an all-pass mask "
        "sampled over the full band for every mask shift, Babinet T_m + T_(1-m) = T_1, babinet() == f - T_(1-m) f, additivity "
        "in the mask, and agreement of the whole mask-and-back chain with the harness' textbook DFT chain.  Non-trivial = "
        "non-square, or the embedding changes the parity of an axis, or per-axis arguments differ, or a non-zero mask shift, or "
        "a complex mask.")
ASSUMPTIONS = ["relations are exact for the textbook transform; rtol 1e-9 relative to the natural output scale",
               "Wavefront methods are given square `samples` / masks of any shape (ndarray)"]

TOL = 1e-9


def _reset():
    from prysm.fttools import mdft, czt
    mdft.clear()
    czt.clear()


def _shift():
    sh = st.one_of(st.just(0), st.integers(-3, 3), st.integers(-6, 6).map(lambda k: k / 2), U.nice_float(-4, 4).map(lambda v: round(v, 3)))
    return st.one_of(st.just([0, 0]), st.tuples(sh, sh).map(list))


def _phys():
    return st.fixed_dictionaries({'dx': st.sampled_from([0.05, 0.1, 0.5]), 'wvl': st.sampled_from([0.5, 0.6328, 1.55]),
                                  'efl': st.sampled_from([20.0, 100.0, 750.0])})


# ---- fixed-sampling transform T: linear, embedding invariant, transposes --------------------------------
def strat_T(tier):
    nmax = {'quick': 16, 'thorough': 40}[tier]
    ax = U.axis_len(nmax)
    pad = st.one_of(st.just(0), st.integers(0, 5), st.integers(0, nmax // 2))
    return st.fixed_dictionaries({
        'shape': st.one_of(st.tuples(ax, ax).map(list), st.tuples(ax, ax).map(list), ax.map(lambda k: [k, k])),
        'pad': st.tuples(pad, pad).map(list),
        'out': st.one_of(st.tuples(ax, ax).map(list), ax.map(lambda k: [k, k])),
        'Q': st.one_of(st.sampled_from([1.0, 2.0, 0.5, 1.37]), U.nice_float(0.4, 4).map(lambda v: round(v, 3))),
        'shift': _shift(), 'phys': _phys(), 'method': st.sampled_from(['mdft', 'czt']), 'fwd': st.booleans(),
        'kind': U.field_kinds, 'seed': U.seeds, 'adtype': st.sampled_from(['complex128', 'complex128', 'float64']), 'layout': U.layouts,
        'ab': st.tuples(U.nice_float(-2, 2), U.nice_float(-2, 2), U.nice_float(-2, 2), U.nice_float(-2, 2)).map(lambda t: [round(v, 3) for v in t]),
        'mag': st.sampled_from([0, 0, 0, 0, -9, -12, 9, -30, 30, -100, 100]),       # decimal exponent of an overall amplitude factor: the relations are homogeneous in the field
        # an earlier transform in the same session that shares the sampling of one axis only (bases cached per axis)
        'pre': st.sampled_from(['none', 'none', 'share-rows', 'share-cols', 'failed-calls', 'other-shift', 'interleaved-many', 'single-precision-twin', 'single-precision-twin']),
        'fftbackend': U.fft_backends,
        # a non-zero shift as the caller's own float64 array, one object for every call of the case (documented type: tuple; arrays are accepted)
        'shift_as': st.sampled_from(['tuple', 'tuple', 'ndarray']),
    })


def check_T(case, ctx):
    """focus/unfocus_fixed_sampling: linear; unchanged by zero-embedding the input; transposed by transposing input and per-axis arguments."""
    be = case.get('fftbackend', 'scipy')
    if be != 'scipy':
        ctx.label('fft-backend:' + be)
    with U.fft_backend(be):
        _check_T_inner(case, ctx)


def _check_T_inner(case, ctx):
    from prysm import propagation as P
    _reset()
    shape, pad, out, method, fwd = case['shape'], case['pad'], case['out'], case['method'], case['fwd']
    ph = case['phys']
    lam, efl = ph['wvl'], ph['efl']
    ny, nx = shape
    big = (ny + pad[0], nx + pad[1])
    a = U.field(case['seed'], shape, case['kind'], 1)
    if case.get('adtype', 'complex128') == 'complex128':
        a = a.astype(complex)
    else:
        a = np.ascontiguousarray(a.real).astype(case.get('adtype', 'complex128'))     # real-dtype input: linearity must hold across dtypes too
    mag = 10.0 ** case.get('mag', 0)
    a = U.relayout(a * mag, case.get('layout', 'C'))
    a_before = a.copy()
    b = U.field(case['seed'], shape, 'complex', 2) * mag
    ctx.label('mag:1' if mag == 1 else ('mag:tiny' if mag < 1 else 'mag:huge'))
    al = complex(case['ab'][0], case['ab'][1])
    be = complex(case['ab'][2], case['ab'][3])
    if fwd:
        dx_in = ph['dx']
        dx_out = lam * efl / (nx * dx_in * case['Q'])
        T0 = P.focus_fixed_sampling
    else:
        dx_out = ph['dx']
        dx_in = lam * efl / (nx * dx_out * case['Q'])
        T0 = P.unfocus_fixed_sampling
    sh = (case['shift'][0] * dx_out, case['shift'][1] * dx_out)
    shifted = any(s != 0 for s in sh)
    parity_change = any((s % 2) != (g % 2) for s, g in zip(shape, big))
    aspect_change = pad[0] * nx != pad[1] * ny
    ctx.nt(ny != nx or parity_change or out[0] != out[1] or sh[0] != sh[1] or shifted)
    ctx.label(method, 'fwd' if fwd else 'inv', 'a:' + case.get('adtype', 'complex128'), 'square' if ny == nx else 'nonsquare', 'embed-parity-change' if parity_change else 'embed-same-parity',
              'embed-aspect-change' if aspect_change else 'embed-same-aspect', 'shifted' if shifted else 'unshifted',
              'out-square' if out[0] == out[1] else 'out-nonsquare')

    sh_arr = np.array(sh, dtype=np.float64) if (shifted and case.get('shift_as', 'tuple') == 'ndarray') else None
    if sh_arr is not None:
        ctx.label('shift-as:ndarray')

    def T(f, o=tuple(out), s=sh):
        if sh_arr is not None and s is sh:
            s = sh_arr
        return np.asarray(ctx.call(T0, f, dx_in, efl, lam, dx_out, o, shift=s, method=method))
    pre = case.get('pre', 'none')
    if pre == 'failed-calls':
        # requests that fail (a 3-D stack where a 2-D field is expected) and are caught by the caller, in both directions and methods:
        # whatever they leave behind in the shared executors must not change later answers
        for fn_ in (P.focus_fixed_sampling, P.unfocus_fixed_sampling):
            for m_ in ('mdft', 'czt'):
                try:
                    fn_(np.ones((2, 3, 2), dtype=complex), dx_in, efl, lam, dx_out, tuple(out), shift=sh, method=m_)
                except Exception:      # noqa - the caller of an invalid request catches whatever comes
                    pass
        ctx.label('pre-call:' + pre)
    elif pre == 'other-shift':
        # the same geometry first with other shifts (none, one and two samples down): bases shared or derived between shifts of one geometry
        for os_ in ((0, 0), (-1 * dx_out, 0), (-2 * dx_out, 0), (0, -1 * dx_out), (0, -2 * dx_out)):
            if os_ != tuple(sh):
                T(a, s=os_)
        ctx.label('pre-call:' + pre)
    elif pre == 'interleaved-many':
        tiny = np.ones((2, 3), dtype=complex)
        for i in range(40):
            ctx.call(T0, tiny, dx_in, efl, lam, dx_out * (1 + i / 64), (3, 2), method=method)
            T(a)
        ctx.label('pre-call:' + pre)
    elif pre == 'single-precision-twin':
        # the same request first with single-precision data (and, every other time, under the single-precision configuration): what it leaves in
        # the shared executors must not be taken for the double-precision request
        a32 = np.asarray(a).astype(np.complex64 if np.iscomplexobj(a) else np.float32)
        if case['seed'] % 2:
            with U.precision(32):
                T(a32)
        else:
            T(a32)
        ctx.label('pre-call:' + pre)
    elif pre != 'none':
        pshape = (ny, nx + 1) if pre == 'share-rows' else (ny + 1, nx)
        T(np.ones(pshape, dtype=complex))
        ctx.label('pre-call:' + pre)
    Ta = T(a)
    U.check_shape(Ta, out, 'fixed_sampling')
    norm = dx_in * dx_out / (lam * efl)          # 1/sqrt(NyQy NxQx)
    scale = max(float(np.abs(a).sum() + np.abs(b).sum()) * norm * (1 + abs(al) + abs(be)), 1e-300)
    tag = ('focus' if fwd else 'unfocus') + '_fixed_sampling:' + method
    if case.get('adtype', 'complex128') != 'complex128':
        U.check_close(Ta, T(a.astype(complex)), 0, tag + ':real-vs-complex-dtype', 'T(real-dtype a) != T(a.astype(complex)) %s->%s' % (shape, out), atol=TOL * scale)
    # linearity
    Tb = T(b)
    Tl = T(al * a + be * b)
    U.check_close(Tl, al * Ta + be * Tb, 0, tag + ':linearity', 'T(alpha a + beta b) != alpha T(a) + beta T(b) %s->%s' % (shape, out), atol=TOL * scale)
    # embedding invariance
    Te = T(U.embed(a, big))
    U.check_close(Te, Ta, 0, tag + ':embedding' + (':nonsquare-or-aspect' if (ny != nx or aspect_change) else ''),
                  'output changed when %s was zero-embedded in %s (same dx, out=%s, shift=%r)' % (shape, list(big), out, sh), atol=TOL * scale)
    # transposition
    Tt = T(np.ascontiguousarray(a.T), (out[1], out[0]), (sh[1], sh[0]))
    U.check_equal(a, a_before, tag + ':input-modified', 'the transform modified its input array')
    U.check_close(Tt.T, Ta, 0, tag + ':transposition', 'T(f^T; swapped out/shift) != T(f)^T for %s->%s shift=%r' % (shape, out, sh), atol=TOL * scale)
    if sh_arr is not None:
        ctx.require(np.array_equal(sh_arr, np.array(sh)), tag + ':shift-argument-modified', 'the caller\'s shift array was changed: %r -> %r' % (sh, sh_arr.tolist()))
    if pre == 'single-precision-twin':
        # linearity and embedding invariance are blind to a consistently degraded kernel: compare with the same request on cleared executors
        _reset()
        fresh = T(a)
        U.check_close(Ta, fresh, 0, tag + ':after-single-precision-twin', 'after the same request with single-precision data the double-precision result differs from the one on cleared executors',
                      atol=1e-11 * scale)


# ---- mask and back ---------------------------------------------------------------------------------------
def strat_mask(tier):
    nmax = {'quick': 12, 'thorough': 28}[tier]
    ax = U.axis_len(nmax)
    return st.fixed_dictionaries({
        'shape': st.one_of(st.tuples(ax, ax).map(list), st.tuples(ax, ax).map(list), ax.map(lambda k: [k, k])),
        'mshape': st.one_of(st.tuples(ax, ax).map(list), ax.map(lambda k: [k, k])),
        'Q': st.one_of(st.sampled_from([1.0, 2.0, 0.5, 1.37]), U.nice_float(0.4, 4).map(lambda v: round(v, 3))),
        'shift': _shift(), 'phys': _phys(), 'method': st.sampled_from(['mdft', 'czt']),
        'mkind': st.sampled_from(['real', 'complex', 'binary', 'int-pm', 'uint8', 'bool']), 'via': st.sampled_from(['function', 'wavefront', 'wavefront-mask']),
        'kind': U.field_kinds, 'seed': U.seeds, 'mag': st.sampled_from([0, 0, 0, 0, -9, -12, 9, -30, 30, -100, 100]),
        'mask_space': st.sampled_from(['psf', 'pupil', 'default']), 'fftbackend': U.fft_backends,
        'shift_as': st.sampled_from(['tuple', 'tuple', 'ndarray']), 'pre': st.sampled_from(['none', 'none', 'none', 'single-precision-twin'])})     # a mask given as a Wavefront: its dx is the mask spacing whatever its `space` label


def _mask(case, salt=0):
    r = U.rng_of(case['seed'], 100 + salt)
    ms = tuple(case['mshape'])
    if case['mkind'] == 'binary':
        return (r.uniform(0, 1, ms) > 0.4).astype(float)
    if case['mkind'] == 'bool':
        return r.uniform(0, 1, ms) > 0.4
    if case['mkind'] == 'int-pm':
        return r.integers(-2, 3, ms)                 # integer-typed phase / amplitude masks: -2 ... +2
    if case['mkind'] == 'uint8':
        return r.integers(0, 2, ms).astype(np.uint8)        # 0/1 only: 1 - mask wraps for larger unsigned values (numpy semantics, the caller's choice of dtype)
    if case['mkind'] == 'real':
        return r.uniform(0, 1, ms)
    return r.uniform(0, 1, ms) * np.exp(2j * np.pi * r.uniform(0, 1, ms))


def _chain(f, m, Q, shift_samples):
    F = U.ref_dft(f, Q, m.shape, shift_samples, fwd=True)
    # return trip: input = focal array (mask shape), output = pupil shape; N_in*Q' = N_pupil*Q per axis
    Qb = (f.shape[0] * Q[0] / m.shape[0], f.shape[1] * Q[1] / m.shape[1])
    # textbook inverse with the *output* (pupil) grid unshifted and the *input* (focal) coordinates u - s:
    ny, nx = f.shape
    my, mx = m.shape
    V = U.cvec(my) - shift_samples[1]
    Uu = U.cvec(mx) - shift_samples[0]
    Ey = np.exp(2j * np.pi * np.outer(U.cvec(ny), V) / (my * Qb[0]))
    Ex = np.exp(2j * np.pi * np.outer(Uu, U.cvec(nx)) / (mx * Qb[1]))
    return (Ey @ (F * m) @ Ex) / math.sqrt(my * Qb[0] * mx * Qb[1]), F


def check_mask(case, ctx):
    """to_fpm_and_back: equals the textbook DFT chain, additive in the mask, Babinet; Wavefront.babinet == f - T_(1-m) f."""
    be = case.get('fftbackend', 'scipy')
    if be != 'scipy':
        ctx.label('fft-backend:' + be)
    with U.fft_backend(be):
        _check_mask_inner(case, ctx)


def _check_mask_inner(case, ctx):
    from prysm import propagation as P
    _reset()
    shape, method, via = case['shape'], case['method'], case['via']
    ph = case['phys']
    dx, lam, efl = ph['dx'], ph['wvl'], ph['efl']
    ny, nx = shape
    f = U.field(case['seed'], shape, case['kind']).astype(complex) * 10.0 ** case.get('mag', 0)
    ctx.label('mag:1' if case.get('mag', 0) == 0 else ('mag:tiny' if case.get('mag', 0) < 0 else 'mag:huge'))
    m1 = _mask(case, 0)
    m2 = _mask(case, 1)
    m1f, m2f = (m.astype(float) if m.dtype.kind in 'bui' else m for m in (m1, m2))     # the oracle side works in float / complex
    fpm_dx = lam * efl / (nx * dx * case['Q'])
    Q = (lam * efl / (ny * dx * fpm_dx), lam * efl / (nx * dx * fpm_dx))
    sh = (case['shift'][0] * fpm_dx, case['shift'][1] * fpm_dx)
    shifted = any(s != 0 for s in sh)
    ctx.nt(ny != nx or shifted or case['mkind'] == 'complex' or tuple(case['mshape']) != tuple(shape))
    if via == 'wavefront-mask':
        ctx.label('mask-wavefront-space:' + case.get('mask_space', 'psf'))
    ctx.label(method, 'via:' + via, 'mask:' + case['mkind'], 'shifted' if shifted else 'unshifted', 'square' if ny == nx else 'nonsquare',
              'mask-shape-eq' if tuple(case['mshape']) == tuple(shape) else 'mask-shape-differs')

    sh_tuple = sh
    if shifted and case.get('shift_as', 'tuple') == 'ndarray':
        sh = np.array(sh_tuple, dtype=np.float64)          # the caller's own array, one object for every call of the case
        ctx.label('shift-as:ndarray')

    def T(mask, field=f):
        if via == 'function':
            return np.asarray(ctx.call(P.to_fpm_and_back, field, dx, efl, lam, mask, fpm_dx, shift=sh, method=method))
        w = P.Wavefront(field, lam, dx)
        if via == 'wavefront-mask':
            msp = case.get('mask_space', 'psf')
            mask = P.Wavefront(mask, lam, fpm_dx) if msp == 'default' else P.Wavefront(mask, lam, fpm_dx, space=msp)
            wo = ctx.call(w.to_fpm_and_back, efl, mask, None, method=method, shift=sh)
        else:
            wo = ctx.call(w.to_fpm_and_back, efl, mask, fpm_dx, method=method, shift=sh)
        ctx.require(wo.dx == dx and wo.space == 'pupil', 'to_fpm_and_back:metadata', 'returned wavefront dx/space changed')
        return np.asarray(wo.data)
    scale = max(float(np.abs(f).sum()) * (dx * fpm_dx / (lam * efl)) ** 2 * m1.size * 2 * max(1.0, float(np.abs(m1f).max())), 1e-300)
    tag = 'to_fpm_and_back:' + method
    if case.get('pre', 'none') == 'single-precision-twin':
        ctx.label('pre-call:single-precision-twin')
        if case['seed'] % 2:
            with U.precision(32):
                T(m1, f.astype(np.complex64))
        else:
            T(m1, f.astype(np.complex64))
    T1 = T(m1)
    U.check_shape(T1, shape, tag)
    T2 = T(m2)
    T12 = T(m1f + m2f)
    U.check_close(T12, T1 + T2, 0, tag + ':mask-additivity', 'T_(m1+m2) != T_m1 + T_m2 (masks of dtype %s)' % m1.dtype, atol=TOL * scale)
    ones = np.ones(m1.shape)
    Tc = T(ones - m1f)
    Tall = T(ones)
    U.check_close(T1 + Tc, Tall, 0, tag + ':babinet-sum', 'T_m + T_(1-m) != T_1', atol=TOL * scale)
    # whole chain vs the textbook DFTs (either sign of the shift, taken from the data)
    s_samp = (case['shift'][0], case['shift'][1])
    errs = {}
    for sgn in ((1, -1) if shifted else (1,)):
        ref, _ = _chain(f, m1f, Q, (sgn * s_samp[0], sgn * s_samp[1]))
        errs[sgn] = float(np.abs(T1 - ref).max()) if np.all(np.isfinite(T1)) else float('inf')
    best = min(errs, key=errs.get)
    ctx.within(errs[best], TOL * scale, tag + ':chain' + (':shifted' if shifted else '') + (':nonsquare' if ny != nx else ''),
                'to_fpm_and_back %s mask %s dx_fpm=%.5g shift=%r differs from the textbook chain by %.3g (scale %.3g)' % (
                    shape, case['mshape'], fpm_dx, sh, errs[best], scale))
    # the documented longer return form: (field at the next pupil, field at the mask, field after the mask)
    if via == 'function':
        more = ctx.call(P.to_fpm_and_back, f, dx, efl, lam, m1, fpm_dx, shift=sh, method=method, return_more=True)
        parts = [np.asarray(q) for q in more] if isinstance(more, (tuple, list)) else []
    elif via == 'wavefront':
        more = ctx.call(P.Wavefront(f, lam, dx).to_fpm_and_back, efl, m1, fpm_dx, method=method, shift=sh, return_more=True)
        parts = [np.asarray(q.data) for q in more] if isinstance(more, (tuple, list)) else []
        if len(parts) == 3:
            ctx.require(more[1].dx == fpm_dx and more[2].dx == fpm_dx and more[0].dx == dx, 'to_fpm_and_back:return_more:metadata', 'spacings of the three returned wavefronts')
    else:
        parts = None
    if parts is not None:
        ctx.require(len(parts) == 3, tag + ':return_more:arity', 'return_more=True returned %d values' % len(parts))
        U.check_close(parts[0], T1, 0, tag + ':return_more:pupil', 'first value of return_more=True != the plain result', atol=TOL * scale)
        U.check_shape(parts[1], m1.shape, tag + ':return_more:at-mask')
        U.check_close(parts[2], parts[1] * m1f, 0, tag + ':return_more:after-mask', 'field after the mask != field at the mask * mask',
                      atol=TOL * max(float(np.abs(parts[1]).max()) * max(1.0, float(np.abs(m1f).max())), 1e-300))
        refF = [_chain(f, m1f, Q, (sgn * s_samp[0], sgn * s_samp[1]))[1] for sgn in ((1, -1) if shifted else (1,))]
        eF = min(float(np.abs(np.abs(parts[1]) - np.abs(rf)).max()) if shifted else float(np.abs(parts[1] - rf).max()) for rf in refF)
        fscale = max(float(np.abs(f).sum()) * dx * fpm_dx / (lam * efl), 1e-300)
        ctx.within(eF, TOL * 10 * fscale, tag + ':return_more:at-mask', 'field at the mask differs from the textbook transform by %.3g (scale %.3g)' % (eF, fscale))
    if not shifted and via != 'function':
        w = P.Wavefront(f, lam, dx)
        bab = ctx.call(w.babinet, efl, None, m1, fpm_dx, method=method)
        U.check_close(np.asarray(bab.data), f - Tc, 0, 'babinet:' + method, 'babinet(fpm=m) != f - T_(1-m) f', atol=TOL * scale)
        ref, _ = _chain(f, ones - m1f, Q, (0, 0))
        U.check_close(np.asarray(bab.data), f - ref, 0, 'babinet:' + method + ':vs-textbook', 'babinet(fpm=m) != f - textbook T_(1-m) f', atol=TOL * scale)
        # the same Wavefront object after its public data array was edited in place (phase update, scaling): the result follows the data
        wh = P.Wavefront(f.copy(), lam, dx)
        mh = np.array(m1f, copy=True)
        r1 = np.asarray(ctx.call(wh.to_fpm_and_back, efl, mh, fpm_dx, method=method, shift=sh).data).copy()
        wh.data *= -2.5
        r2 = np.asarray(ctx.call(wh.to_fpm_and_back, efl, mh, fpm_dx, method=method, shift=sh).data).copy()
        U.check_close(r2, -2.5 * T1, 0, tag + ':stale-after-inplace-edit', 'same Wavefront, data scaled in place by -2.5 between two calls: second result != -2.5 * first', atol=TOL * scale * 2.5)
        mh *= 0.5
        r3 = np.asarray(ctx.call(wh.to_fpm_and_back, efl, mh, fpm_dx, method=method, shift=sh).data)
        U.check_close(r3, -1.25 * T1, 0, tag + ':stale-after-inplace-mask-edit', 'same Wavefront and mask array, mask halved in place between two calls', atol=TOL * scale * 2.5)
        U.check_close(r1, T1, 0, tag + ':result-overwritten', 'an earlier result changed when the method was called again', atol=TOL * scale)
        lyot = U.rng_of(case['seed'], 7).uniform(0, 1, tuple(shape))
        bab2 = ctx.call(w.babinet, efl, lyot, m1, fpm_dx, method=method)
        U.check_close(np.asarray(bab2.data), lyot * (f - Tc), 0, 'babinet:lyot', 'babinet with a Lyot stop != lyot * (f - T_(1-m) f)', atol=TOL * scale)
        # the documented argument types "Wavefront or ndarray" for the mask and the Lyot stop, and the longer return form
        # (field after lyot, field at fpm, field after fpm, field at lyot)
        form = U.rng_of(case['seed'], 11).integers(0, 4)
        lyot_c = lyot * np.exp(1j * U.rng_of(case['seed'], 12).uniform(-3, 3, tuple(shape))) if form % 2 else lyot
        m_arg = P.Wavefront(m1, lam, fpm_dx, 'psf') if form in (1, 2) else m1
        l_arg = P.Wavefront(lyot_c, lam, dx) if form in (2, 3) else lyot_c
        ctx.label('babinet:mask-as-' + type(m_arg).__name__, 'babinet:lyot-as-' + type(l_arg).__name__)
        if isinstance(m_arg, P.Wavefront):
            more = ctx.call(w.babinet, efl, l_arg, m_arg, method=method, return_more=True)
        else:
            more = ctx.call(w.babinet, efl, l_arg, m_arg, fpm_dx, method=method, return_more=True)
        ctx.require(isinstance(more, (tuple, list)) and len(more) == 4, 'babinet:return_more:arity', 'babinet(return_more=True) did not return four planes')
        for q in more:
            ctx.require(isinstance(q, P.Wavefront) and isinstance(q.data, np.ndarray), 'babinet:return_more:type',
                        'babinet(return_more=True) returned %s holding %s' % (type(q).__name__, type(getattr(q, 'data', None)).__name__))
        after_lyot, at_fpm, after_fpm, at_lyot = (np.asarray(q.data) for q in more)
        U.check_close(at_lyot, f - Tc, 0, 'babinet:return_more:at-lyot', 'field at the Lyot plane != f - T_(1-m) f', atol=TOL * scale)
        U.check_close(after_lyot, lyot_c * (f - Tc), 0, 'babinet:return_more:after-lyot', 'field after the Lyot stop != lyot * (f - T_(1-m) f)', atol=TOL * scale)
        U.check_shape(at_fpm, m1.shape, 'babinet:return_more:at-fpm')
        U.check_close(after_fpm, at_fpm * (1 - m1f), 0, 'babinet:return_more:after-fpm', 'field after the mask != field at the mask * (1 - fpm)',
                      atol=TOL * max(float(np.abs(at_fpm).max()) * max(1.0, float(np.abs(1 - m1f).max())), 1e-300))
        ctx.require(more[0].dx == dx and more[3].dx == dx and more[1].dx == fpm_dx and more[2].dx == fpm_dx, 'babinet:return_more:metadata',
                    'spacings of the four returned planes: %r' % ([q.dx for q in more],))
        plain = ctx.call(w.babinet, efl, l_arg, m_arg, None if isinstance(m_arg, P.Wavefront) else fpm_dx, method=method)
        ctx.require(isinstance(plain.data, np.ndarray), 'babinet:type', 'babinet returned a Wavefront holding %s' % type(plain.data).__name__)
        U.check_close(np.asarray(plain.data), after_lyot, 0, 'babinet:return_more:first', 'first plane of return_more=True != the plain result', atol=TOL * scale)


def strat_identity(tier):
    nmax = {'quick': 14, 'thorough': 36}[tier]
    ax = U.axis_len(nmax)
    return st.fixed_dictionaries({
        'shape': st.one_of(st.tuples(ax, ax).map(list), st.tuples(ax, ax).map(list), ax.map(lambda k: [k, k])),
        'extra': st.one_of(st.just(0), st.integers(0, 6), st.integers(0, nmax)),
        'shift': _shift(), 'phys': _phys(), 'method': st.sampled_from(['mdft', 'czt']), 'via': st.sampled_from(['function', 'wavefront']),
        'kind': U.field_kinds, 'seed': U.seeds, 'fftbackend': U.fft_backends})


def check_identity(case, ctx):
    """an all-pass mask sampled over the whole band (fpm_dx * samples == lambda f / dx on both axes) returns the field, for every mask shift."""
    be = case.get('fftbackend', 'scipy')
    if be != 'scipy':
        ctx.label('fft-backend:' + be)
    with U.fft_backend(be):
        _check_identity_inner(case, ctx)


def _check_identity_inner(case, ctx):
    from prysm import propagation as P
    _reset()
    shape, method, via = case['shape'], case['method'], case['via']
    ph = case['phys']
    dx, lam, efl = ph['dx'], ph['wvl'], ph['efl']
    ny, nx = shape
    k = max(ny, nx) + case['extra']
    fpm_dx = lam * efl / (dx * k)
    f = U.field(case['seed'], shape, case['kind']).astype(complex)
    sh = (case['shift'][0] * fpm_dx, case['shift'][1] * fpm_dx)
    shifted = any(s != 0 for s in sh)
    ctx.nt(ny != nx or shifted or any((s % 2) != (k % 2) for s in shape))
    ctx.label(method, 'via:' + via, 'shifted' if shifted else 'unshifted', 'square' if ny == nx else 'nonsquare',
              'parity-mix' if any((s % 2) != (k % 2) for s in shape) else 'parity-same', 'k==n' if k == max(ny, nx) else 'k>n')
    mask = np.ones((k, k))
    if via == 'function':
        g = np.asarray(ctx.call(P.to_fpm_and_back, f, dx, efl, lam, mask, fpm_dx, shift=sh, method=method))
    else:
        g = np.asarray(ctx.call(P.Wavefront(f, lam, dx).to_fpm_and_back, efl, mask, fpm_dx, method=method, shift=sh).data)
    b = 'to_fpm_and_back:%s:allpass-identity' % method
    if shifted:
        b += ':shifted'
    U.check_close(g, f, 0, b, 'all-pass %dx%d mask over the full band, shift=%r (focal units), pupil %s: field not returned' % (k, k, sh, shape),
                  atol=TOL * max(float(np.abs(f).sum()), 1e-300))

# ---- the executors themselves, with per-axis Q ---------------------------------------------------------------------------------------
def strat_exec(tier):
    nmax = {'quick': 14, 'thorough': 36}[tier]
    ax = U.axis_len(nmax)
    q = st.one_of(st.sampled_from([1.0, 2.0, 0.5, 1.5]), U.nice_float(0.4, 4).map(lambda v: round(v, 3)))
    pad = st.one_of(st.just(0), st.integers(0, 5))
    return st.fixed_dictionaries({
        'shape': st.one_of(st.tuples(ax, ax).map(list), st.tuples(ax, ax).map(list), ax.map(lambda k: [k, k])),
        'out': st.one_of(st.tuples(ax, ax).map(list), ax.map(lambda k: [k, k])),
        'Q': st.one_of(q.map(lambda v: [v, v]), st.tuples(q, q).map(list)), 'scalarQ': st.booleans(), 'pad': st.tuples(pad, pad).map(list),
        'shift': _shift(), 'method': st.sampled_from(['mdft', 'czt']), 'fwd': st.booleans(), 'kind': U.field_kinds, 'seed': U.seeds, 'layout': U.layouts,
        'ab': st.tuples(U.nice_float(-2, 2), U.nice_float(-2, 2), U.nice_float(-2, 2), U.nice_float(-2, 2)).map(lambda t: [round(v, 3) for v in t]),
        'pre': st.sampled_from(['none', 'none', 'share-rows', 'share-cols', 'failed-calls', 'other-shift', 'interleaved-many']), 'fftbackend': U.fft_backends,
    })


def check_exec(case, ctx):
    """mdft.dft2/idft2 and czt.czt2/iczt2 called directly with per-axis (or scalar) Q: linear, embedding invariant (Q n constant per axis), transposes."""
    be = case.get('fftbackend', 'scipy')
    if be != 'scipy':
        ctx.label('fft-backend:' + be)
    with U.fft_backend(be):
        _check_exec_inner(case, ctx)


def _check_exec_inner(case, ctx):
    from prysm.fttools import mdft, czt
    _reset()
    shape, out, method, fwd = case['shape'], case['out'], case['method'], case['fwd']
    ny, nx = shape
    Q = tuple(case['Q'])
    scalarQ = case['scalarQ'] and Q[0] == Q[1]
    ex = mdft if method == 'mdft' else czt
    fn = {('mdft', True): 'dft2', ('mdft', False): 'idft2', ('czt', True): 'czt2', ('czt', False): 'iczt2'}[(method, fwd)]
    T0 = getattr(ex, fn)
    sh = tuple(case['shift'])
    shifted = any(v != 0 for v in sh)
    aniso = ny * Q[0] != nx * Q[1]
    ctx.nt(aniso or shifted or out[0] != out[1])
    ctx.label(method, fn, 'anisotropic-NQ' if aniso else 'isotropic-NQ', 'scalarQ' if scalarQ else ('peraxisQ' if Q[0] != Q[1] else 'tupleQ'),
              'square' if ny == nx else 'nonsquare', 'shifted' if shifted else 'unshifted')
    a = U.relayout(U.field(case['seed'], shape, case['kind'], 1).astype(complex), case.get('layout', 'C'))
    b = U.field(case['seed'], shape, 'complex', 2)
    al = complex(case['ab'][0], case['ab'][1])
    be = complex(case['ab'][2], case['ab'][3])

    def T(f, q=Q, o=tuple(out), s=sh):
        qq = q[0] if (scalarQ and q is Q) else q
        return np.asarray(ctx.call(T0, f, qq, o, s))
    pre = case.get('pre', 'none')
    if pre == 'failed-calls':
        for fn_ in ('dft2', 'idft2', 'czt2', 'iczt2'):
            try:
                getattr(mdft if fn_ in ('dft2', 'idft2') else czt, fn_)(np.ones((2, 3, 2), dtype=complex), Q, tuple(out), sh)
            except Exception:      # noqa - the caller of an invalid request catches whatever comes
                pass
        ctx.label('pre-call:' + pre)
    elif pre == 'other-shift':
        for os_ in ((0, 0), (-1, 0), (-2, 0), (0, -1), (0, -2)):
            if os_ != tuple(sh):
                ctx.call(T0, a, Q, tuple(out), os_)
        ctx.label('pre-call:' + pre)
    elif pre == 'interleaved-many':
        tiny = np.ones((2, 3), dtype=complex)
        for i in range(40):
            ctx.call(T0, tiny, 1 + i / 64, (3, 2))
            ctx.call(T0, a, Q, tuple(out), sh)
        ctx.label('pre-call:' + pre)
    elif pre != 'none':
        # an earlier call on the shared executor with the same (n, Q, samples, shift) on one axis and another length on the other axis
        pshape = (ny, nx + 1) if pre == 'share-rows' else (ny + 1, nx)
        ctx.call(T0, np.ones(pshape, dtype=complex), Q, tuple(out), sh)
        ctx.label('pre-call:' + pre)
    Ta = T(a)
    U.check_shape(Ta, out, fn)
    scale = max(float(np.abs(a).sum() + np.abs(b).sum()) / math.sqrt(ny * Q[0] * nx * Q[1]) * (1 + abs(al) + abs(be)), 1e-300)
    tag = '%s.%s' % (method, fn)
    U.check_close(T(al * a + be * b), al * Ta + be * T(b), 0, tag + ':linearity', 'T(alpha a + beta b) != alpha T(a) + beta T(b) %s Q=%r ->%s' % (shape, Q, out), atol=TOL * scale)
    # zero-embedding at constant n*Q per axis (same physical output samples)
    big = (ny + case['pad'][0], nx + case['pad'][1])
    Qb = (Q[0] * ny / big[0], Q[1] * nx / big[1])
    Te = T(U.embed(a, big), Qb)
    U.check_close(Te, Ta, 0, tag + ':embedding', 'output changed when %s (Q=%r) was zero-embedded in %s (Q=%r), out=%s shift=%r' % (shape, Q, list(big), Qb, out, sh), atol=TOL * scale)
    # transposition with swapped per-axis arguments.  The executors take shift as (x, y) and Q / samples as (rows, cols)
    Tt = T(np.ascontiguousarray(a.T), (Q[1], Q[0]), (out[1], out[0]), (sh[1], sh[0]))
    U.check_close(Tt.T, Ta, 0, tag + ':transposition' + (':anisotropic' if aniso else ''),
                  'T(f^T; swapped Q/out/shift) != T(f)^T for %s Q=%r ->%s shift=%r' % (shape, Q, out, sh), atol=TOL * scale)
    # and the textbook sum itself (normalised 1/sqrt(NyQy NxQx)), either sign of the shift
    errs = []
    for sgn in ((1, -1) if shifted else (1,)):
        ref = U.ref_dft(a, Q, tuple(out), (sgn * sh[0], sgn * sh[1]), fwd=fwd)
        d = (np.abs(Ta) - np.abs(ref)) if shifted else (Ta - ref)      # with a shift the executors may differ from the sum by a pure phase (see C01)
        errs.append(float(np.abs(d).max()) if np.all(np.isfinite(Ta)) else float('inf'))
    ctx.within(min(errs), TOL * scale * 10, tag + ':vs-textbook' + (':anisotropic' if aniso else ''),
                '%s %s Q=%r ->%s shift=%r differs from the textbook sum by %.3g (scale %.3g)' % (tag, shape, Q, out, sh, min(errs), scale))


CLAUSES = [
    HypClause('transform_linear_embed_transpose', strat_T, check_T, examples={'quick': 400, 'thorough': 2500}, shards={'quick': 8, 'thorough': 16}),
    HypClause('mask_and_back', strat_mask, check_mask, examples={'quick': 300, 'thorough': 2000}, shards={'quick': 8, 'thorough': 16}),
    HypClause('executors_per_axis_Q', strat_exec, check_exec, examples={'quick': 300, 'thorough': 2000}, shards={'quick': 4, 'thorough': 16}),
    HypClause('allpass_identity', strat_identity, check_identity, examples={'quick': 400, 'thorough': 2500}, shards={'quick': 4, 'thorough': 16}),
]
