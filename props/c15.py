"""C15 - image formation obeys the convolution theorem; the MTF is a valid MTF."""
import functools
import math

import numpy as np
from hypothesis import strategies as st

from vlib.core import HypClause, EnumClause
from vlib import util as U

RULE = ("conv: Hypothesis-drawn shapes (axes independent, 1..12 quick / 1..40 thorough, odd/even/prime/1, non-square ~75%), "
        "real objects and PSFs expanded from a drawn integer (random / embedded / constant / impulse; float64 and float32), "
        "drawn linear-combination weights and impulse offsets; plus complete enumeration of every impulse position of every "
        "shape up to 9x9 (14x14 thorough).  Oracle: the explicit O(N^4) circular convolution sum about the origin sample "
        "n//2 written with numpy.roll, and the algebraic laws (bilinear, commutative, identity, translation, sum(conv) = "
        "sum(o) sum(h)).  apply_transfer_functions: lists of 1-4 transfer functions mixing drawn real/complex arrays, "
        "all-ones, and callables of every signature subset of (fx, fy, fr, ft) incl. the library's smear_ft / jitter_ft via "
        "functools.partial, shift True/False, library-built / user 1-D / user 2-D frequency grids, several dx.  Oracle: "
        "ifft2(fft2(o) * T0).real with numpy.fft, where T0 is the product of the transfer functions evaluated by the harness "
        "on numpy.fft.fftfreq grids in the convention under test (centre-origin arrays are ifftshift-ed to T0); list == "
        "product; all-ones == identity.  MTF/OTF/PTF: non-negative PSFs (random, sparse, gaussian, Airy, off-centre impulse), "
        "array and RichData input, oracle = explicit two-matrix DFT about n//2 (no FFT) normalised by sum(psf), DC = 1, "
        "max <= 1, MTF[c+k] = MTF[c-k], OTF[c+k] = conj OTF[c-k], OTF = MTF exp(i PTF).  Non-trivial = an odd or unequal "
        "axis is present (where a dropped / wrong-direction fftshift first shows), or a non-zero impulse offset, or a "
        "callable / complex transfer function.")
ASSUMPTIONS = ["numpy.fft (pocketfft) and numpy.roll are correct", "objects, PSFs and transfer-function arrays have the same 2-D shape",
               "user-supplied frequency grids are given for both fx and fy, in the convention selected by `shift`",
               "sum(psf) > 0 for the MTF clauses (entries >= 0, at least one >= 0.05)"]

NMAX = {'quick': 12, 'thorough': 40}


_CLASSES = [('e', 'e'), ('o', 'o'), ('e', 'o'), ('o', 'e'), ('o', 'o'), ('e', 'o'), ('o', 'e'), ('e', 'e'), ('o', 'o'),
            ('1', 'e'), ('1', 'o'), ('e', '1'), ('o', '1'), ('1', '1'), ('2', 'o'), ('o', '2')]


def _axis(cls, N):
    if cls == 'e':
        return st.integers(1, N // 2).map(lambda k: 2 * k)
    if cls == 'o':
        return st.integers(1, (N - 1) // 2).map(lambda k: 2 * k + 1)
    return st.just(int(cls))


def _shape(tier):
    """both axes drawn independently inside an explicitly drawn parity class (forces odd/even/1 mixing and non-square shapes)"""
    N = NMAX[tier]
    return st.sampled_from(_CLASSES).flatmap(lambda c: st.tuples(_axis(c[0], N), _axis(c[1], N)).map(list))


def _real(seed, shape, kind, salt):
    f = U.field(seed, shape, {'random': 'real', 'embedded': 'embedded', 'const': 'const', 'impulse': 'impulse'}[kind], salt)
    return np.ascontiguousarray(np.real(f)).astype(np.float64)


def direct_conv(o, h):
    """sum_j h[j] * o shifted by (j - c): circular convolution with the PSF origin at sample n//2 (harness reference)"""
    cy, cx = o.shape[0] // 2, o.shape[1] // 2
    out = np.zeros(o.shape, dtype=np.float64)
    ys, xs = np.nonzero(h)
    for y, x in zip(ys.tolist(), xs.tolist()):
        out += h[y, x] * np.roll(o, (y - cy, x - cx), axis=(0, 1))
    return out


def _parity(shape):
    return ','.join('eo'[n % 2] if n > 1 else '1' for n in shape)


# ---- conv ----------------------------------------------------------------------------------------
WEIGHTS = [1.0, -1.0, 0.5, 2.0, -0.25, 3.0, 0.0, 1e-3, -7.5]


def strat_conv(tier):
    return _shape(tier).flatmap(lambda s: st.fixed_dictionaries({
        'shape': st.just(s), 'seed': U.seeds, 'a': st.sampled_from(WEIGHTS), 'b': st.sampled_from(WEIGHTS),
        'k': st.tuples(st.integers(-s[0], s[0]), st.integers(-s[1], s[1])).map(list),
        'okind': st.sampled_from(['random', 'random', 'embedded', 'const', 'impulse']),
        'hkind': st.sampled_from(['random', 'random', 'embedded', 'impulse']),
        'dtype': st.sampled_from(['float64', 'float64', 'float64', 'float32'])}))


def check_conv(case, ctx):
    """conv == explicit circular convolution about n//2; bilinear, commutative, impulse identity / translation, energy product."""
    from prysm.convolution import conv
    shape, seed, a, b, k = tuple(case['shape']), case['seed'], case['a'], case['b'], case['k']
    dt = np.dtype(case['dtype'])
    o1 = _real(seed, shape, case['okind'], 1).astype(dt)
    o2 = _real(seed, shape, 'random', 2).astype(dt)
    h1 = _real(seed, shape, case['hkind'], 3).astype(dt)
    h2 = _real(seed, shape, 'random', 4).astype(dt)
    rt = 1e-10 if dt == np.float64 else 2e-4
    ny, nx = shape
    ctx.nt(ny % 2 == 1 or nx % 2 == 1 or ny != nx or (k[0] % ny, k[1] % nx) != (0, 0))
    ctx.label('parity:' + _parity(shape), 'square' if ny == nx else 'nonsquare', 'dtype:' + case['dtype'], 'o:' + case['okind'], 'h:' + case['hkind'])
    o64, o264, h64, h264 = (x.astype(np.float64) for x in (o1, o2, h1, h2))
    scale = float(np.sum(np.abs(h64)) * np.max(np.abs(o64))) + 1e-300
    desc = 'shape %s seed %d' % (list(shape), seed)
    pb = 'conv:%s' % _parity(shape)

    def cv(x, y):
        r = np.asarray(ctx.call(conv, x, y))
        U.check_shape(r, shape, 'conv', 'conv output')
        ctx.require(r.dtype.kind == 'f', 'conv:dtype', 'conv of real arrays returned dtype %s' % r.dtype)
        return r.astype(np.float64)
    c11 = cv(o1, h1)
    U.check_close(c11, direct_conv(o64, h64), rt, pb + ':direct', '%s: conv vs explicit circular sum about n//2' % desc, atol=rt * scale)
    U.check_close(cv(h1, o1), c11, rt, pb + ':commutative', '%s: conv(h,o) vs conv(o,h)' % desc, atol=rt * scale)
    # linearity in each argument (the combination itself is formed in float64 and cast, so that both sides see the same input)
    mix_o = (a * o64 + b * o264).astype(dt)
    s2 = float(np.sum(np.abs(h64)) * (abs(a) * np.max(np.abs(o64)) + abs(b) * np.max(np.abs(o264)))) + 1e-300
    U.check_close(cv(mix_o, h1), a * c11 + b * cv(o2, h1), rt, pb + ':linear-object', '%s: conv(%r o1 + %r o2, h)' % (desc, a, b), atol=rt * s2 * 4)
    mix_h = (a * h64 + b * h264).astype(dt)
    s3 = float(np.max(np.abs(o64)) * (abs(a) * np.sum(np.abs(h64)) + abs(b) * np.sum(np.abs(h264)))) + 1e-300
    U.check_close(cv(o1, mix_h), a * c11 + b * cv(o1, h2), rt, pb + ':linear-psf', '%s: conv(o, %r h1 + %r h2)' % (desc, a, b), atol=rt * s3 * 4)
    # impulse at the origin / displaced
    d0 = np.zeros(shape, dt)
    d0[ny // 2, nx // 2] = 1
    U.check_close(cv(o1, d0), o64, rt, pb + ':identity', '%s: conv(o, delta at n//2) vs o' % desc, atol=rt * np.max(np.abs(o64)))
    dk = np.zeros(shape, dt)
    dk[(ny // 2 + k[0]) % ny, (nx // 2 + k[1]) % nx] = 1
    U.check_close(cv(o1, dk), np.roll(o64, (k[0], k[1]), axis=(0, 1)), rt, pb + ':translation',
                  '%s: conv(o, delta at n//2 + %r) vs roll(o, %r)' % (desc, k, k), atol=rt * np.max(np.abs(o64)))
    # energy
    e = float(np.sum(c11))
    want = float(np.sum(o64) * np.sum(h64))
    es = float(np.sum(np.abs(o64)) * np.sum(np.abs(h64))) + 1e-300
    ctx.require(abs(e - want) <= rt * es, pb + ':energy', '%s: sum(conv)=%.17g, sum(o) sum(h)=%.17g' % (desc, e, want))


def enum_impulse(tier):
    N = {'quick': 9, 'thorough': 14}[tier]
    for ny in range(1, N + 1):
        for nx in range(1, N + 1):
            yield {'shape': [ny, nx], 'seed': 1000 * ny + nx}


def check_impulse(case, ctx):
    """every impulse position p of the shape: conv(o, delta_p) == conv(delta_p, o) == roll(o, p - n//2)."""
    from prysm.convolution import conv
    ny, nx = case['shape']
    o = _real(case['seed'], (ny, nx), 'random', 1)
    ctx.nt(ny % 2 == 1 or nx % 2 == 1 or ny != nx)
    ctx.label('parity:' + _parity((ny, nx)))
    ctx.tally('impulse_positions', ny * nx)
    pb = 'conv:%s' % _parity((ny, nx))
    for y in range(ny):
        for x in range(nx):
            d = np.zeros((ny, nx))
            d[y, x] = 1
            want = np.roll(o, (y - ny // 2, x - nx // 2), axis=(0, 1))
            U.check_close(ctx.call(conv, o, d), want, 1e-12, pb + ':translation', 'shape %s impulse at %s (psf side)' % ([ny, nx], [y, x]), atol=1e-13)
            U.check_close(ctx.call(conv, d, o), want, 1e-12, pb + ':translation', 'shape %s impulse at %s (object side)' % ([ny, nx], [y, x]), atol=1e-13)


# ---- apply_transfer_functions ----------------------------------------------------------------------
def _tf_spec():
    pos = U.nice_float(0.05, 3.0)
    return st.one_of(
        st.fixed_dictionaries({'kind': st.just('array_real'), 'salt': st.integers(0, 50)}),
        st.fixed_dictionaries({'kind': st.just('array_complex'), 'salt': st.integers(0, 50)}),
        st.fixed_dictionaries({'kind': st.just('ones')}),
        st.fixed_dictionaries({'kind': st.just('ones_callable')}),
        st.fixed_dictionaries({'kind': st.just('gauss_fr'), 's': pos}),
        st.fixed_dictionaries({'kind': st.just('sinc_fxfy'), 'w': pos, 'h': pos}),
        st.fixed_dictionaries({'kind': st.just('smear'), 'w': st.one_of(st.just(0.0), pos), 'h': pos}),
        st.fixed_dictionaries({'kind': st.just('jitter'), 's': pos}),
        st.fixed_dictionaries({'kind': st.just('ft_cos'), 'm': st.integers(1, 4), 'amp': U.nice_float(-0.9, 0.9)}),
        st.fixed_dictionaries({'kind': st.just('ramp'), 'sx': U.nice_float(-3.0, 3.0), 'sy': U.nice_float(-3.0, 3.0)}),
        st.fixed_dictionaries({'kind': st.just('fx_only'), 's': pos}),
        st.fixed_dictionaries({'kind': st.just('fy_only'), 's': pos}),
        st.fixed_dictionaries({'kind': st.just('all4'), 's': pos}),
    )


CALLABLE_KINDS = {'ones_callable', 'gauss_fr', 'sinc_fxfy', 'smear', 'jitter', 'ft_cos', 'ramp', 'fx_only', 'fy_only', 'all4'}


def _tf_value(spec, fx, fy, fr, ft):
    """the transfer function on the given frequency arrays (harness' own formulas; any broadcastable shapes)"""
    k = spec['kind']
    if k == 'ones_callable':
        return np.ones(np.broadcast_shapes(np.shape(fx), np.shape(fy)))
    if k == 'gauss_fr':
        return np.exp(-(spec['s'] * fr) ** 2)
    if k == 'sinc_fxfy':
        return np.sinc(fx * spec['w']) * np.sinc(fy * spec['h'])
    if k == 'smear':
        return (np.sinc(fx * spec['w']) if spec['w'] != 0 else 1.0) * np.sinc(fy * spec['h'])
    if k == 'jitter':
        return np.exp(-2 * (np.pi * spec['s'] * fr) ** 2)
    if k == 'ft_cos':
        return 1 + spec['amp'] * np.cos(spec['m'] * ft)
    if k == 'ramp':
        return np.exp(-2j * np.pi * (fx * spec['sx'] + fy * spec['sy']))
    if k == 'fx_only':
        return 1 / (1 + (spec['s'] * fx) ** 2) + 0 * fy
    if k == 'fy_only':
        return np.cos(spec['s'] * fy) + 0 * fx
    if k == 'all4':
        return np.exp(-(spec['s'] * fr) ** 2) * (1 + 0.5 * np.sin(ft)) + 0.25j * np.tanh(fx) * np.cos(fy)
    raise ValueError(k)


def _tf_callable(spec):
    """what is handed to prysm: a function whose *signature* selects the frequency arrays it receives"""
    from prysm import degredations
    k = spec['kind']
    if k == 'smear':
        return functools.partial(degredations.smear_ft, width=spec['w'], height=spec['h'])
    if k == 'jitter':
        return functools.partial(degredations.jitter_ft, scale=spec['s'])
    if k == 'ones_callable':
        return lambda fr: np.ones(np.shape(fr))
    if k == 'gauss_fr':
        return lambda fr: _tf_value(spec, None, None, fr, None)
    if k == 'sinc_fxfy' or k == 'ramp':
        return lambda fx, fy: _tf_value(spec, fx, fy, None, None)
    if k == 'ft_cos':
        return lambda ft: _tf_value(spec, None, None, None, ft)
    if k == 'fx_only':
        return lambda fx: _tf_value(spec, fx, 0.0, None, None)
    if k == 'fy_only':
        return lambda fy: _tf_value(spec, 0.0, fy, None, None)
    if k == 'all4':
        return lambda fx, fy, fr, ft: _tf_value(spec, fx, fy, fr, ft)
    raise ValueError(k)


def strat_tf(tier):
    return st.fixed_dictionaries({
        'shape': _shape(tier), 'seed': U.seeds, 'shift': st.booleans(), 'tfs': st.lists(_tf_spec(), min_size=1, max_size=4),
        'grids': st.sampled_from(['library', 'library', 'user1d', 'user2d']), 'dx': st.sampled_from([1.0, 0.5, 0.1, 2.5]),
        'okind': st.sampled_from(['random', 'random', 'embedded', 'impulse'])})


def check_tf(case, ctx):
    """apply_transfer_functions == ifft2(fft2(o) * prod(tfs on the convention's grid)); list == product; all-ones == identity."""
    from prysm.convolution import apply_transfer_functions as atf
    shape, seed, shift, specs, grids, dx = tuple(case['shape']), case['seed'], case['shift'], case['tfs'], case['grids'], case['dx']
    ny, nx = shape
    o = _real(seed, shape, case['okind'], 1)
    # frequency grids of the convention under test, from numpy only
    fy1, fx1 = np.fft.fftfreq(ny, dx), np.fft.fftfreq(nx, dx)
    if shift:
        fy1, fx1 = np.fft.fftshift(fy1), np.fft.fftshift(fx1)
    FX, FY = np.meshgrid(fx1, fy1)
    FR, FT = np.hypot(FX, FY), np.arctan2(FY, FX)
    has_callable = any(s['kind'] in CALLABLE_KINDS for s in specs)
    has_complex = any(s['kind'] in ('array_complex', 'ramp', 'all4') for s in specs)
    if not has_callable:
        grids = 'library'   # frequency grids are irrelevant for arrays
    vals, tfs = [], []
    for i, s in enumerate(specs):
        if s['kind'] == 'array_real':
            v = U.rng_of(seed, 100 + s['salt']).uniform(-1, 1, shape)
        elif s['kind'] == 'array_complex':
            r = U.rng_of(seed, 200 + s['salt'])
            v = r.uniform(-1, 1, shape) + 1j * r.uniform(-1, 1, shape)
        elif s['kind'] == 'ones':
            v = np.ones(shape)
        else:
            v = np.broadcast_to(_tf_value(s, FX, FY, FR, FT), shape)
            tfs.append(_tf_callable(s))
            vals.append(v)
            continue
        vals.append(v)
        tfs.append(v.copy())
    T = functools.reduce(lambda p, q: p * q, vals)
    T0 = np.fft.ifftshift(T) if shift else T
    want = np.fft.ifft2(np.fft.fft2(o) * T0).real
    kw = {'shift': shift}
    if grids == 'user1d':
        kw.update(fx=fx1.copy(), fy=fy1.copy())
    elif grids == 'user2d':
        kw.update(fx=FX.copy(), fy=FY.copy())
    dx_arg = dx if grids == 'library' else None
    conv_name = 'shifted' if shift else 'unshifted'
    ctx.nt(has_callable or has_complex or ny % 2 == 1 or nx % 2 == 1 or ny != nx)
    ctx.label('conv:' + conv_name, 'grids:' + grids, 'ntf=%d' % len(specs), 'callable' if has_callable else 'arrays-only',
              'complex' if has_complex else 'real-tf', 'parity:' + _parity(shape), *sorted(set('tf:' + s['kind'] for s in specs)))
    scale = float(np.max(np.abs(o)) * np.max(np.abs(T0))) + 1e-300
    desc = 'shape %s shift=%s grids=%s dx=%r tfs=%r' % (list(shape), shift, grids, dx, specs)
    bucket = 'apply_tf:%s:%s' % (conv_name, 'user2d-grids' if grids == 'user2d' else ('callable' if has_callable else 'array'))
    got = np.asarray(ctx.call(atf, o.copy(), dx_arg, tfs, **kw))
    U.check_shape(got, shape, bucket, desc)
    ctx.require(got.dtype.kind == 'f', bucket + ':dtype', 'returned dtype %s' % got.dtype)
    U.check_close(got, want, 1e-10, bucket + ':oracle', '%s: vs ifft2(fft2(o) * prod T)' % desc, atol=1e-11 * scale)
    # list == product (metamorphic, same convention)
    if len(specs) > 1:
        one = np.asarray(ctx.call(atf, o.copy(), dx_arg, [T.copy()], shift=shift))
        U.check_close(got, one, 1e-10, 'apply_tf:%s:list-vs-product' % conv_name, '%s: list of %d vs their product' % (desc, len(specs)), atol=1e-11 * scale)
    # all-ones transfer function is the identity, as an array and as a callable
    ident = np.asarray(ctx.call(atf, o.copy(), dx_arg, [np.ones(shape)], shift=shift))
    U.check_close(ident, o, 1e-12, 'apply_tf:%s:ones-identity' % conv_name, 'shape %s shift=%s: all-ones array' % (list(shape), shift), atol=1e-13)
    ident = np.asarray(ctx.call(atf, o.copy(), dx, [lambda fx, fy: np.ones(np.broadcast_shapes(np.shape(fx), np.shape(fy)))], shift=shift))
    U.check_close(ident, o, 1e-12, 'apply_tf:%s:ones-identity' % conv_name, 'shape %s shift=%s: all-ones callable' % (list(shape), shift), atol=1e-13)


# ---- MTF / PTF / OTF ---------------------------------------------------------------------------------
def _psf(case):
    shape, seed, kind = tuple(case['shape']), case['seed'], case['kind']
    ny, nx = shape
    r = U.rng_of(seed, 7)
    yy = (np.arange(ny) - ny // 2)[:, None] * 1.0
    xx = (np.arange(nx) - nx // 2)[None, :] * 1.0
    oy, ox = case['off']
    oy, ox = (oy % ny) - ny // 2 if ny > 1 else 0, (ox % nx) - nx // 2 if nx > 1 else 0
    if kind == 'random':
        p = r.uniform(0, 1, shape)
        p[ny // 2, nx // 2] += 0.05
    elif kind == 'sparse':
        p = r.uniform(0, 1, shape) * (r.uniform(0, 1, shape) < 0.3)
        p[(ny // 2 + oy) % ny, (nx // 2 + ox) % nx] += 0.5
    elif kind == 'gauss':
        s = 0.4 + 3 * r.uniform()
        p = np.exp(-((yy - oy * 0.5) ** 2 + (xx - ox * 0.5) ** 2) / (2 * s * s))
    elif kind == 'airy':
        rad = 0.15 + 0.3 * r.uniform()
        ap = (np.hypot(yy / max(ny, 2), xx / max(nx, 2)) <= rad).astype(float)
        ap[ny // 2, nx // 2] = 1
        ph = np.exp(2j * np.pi * r.uniform(0, 0.3) * ((yy / max(ny, 2)) ** 2 * 4 + xx / max(nx, 2)))
        p = np.abs(np.fft.fftshift(np.fft.fft2(np.fft.ifftshift(ap * ph)))) ** 2
    elif kind == 'impulse':
        p = np.zeros(shape)
        p[(ny // 2 + oy) % ny, (nx // 2 + ox) % nx] = 0.5 + r.uniform()
    else:
        raise ValueError(kind)
    return np.ascontiguousarray(p, dtype=np.float64), (oy, ox)


def strat_mtf(tier):
    return _shape(tier).flatmap(lambda s: st.fixed_dictionaries({
        'shape': st.just(s), 'seed': U.seeds, 'kind': st.sampled_from(['random', 'sparse', 'gauss', 'airy', 'impulse']),
        'off': st.tuples(st.integers(0, s[0] - 1), st.integers(0, s[1] - 1)).map(list),
        'dx': st.sampled_from([1.0, 0.5, 4.4, 0.03]), 'via': st.sampled_from(['array', 'array', 'richdata'])}))


def _partners(n):
    """indices i of an axis whose mirror 2c - i exists, and the mirrors"""
    i = np.arange(n)
    j = 2 * (n // 2) - i
    ok = (j >= 0) & (j < n)
    return i[ok], j[ok]


def check_mtf(case, ctx):
    """MTF(0)=1, MTF<=1, MTF and OTF point-symmetric / Hermitian about n//2, OTF == MTF exp(i PTF) == explicit DFT / sum(psf)."""
    from prysm import otf
    from prysm._richdata import RichData
    shape, dx = tuple(case['shape']), case['dx']
    ny, nx = shape
    p, off = _psf(case)
    assert p.min() >= 0 and p.sum() > 0.04
    cy, cx = ny // 2, nx // 2
    ctx.nt(ny % 2 == 1 or nx % 2 == 1 or ny != nx or off != (0, 0))
    ctx.label('parity:' + _parity(shape), 'psf:' + case['kind'], 'via:' + case['via'], 'square' if ny == nx else 'nonsquare')
    arg = (RichData(p.copy(), dx, None),) if case['via'] == 'richdata' else (p.copy(), dx)
    m = ctx.call(otf.mtf_from_psf, *arg)
    ph = ctx.call(otf.ptf_from_psf, *arg)
    ot = ctx.call(otf.otf_from_psf, *arg)
    M, PH, OT = np.asarray(m.data), np.asarray(ph.data), np.asarray(ot.data)
    desc = 'psf %s shape %s seed %d off %r' % (case['kind'], list(shape), case['seed'], list(off))
    for name, a in (('mtf', M), ('ptf', PH), ('otf', OT)):
        U.check_shape(a, shape, name + '_from_psf', desc)
    ctx.require(M.dtype.kind == 'f' and PH.dtype.kind == 'f' and OT.dtype.kind == 'c', 'otf:dtype', 'dtypes %s %s %s' % (M.dtype, PH.dtype, OT.dtype))
    # independent reference: explicit DFT about n//2, normalised by the DC value = sum(psf)
    F = U.ref_dft(p, 1, shape) * math.sqrt(ny * nx)
    ctx_sum = float(p.sum())
    assert abs(F[cy, cx] - ctx_sum) <= 1e-9 * ctx_sum
    ref = F / ctx_sum
    U.check_close(OT, ref, 1e-11, 'otf_from_psf:oracle', '%s: OTF vs explicit DFT/sum' % desc, atol=1e-12)
    U.check_close(M, np.abs(ref), 1e-11, 'mtf_from_psf:oracle', '%s: MTF vs |explicit DFT|/sum' % desc, atol=1e-12)
    ctx.require(abs(M[cy, cx] - 1) <= 1e-13, 'mtf_from_psf:dc', '%s: MTF at zero frequency [%d,%d] = %.17g' % (desc, cy, cx, M[cy, cx]))
    ctx.require(abs(OT[cy, cx] - 1) <= 1e-13 and abs(PH[cy, cx]) <= 1e-13, 'otf_from_psf:dc', '%s: OTF(0)=%r PTF(0)=%r' % (desc, OT[cy, cx], PH[cy, cx]))
    ctx.require(float(M.max()) <= 1 + 1e-12 and float(M.min()) >= 0, 'mtf_from_psf:range', '%s: MTF range [%.17g, %.17g]' % (desc, M.min(), M.max()))
    iy, jy = _partners(ny)
    ix, jx = _partners(nx)
    ctx.tally('mirror_pairs_checked', len(iy) * len(ix))
    U.check_close(M[np.ix_(iy, ix)], M[np.ix_(jy, jx)], 1e-12, 'mtf_from_psf:point-symmetry', '%s: MTF[c+k] vs MTF[c-k]' % desc, atol=1e-13)
    U.check_close(OT[np.ix_(iy, ix)], np.conj(OT[np.ix_(jy, jx)]), 1e-12, 'otf_from_psf:hermitian', '%s: OTF[c+k] vs conj OTF[c-k]' % desc, atol=1e-13)
    U.check_close(M * np.exp(1j * PH), OT, 1e-12, 'otf:consistency', '%s: MTF exp(i PTF) vs OTF' % desc, atol=1e-13)
    ctx.require(float(np.max(np.abs(PH))) <= math.pi + 1e-12, 'ptf_from_psf:range', '%s: |PTF| max %.17g' % (desc, np.max(np.abs(PH))))
    ctx.require(m.dx == ph.dx == ot.dx, 'otf:dx', '%s: frequency spacing differs: %r %r %r' % (desc, m.dx, ph.dx, ot.dx))
    if ny == nx:
        ctx.require(abs(m.dx - 1000 / (ny * dx)) <= 1e-12 * 1000 / (ny * dx), 'otf:dx', '%s: df=%r, expected 1000/(n dx)=%r' % (desc, m.dx, 1000 / (ny * dx)))


CLAUSES = [
    HypClause('conv_laws', strat_conv, check_conv, examples={'quick': 500, 'thorough': 1500}, shards={'quick': 3, 'thorough': 12}),
    EnumClause('conv_impulse_positions', enum_impulse, check_impulse, shards={'quick': 4, 'thorough': 12}),
    HypClause('transfer_functions', strat_tf, check_tf, examples={'quick': 500, 'thorough': 2500}, shards={'quick': 3, 'thorough': 12}),
    HypClause('mtf_otf_ptf', strat_mtf, check_mtf, examples={'quick': 600, 'thorough': 2500}, shards={'quick': 2, 'thorough': 8}),
]
