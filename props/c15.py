"""C15 - image formation obeys the convolution theorem; the MTF is a valid MTF."""
import functools
import math

import numpy as np
from hypothesis import strategies as st

from vlib.core import HypClause, EnumClause
from vlib import util as U

RULE = ("conv: Hypothesis-drawn shapes (axes independent, 1..12 quick / 1..40 thorough, odd/even/prime/1, non-square ~75%), "
        "real objects and PSFs expanded from a drawn integer (random / embedded / constant / impulse; float64 and float32), "
        "drawn linear-combination weights and impulse offsets; plus complete enumeration of every impulse position of every "
        "shape up to 9x9 (14x14 thorough).  Oracle: the explicit O(N^4) circular convolution sum about the origin sample "
        "n//2 written with numpy.roll, and the algebraic laws (bilinear, commutative, identity, translation, sum(conv) = "
        "sum(o) sum(h)).  apply_transfer_functions: lists of 1-4 transfer functions mixing drawn real/complex arrays, "
        "all-ones, and callables of every signature subset of (fx, fy, fr, ft) incl. the library's smear_ft / jitter_ft via "
        "functools.partial, shift True/False, library-built / user 1-D / user 2-D frequency grids, several dx.  Oracle: "
        "ifft2(fft2(o) * T0).real with numpy.fft, where T0 is the product of the transfer functions evaluated by the harness "
        "on numpy.fft.fftfreq grids in the convention under test (centre-origin arrays are ifftshift-ed to T0); list == "
        "product; all-ones == identity.  MTF/OTF/PTF: non-negative PSFs (random, sparse, gaussian, Airy, off-centre impulse), "
        "array and RichData input, oracle = explicit two-matrix DFT about n//2 (no FFT) normalised by sum(psf), DC = 1, "
        "max <= 1, MTF[c+k] = MTF[c-k], OTF[c+k] = conj OTF[c-k], OTF = MTF exp(i PTF).  Non-trivial = an odd or unequal "
        "axis is present (where a dropped / wrong-direction fftshift first shows), or a non-zero impulse offset, or a "
        "callable / complex transfer function.  Hardening dimensions drawn for every clause: dtype of each array handed over "
        "(float64 / float32 / int64 / int32 / uint16 / uint8 / bool objects, PSFs and transfer-function arrays, mixed), memory layout "
        "(C, Fortran, transposed view, strided view), amplitude scale (1e-300 .. 1e300 in float64, 1e-30 .. 1e30 in float32, pairs "
        "whose product stays representable; PSF energies far below machine epsilon), impulse weights other than 1, the transfer "
        "functions as list / tuple / 3-D ndarray, a prior call with other shape / dtype / shift / dx in the same process, every "
        "argument compared with a copy taken before the call (bucket ...:argument-modified), the same call repeated (must return "
        "the same image), kept results re-checked after later calls with other inputs and after editing a result in place "
        "(...:result-overwritten / ...:aliased-state), positional and keyword forms.  Callable transfer functions are real Python "
        "callables generated from a drawn declaration: the frequency grids they name (every ordered subset of fx, fy, fr, ft - "
        "(ft, fr), (fy, fx), (fr, fx, ft), ... - incl. one declared but unused grid), the order in which they declare them (any "
        "permutation, not only the library's fx, fy, fr, ft), and the style of the declaration (positional-or-keyword, keyword-only, "
        "first positional + rest keyword-only, defaults, functools.partial currying a parameter declared before / after the grids by "
        "keyword or by position, bound method, object with __call__, an unrelated defaulted parameter between the grids); each "
        "grid used contributes a distinct non-symmetric factor, so a grid bound to another parameter's slot changes the image at "
        "O(1); the oracle evaluates the same formula by name on the harness' own grids.  "
        "Round-6 hardening: (same object twice) conv(a, a) with one array object - and with a second view of the same memory - for both "
        "arguments, for the drawn object and the drawn PSF (every dtype / layout / kind, amplitude 1e-140 .. 1e140), against the explicit "
        "circular sum of the array with itself and against conv(a, a.copy()); every impulse of the enumeration convolved with itself lands at "
        "twice its offset with weight w^2; the object handed to apply_transfer_functions also as its transfer function ([obj], [obj, obj] vs "
        "[obj.copy()]); an array listed twice in tfs is the same array object or an equal copy (drawn).  (History on one container / array) "
        "after the first round of MTF / PTF / OTF calls the PSF changes - the RichData's public .data is replaced by another drawn PSF of the "
        "same shape, the array is assigned / multiplied by a non-constant pattern in place, .dx is changed, a copy() of the used container "
        "receives the new PSF - and a second round in a drawn order of the three routines is held to the same explicit-DFT oracle and laws for "
        "the *current* data (buckets ...:after-data-reassigned / -edited-in-place / -dx-changed); the array forms get the same treatment with the "
        "same array object.  (After a caught exception) conv with non-broadcastable shapes / 1-D / None, apply_transfer_functions with a callable "
        "but no dx, a transfer function of another shape, a callable that raises, the OTF routines without dx and on a container whose dx is "
        "None (then assigned) are issued inside try/except before the checked calls; nothing is asserted about them.  "
        "Round-8 hardening, clause transfer_functions: (entries of every accepted kind, in every position) constants as Python float / int / "
        "complex / bool, numpy float64 / float32 / int64 / complex scalars, 0-d arrays (values 0, 1, 0.5, 2, -1.25, 1e-17, 1e12, 3-2i, i, ...), callables that "
        "return such a constant whatever grids they declare, arrays that only broadcast against the spectrum ((1, N) row, (M, 1) column, 1-D of length N, "
        "(1, 1); real / complex; every layout), mixed with full arrays and callables in lists of 1-4, shift True and False; the oracle multiplies the "
        "broadcast values in the Fourier domain itself; additionally [c] alone == c * object under both conventions, the list reversed / rotated == the "
        "list, list == product.  (Callables that are sensitive to the exact values of the grids they are handed) DC block / DC gain fr == 0, the "
        "boolean mask fr != 0, sign(fr), 1 / (1 + 1e16 fr), a guarded 1/f roll-off, hard-edged low-pass fr <= edge and band-pass 0 < fr <= edge with the "
        "edge exactly at an on-axis value of the grid (only where 1 / (n dx) is exactly representable or the grids are the caller's) or a relative 1e-9 "
        "above it, ft == 0, |ft| <= pi/2, fx == 0, fy == 0, (fx == 0) & (fy == 0), -i sign(fx); the oracle evaluates the same formula on the harness' "
        "own grids (numpy.fft.fftfreq(n, dx), fftshift-ed for shift=True, hypot / arctan2) and multiplies in the Fourier domain itself.  Also drawn: "
        "shift= as True / numpy.True_ / 1 (and the falsy ones), dx as float / int / numpy scalar / 0-d array, every argument by keyword, numpy.fft "
        "behind the backend shim (all clauses), a prior call with constants and a grid-sensitive callable under the other convention, an array of the "
        "list and the object edited in place before a further call (...:after-arguments-edited-in-place), and (clause transfer_functions_large) "
        "objects of more than 2**16 samples with large prime axis lengths (1x65537, 2x32771, 257x257, 65539x1, ...).")
ASSUMPTIONS = ["numpy.fft (pocketfft) and numpy.roll are correct", "objects, PSFs and transfer-function arrays have the same 2-D shape",
               "user-supplied frequency grids are given for both fx and fy, in the convention selected by `shift`",
               "sum(psf) > 0 for the MTF clauses (entries >= 0, at least one >= 0.05 of the peak before scaling)",
               "integer and boolean arrays are valid real objects / PSFs / transfer functions (the unchanged code promotes them to float64)",
               "a constant (Python / numpy scalar, 0-d array) or an array that broadcasts against the (M, N) spectrum is a valid transfer function and means its "
               "broadcast value (observed on the unchanged code, which multiplies the spectrum by each entry)",
               "the radial / azimuthal grids handed to callables are hypot(fx, fy) / arctan2(fy, fx) of the fftfreq grids: exactly 0 at the zero-frequency sample, "
               "exact on the axes; comparisons at other samples are only made with a relative margin of 1e-9",
               "scaling a sound input by a power of ten inside the floating-point range keeps it sound (observed on the unchanged code: "
               "conv and the OTF routines are accurate to round-off for amplitudes 1e-300 .. 1e300)"]

NMAX = {'quick': 12, 'thorough': 40}


_CLASSES = [('e', 'e'), ('o', 'o'), ('e', 'o'), ('o', 'e'), ('o', 'o'), ('e', 'o'), ('o', 'e'), ('e', 'e'), ('o', 'o'),
            ('1', 'e'), ('1', 'o'), ('e', '1'), ('o', '1'), ('1', '1'), ('2', 'o'), ('o', '2')]


def _axis(cls, N):
    if cls == 'e':
        return st.integers(1, N // 2).map(lambda k: 2 * k)
    if cls == 'o':
        return st.integers(1, (N - 1) // 2).map(lambda k: 2 * k + 1)
    return st.just(int(cls))


ROUGH = [13, 17, 19, 23, 26, 29, 31, 34, 37]      # axis lengths that are not 11-smooth (no 'fast' FFT length)


def _shape(tier):
    """both axes drawn independently inside an explicitly drawn parity class (forces odd/even/1 mixing and non-square shapes);
    one draw in six replaces an axis by a length with a large prime factor"""
    N = NMAX[tier]
    base = st.sampled_from(_CLASSES).flatmap(lambda c: st.tuples(_axis(c[0], N), _axis(c[1], N)).map(list))
    rough = st.tuples(base, st.sampled_from(ROUGH), st.integers(0, 2)).map(
        lambda t: [t[1], t[0][1]] if t[2] == 0 else [t[0][0], t[1]] if t[2] == 1 else [t[1], t[1]])
    return st.one_of(base, base, base, base, base, rough)


def _real(seed, shape, kind, salt):
    f = U.field(seed, shape, {'random': 'real', 'embedded': 'embedded', 'const': 'const', 'impulse': 'impulse'}[kind], salt)
    return np.ascontiguousarray(np.real(f)).astype(np.float64)


def direct_conv(o, h):
    """sum_j h[j] * o shifted by (j - c): circular convolution with the PSF origin at sample n//2 (harness reference)"""
    cy, cx = o.shape[0] // 2, o.shape[1] // 2
    out = np.zeros(o.shape, dtype=np.float64)
    ys, xs = np.nonzero(h)
    for y, x in zip(ys.tolist(), xs.tolist()):
        out += h[y, x] * np.roll(o, (y - cy, x - cx), axis=(0, 1))
    return out


def _parity(shape):
    return ','.join('eo'[n % 2] if n > 1 else '1' for n in shape)


# ---- input classes shared by the clauses: dtype, amplitude scale, memory layout --------------------------
DTYPES = ['float64', 'bool', 'float64', 'uint8', 'float32', 'int64', 'float64', 'int32', 'uint16', 'float64']
# decimal exponents (object, psf); every pair keeps products, sums over <= 1600 samples and the weights of the linearity
# check inside the float64 range (float32 operands use a tenth of the exponent)
SCALE_PAIRS = [[0, 0]] * 6 + [[-150, -150], [140, 140], [300, -300], [-300, 300], [-300, 0], [0, -300], [300, -5], [-200, -100],
                              [100, 100], [-100, 40], [-17, 0], [0, -17]]


def _to_dtype(x, dt, e=0):
    """the float64 array x in [-1, 1] as a valid array of dtype dt: floats scaled by 10**e (10**(e/10) in float32),
    signed integers = round(100 x), unsigned = round(200 |x|), bool = x > 0.2"""
    dt = np.dtype(dt)
    if dt.kind == 'f':
        ee = e if dt == np.float64 else int(round(e / 10))
        return (x * 10.0 ** ee).astype(dt)
    if dt.kind == 'b':
        return x > 0.2
    if dt.kind == 'u':
        return np.rint(np.abs(x) * 200).astype(dt)
    return np.rint(x * 100).astype(dt)


def _f64(a):
    return np.asarray(a).astype(np.complex128 if np.iscomplexobj(a) else np.float64)


def _is32(*dts):
    return any(np.dtype(d) in (np.dtype('float32'), np.dtype('complex64')) for d in dts)


def _unchanged(ctx, arr, keep, bucket, what):
    """arr is the very array handed to the library, keep a copy taken before the call"""
    a, k = np.asarray(arr), np.asarray(keep)
    same = a.shape == k.shape and a.dtype == k.dtype and bool(np.all((a == k) | ((a != a) & (k != k))))
    if not same:
        n = int(np.sum(a != k)) if a.shape == k.shape else -1
        ctx.fail(bucket + ':argument-modified', '%s was modified by the call (%d of %d samples differ, dtype %s -> %s)' % (what, n, k.size, k.dtype, a.dtype))


def _caught(ctx, what, fn, *a, **k):
    """a request that is expected to fail and is caught by the caller: nothing is asserted about it (nor if it does not fail);
    the valid requests that follow must behave as if it had never been made"""
    try:
        fn(*a, **k)
        ctx.label('failed-call:%s:did-not-raise' % what)
    except Exception:
        ctx.label('failed-call:%s:raised' % what)


# ---- conv ----------------------------------------------------------------------------------------
WEIGHTS = [1.0, -1.0, 0.5, 2.0, -0.25, 3.0, 0.0, 1e-3, -7.5]
IMPULSE_W = [1.0, 1.0, 0.5, 2.5, 1e-3, -0.75, 1e-200, 1e200]
PRE = ['none', 'none', 'other-shape', 'float32', 'swapped', 'ints', 'failed-call']


def strat_conv(tier):
    return _shape(tier).flatmap(lambda s: st.fixed_dictionaries({
        'shape': st.just(s), 'seed': U.seeds, 'a': st.sampled_from(WEIGHTS), 'b': st.sampled_from(WEIGHTS),
        'k': st.tuples(st.integers(-s[0], s[0]), st.integers(-s[1], s[1])).map(list),
        'okind': st.sampled_from(['random', 'random', 'embedded', 'const', 'impulse']),
        'hkind': st.sampled_from(['random', 'random', 'embedded', 'impulse']),
        'odtype': st.sampled_from(DTYPES), 'hdtype': st.sampled_from(DTYPES), 'scale': st.sampled_from(SCALE_PAIRS),
        'olayout': U.layouts, 'hlayout': U.layouts, 'w': st.sampled_from(IMPULSE_W), 'pre': st.sampled_from(PRE),
        'kwargs': st.booleans(), 'backend': U.fft_backends}))


def _prior_conv(ctx, conv, pre, shape, seed):
    """history inside one process: some other valid use of conv before the checked calls"""
    if pre == 'none':
        return
    ny, nx = shape
    if pre == 'other-shape':
        sh = (nx + 1, ny + 2)
        ctx.call(conv, _real(seed, sh, 'random', 31), _real(seed, sh, 'random', 32))
    elif pre == 'float32':
        ctx.call(conv, _real(seed, shape, 'random', 31).astype(np.float32), _real(seed, shape, 'random', 32).astype(np.float32))
    elif pre == 'swapped':
        ctx.call(conv, _real(seed, shape, 'random', 3), _real(seed, shape, 'random', 1))
    elif pre == 'ints':
        ctx.call(conv, _to_dtype(_real(seed, shape, 'random', 31), 'uint8'), _to_dtype(_real(seed, shape, 'random', 32), 'int64'))
    elif pre == 'failed-call':
        # unequal shapes that do not broadcast, a 1-D pair, something that is not an array
        _caught(ctx, 'conv:shapes', conv, _real(seed, shape, 'random', 31), _real(seed, (ny + 1, nx + 2), 'random', 32))
        _caught(ctx, 'conv:1-d', conv, np.ones(nx + 1), np.ones(nx + 1))
        _caught(ctx, 'conv:none', conv, _real(seed, shape, 'random', 31), None)


def check_conv(case, ctx):
    """conv == explicit circular convolution about n//2; bilinear, commutative, impulse identity / translation, energy product;
    for every dtype / layout / scale; arguments untouched; results independent of later calls."""
    with U.fft_backend(case.get('backend', 'scipy')):
        ctx.label('fft:' + case.get('backend', 'scipy'))
        _check_conv(case, ctx)


def _check_conv(case, ctx):
    from prysm.convolution import conv
    shape, seed, a, b, k = tuple(case['shape']), case['seed'], case['a'], case['b'], case['k']
    odt = np.dtype(case.get('odtype', case.get('dtype', 'float64')))
    hdt = np.dtype(case.get('hdtype', case.get('dtype', 'float64')))
    eo, eh = case.get('scale', [0, 0])
    if odt.kind != 'f' or hdt.kind != 'f':
        # an integer / boolean partner is not scaled (entries up to 200, sums up to 3e5): keep the spectra' product inside the float64 range
        eo, eh = max(-280, min(280, eo)), max(-280, min(280, eh))
    olay, hlay, w = case.get('olayout', 'C'), case.get('hlayout', 'C'), case.get('w', 1.0)
    o1 = U.relayout(_to_dtype(_real(seed, shape, case['okind'], 1), odt, eo), olay)
    o2 = _to_dtype(_real(seed, shape, 'random', 2), odt, eo)
    h1 = U.relayout(_to_dtype(_real(seed, shape, case['hkind'], 3), hdt, eh), hlay)
    h2 = _to_dtype(_real(seed, shape, 'random', 4), hdt, eh)
    f32 = _is32(odt, hdt)
    rt = 2e-4 if f32 else 1e-10
    ny, nx = shape
    ctx.nt(ny % 2 == 1 or nx % 2 == 1 or ny != nx or (k[0] % ny, k[1] % nx) != (0, 0))
    ctx.label('parity:' + _parity(shape), 'square' if ny == nx else 'nonsquare', 'odtype:%s' % odt, 'hdtype:%s' % hdt, 'o:' + case['okind'],
              'h:' + case['hkind'], 'olayout:' + olay, 'hlayout:' + hlay, 'scale:%s' % ('unit' if (eo, eh) == (0, 0) else 'extreme'),
              'w=1' if w == 1.0 else 'w!=1', 'pre:' + case.get('pre', 'none'), 'mixed-dtype' if odt != hdt else 'same-dtype')
    o64, o264, h64, h264 = (_f64(x) for x in (o1, o2, h1, h2))
    scale = float(np.sum(np.abs(h64)) * np.max(np.abs(o64))) + 1e-300
    desc = 'shape %s seed %d dtypes (%s, %s) layouts (%s, %s) scale 1e%d,1e%d' % (list(shape), seed, odt, hdt, olay, hlay, eo, eh)
    pb = 'conv:%s' % _parity(shape)
    tb = ':' + '/'.join(sorted({str(odt), str(hdt)})) if (odt.kind != 'f' or hdt.kind != 'f') else ''
    _prior_conv(ctx, conv, case.get('pre', 'none'), shape, seed)
    raw = []

    def cv(x, y, kw=False):
        r = ctx.call(conv, obj=x, psf=y) if kw else ctx.call(conv, x, y)
        raw.append(r)
        r = np.asarray(r)
        U.check_shape(r, shape, 'conv', 'conv output')
        ctx.require(r.dtype.kind == 'f', 'conv:dtype', 'conv of real arrays returned dtype %s' % r.dtype)
        return r.astype(np.float64)
    ko, kh = o1.copy(), h1.copy()
    c11 = cv(o1, h1, case.get('kwargs', False))
    first, first_keep = raw[0], np.array(raw[0], copy=True)
    _unchanged(ctx, o1, ko, 'conv', 'the object')
    _unchanged(ctx, h1, kh, 'conv', 'the psf')
    U.check_close(c11, direct_conv(o64, h64), rt, pb + ':direct' + tb, '%s: conv vs explicit circular sum about n//2' % desc, atol=rt * scale)
    U.check_close(cv(h1, o1), c11, rt, pb + ':commutative' + tb, '%s: conv(h,o) vs conv(o,h)' % desc, atol=rt * scale)
    # the caller renormalises / rewrites its PSF (or its object) in place and convolves again with the same array objects, no other array in between:
    # the result follows the values the arrays hold now
    if h1.flags.writeable and o1.flags.writeable and h1.dtype.kind == 'f' and o1.dtype.kind == 'f' and not f32:
        h_kept, o_kept = h1.copy(), o1.copy()
        h1 *= h1.dtype.type(0.5)
        h1[(0,) * h1.ndim] += h1.dtype.type(float(np.abs(h_kept).max()) or 1.0)
        c_edit = cv(o1, h1)
        U.check_close(c_edit, direct_conv(o64, _f64(h1)), rt, pb + ':psf-edited-in-place' + tb, '%s: conv(o, h) after h was rewritten in place (same array object)' % desc,
                      atol=rt * (float(np.sum(np.abs(_f64(h1))) * np.max(np.abs(o64))) + 1e-300))
        o1 *= o1.dtype.type(-2.0)
        c_edit2 = cv(o1, h1)
        U.check_close(c_edit2, direct_conv(_f64(o1), _f64(h1)), rt, pb + ':object-edited-in-place' + tb, '%s: conv(o, h) after o was rewritten in place (same array object)' % desc,
                      atol=rt * (float(np.sum(np.abs(_f64(h1))) * np.max(np.abs(_f64(o1)))) + 1e-300))
        h1[...] = h_kept
        o1[...] = o_kept
        ko, kh = o1.copy(), h1.copy()
        ctx.label('arrays-edited-in-place-between-calls')
    # linearity in each argument (the combination itself is formed in float64 and cast, so that both sides see the same input;
    # combinations of integer / boolean arrays are handed over in float64)
    mix_o = (a * o64 + b * o264).astype(odt if odt.kind == 'f' else np.float64)
    s2 = float(np.sum(np.abs(h64)) * (abs(a) * np.max(np.abs(o64)) + abs(b) * np.max(np.abs(o264)))) + 1e-300
    U.check_close(cv(mix_o, h1), a * c11 + b * cv(o2, h1), rt, pb + ':linear-object' + tb, '%s: conv(%r o1 + %r o2, h)' % (desc, a, b), atol=rt * s2 * 4)
    mix_h = (a * h64 + b * h264).astype(hdt if hdt.kind == 'f' else np.float64)
    s3 = float(np.max(np.abs(o64)) * (abs(a) * np.sum(np.abs(h64)) + abs(b) * np.sum(np.abs(h264)))) + 1e-300
    U.check_close(cv(o1, mix_h), a * c11 + b * cv(o1, h2), rt, pb + ':linear-psf' + tb, '%s: conv(o, %r h1 + %r h2)' % (desc, a, b), atol=rt * s3 * 4)
    # impulse at the origin / displaced; a unit impulse in the psf's own dtype, and (homogeneity) an impulse of weight w
    omax = float(np.max(np.abs(o64)))
    d0 = np.zeros(shape, hdt)
    d0[ny // 2, nx // 2] = 1
    U.check_close(cv(o1, d0), o64, rt, pb + ':identity' + tb, '%s: conv(o, delta at n//2) vs o' % desc, atol=rt * omax)
    wdt = hdt if hdt.kind == 'f' else np.dtype(np.float64)
    if wdt == np.float32 and not 1e-30 <= abs(w) <= 1e30:
        w = 0.5
    if abs(w) * omax > 1e300 or (abs(w) * omax < 1e-300 and omax > 0):
        w = 0.5    # keep the product representable
    dk = U.relayout(np.zeros(shape, wdt), hlay)
    dk[(ny // 2 + k[0]) % ny, (nx // 2 + k[1]) % nx] = w
    wv = float(dk[(ny // 2 + k[0]) % ny, (nx // 2 + k[1]) % nx])
    U.check_close(cv(o1, dk), wv * np.roll(o64, (k[0], k[1]), axis=(0, 1)), rt, pb + ':translation' + tb,
                  '%s: conv(o, %r delta at n//2 + %r) vs %r roll(o, %r)' % (desc, wv, k, wv, k), atol=rt * omax * abs(wv))
    U.check_close(cv(dk, o1), wv * np.roll(o64, (k[0], k[1]), axis=(0, 1)), rt, pb + ':translation' + tb,
                  '%s: conv(%r delta at n//2 + %r, o) vs %r roll(o, %r)' % (desc, wv, k, wv, k), atol=rt * omax * abs(wv))
    # energy
    e = float(np.sum(c11))
    want = float(np.sum(o64) * np.sum(h64))
    es = float(np.sum(np.abs(o64)) * np.sum(np.abs(h64))) + 1e-300
    ctx.within(abs(e - want), rt * es, pb + ':energy' + tb, '%s: sum(conv)=%.17g, sum(o) sum(h)=%.17g' % (desc, e, want))
    # the very same array object given as object and as psf (and a second view of the same memory): conv is a function of the
    # values, so the image is the explicit circular sum of the array with itself and equals what an equal copy gives
    if case.get('selfconv', True):
        for side, arr, kind_, dt_, e_, lay_, salt in (('object', o1, case['okind'], odt, eo, olay, 1), ('psf', h1, case['hkind'], hdt, eh, hlay, 3)):
            es = max(-140, min(140, e_))        # the square of the amplitude must stay representable (float32 uses a tenth of the exponent)
            x = arr if (es == e_ or dt_.kind != 'f') else U.relayout(_to_dtype(_real(seed, shape, kind_, salt), dt_, es), lay_)
            x64 = _f64(x)
            kx = x.copy()
            refl = x64[(2 * (ny // 2) - np.arange(ny)) % ny][:, (2 * (nx // 2) - np.arange(nx)) % nx]
            ctx.label('self:' + ('point-symmetric' if np.array_equal(refl, x64) else 'asymmetric'))
            ss = float(np.sum(np.abs(x64)) * np.max(np.abs(x64))) + 1e-300
            r32 = 2e-4 if _is32(dt_) else 1e-10
            sdesc = 'shape %s seed %d %s %s (%s, layout %s, scale 1e%d)' % (list(shape), seed, kind_, side, dt_, lay_, es)
            want_self = direct_conv(x64, x64)
            same = cv(x, x, case.get('kwargs', False))
            U.check_close(same, want_self, r32, 'conv:same-object:direct', '%s: conv(a, a) with one array object for both arguments vs explicit circular sum' % sdesc, atol=r32 * ss)
            twin = cv(x, x.copy())
            U.check_close(same, twin, r32, 'conv:same-object:vs-copy', '%s: conv(a, a) vs conv(a, a.copy())' % sdesc, atol=r32 * ss)
            U.check_close(twin, want_self, r32, pb + ':direct' + tb, '%s: conv(a, a.copy()) vs explicit circular sum' % sdesc, atol=r32 * ss)
            alias = cv(x, x.view())
            U.check_close(alias, want_self, r32, 'conv:same-memory:direct', '%s: conv(a, a.view()) (two array objects on the same memory) vs explicit circular sum' % sdesc, atol=r32 * ss)
            _unchanged(ctx, x, kx, 'conv', 'the array given as object and psf (%s)' % sdesc)
    # the caller owns what it handed over and what it got back
    _unchanged(ctx, o1, ko, 'conv', 'the object')
    _unchanged(ctx, h1, kh, 'conv', 'the psf')
    U.check_equal(np.asarray(first), first_keep, 'conv:result-overwritten', '%s: the first result changed during later calls' % desc)
    try:
        np.asarray(first)[...] = 0
    except ValueError:
        pass
    again = np.asarray(ctx.call(conv, o1, h1))
    U.check_close(again, first_keep, 1e-12, 'conv:aliased-state', '%s: same call after the first result was zeroed in place' % desc, atol=1e-13 * scale)


IMP_DT = ['float64', 'int64', 'uint8', 'float32', 'bool', 'float64', 'uint16']


def enum_impulse(tier):
    N = {'quick': 9, 'thorough': 14}[tier]
    for ny in range(1, N + 1):
        for nx in range(1, N + 1):
            yield {'shape': [ny, nx], 'seed': 1000 * ny + nx, 'odtype': IMP_DT[(3 * ny + nx) % len(IMP_DT)], 'w': [1.0, 0.5, 1.0, 3.0][(ny + 2 * nx) % 4]}


def check_impulse(case, ctx):
    """every impulse position p of the shape: conv(o, w delta_p) == conv(w delta_p, o) == w roll(o, p - n//2)."""
    from prysm.convolution import conv
    ny, nx = case['shape']
    odt, w = np.dtype(case.get('odtype', 'float64')), case.get('w', 1.0)
    o = _to_dtype(_real(case['seed'], (ny, nx), 'random', 1), odt)
    o64 = _f64(o)
    keep = o.copy()
    rt = 1e-5 if odt == np.float32 else 1e-12
    ctx.nt(ny % 2 == 1 or nx % 2 == 1 or ny != nx)
    ctx.label('parity:' + _parity((ny, nx)), 'odtype:%s' % odt, 'w=1' if w == 1.0 else 'w!=1')
    ctx.tally('impulse_positions', ny * nx)
    pb = 'conv:%s' % _parity((ny, nx))
    tb = '' if odt.kind == 'f' else ':%s' % odt
    sc = float(np.max(np.abs(o64))) * abs(w)
    for y in range(ny):
        for x in range(nx):
            d = np.zeros((ny, nx))
            d[y, x] = w
            want = w * np.roll(o64, (y - ny // 2, x - nx // 2), axis=(0, 1))
            U.check_close(ctx.call(conv, o, d), want, rt, pb + ':translation' + tb, 'shape %s %s object, impulse %r at %s (psf side)' % ([ny, nx], odt, w, [y, x]), atol=rt * sc + 1e-13)
            U.check_close(ctx.call(conv, d, o), want, rt, pb + ':translation' + tb, 'shape %s %s object, impulse %r at %s (object side)' % ([ny, nx], odt, w, [y, x]), atol=rt * sc + 1e-13)
            if case.get('self', True):
                # the impulse convolved with itself (one array object for both arguments) lands at twice its offset with weight w^2
                want2 = np.zeros((ny, nx))
                want2[(2 * (y - ny // 2) + ny // 2) % ny, (2 * (x - nx // 2) + nx // 2) % nx] = w * w
                U.check_close(ctx.call(conv, d, d), want2, 1e-12, pb + ':translation:same-object', 'shape %s, impulse %r at %s convolved with itself (the same array object twice): expected %r at %s' % (
                    [ny, nx], w, [y, x], w * w, [(2 * (y - ny // 2) + ny // 2) % ny, (2 * (x - nx // 2) + nx // 2) % nx]), atol=1e-12 * w * w)
    _unchanged(ctx, o, keep, 'conv', 'the object')


# ---- apply_transfer_functions ----------------------------------------------------------------------
FNAMES = ['fx', 'fy', 'fr', 'ft']
# how a callable transfer function declares the frequency grids it wants (the library selects and hands them over *by name*):
# plain positional-or-keyword parameters, keyword-only, first positional + rest keyword-only, defaults on all but the first,
# functools.partial currying another parameter that is declared before / after the grids (by keyword: the grids that follow it
# become keyword-only; or positionally), a bound method, an object with __call__, an unrelated defaulted parameter in between
SIG_STYLES = ['plain', 'plain', 'kwonly', 'first+kwonly', 'defaults', 'partial-lead', 'partial-trail', 'partial-positional', 'method',
              'callable-object', 'extra-default-mid']
GAINS = [1.0, 2.0, -0.5]


def _sig_fields():
    """the declaration of a callable: order (an index into the permutations of its parameter names), style, curried gain"""
    return {'order': st.integers(0, 23), 'style': st.sampled_from(SIG_STYLES), 'gain': st.sampled_from(GAINS)}


def _mix_spec():
    """a callable of a drawn, ordered subset of (fx, fy, fr, ft) - e.g. (ft, fr), (fy, fx), (fr, fx, ft) - that may declare one
    grid it does not use; its value is a product of one distinct, non-symmetric factor per grid used"""
    pos = U.nice_float(0.05, 3.0)
    return st.fixed_dictionaries({'kind': st.just('mix'), 'declares': st.permutations(FNAMES).flatmap(
        lambda p: st.integers(1, 4).map(lambda k: list(p[:k]))), 'skip': st.sampled_from([-1, -1, 0, 1, 2]), 's': pos,
        'style': st.sampled_from(SIG_STYLES), 'gain': st.sampled_from(GAINS)})


def _with_sig(d):
    return st.fixed_dictionaries(dict(d, **_sig_fields()))


def _tf_spec():
    pos = U.nice_float(0.05, 3.0)
    return st.one_of(
        _mix_spec(), _mix_spec(), _mix_spec(),
        _with_sig({'kind': st.just('all4'), 's': pos}),
        _with_sig({'kind': st.just('sinc_fxfy'), 'w': pos, 'h': pos}),
        _with_sig({'kind': st.just('ramp'), 'sx': U.nice_float(-3.0, 3.0), 'sy': U.nice_float(-3.0, 3.0)}),
        _with_sig({'kind': st.just('gauss_fr'), 's': pos}),
        _with_sig({'kind': st.just('ft_cos'), 'm': st.integers(1, 4), 'amp': U.nice_float(-0.9, 0.9)}),
        st.fixed_dictionaries({'kind': st.just('array_real'), 'salt': st.integers(0, 50)}),
        st.fixed_dictionaries({'kind': st.just('array_complex'), 'salt': st.integers(0, 50)}),
        st.fixed_dictionaries({'kind': st.just('ones')}),
        st.fixed_dictionaries({'kind': st.just('ones_callable')}),
        st.fixed_dictionaries({'kind': st.just('gauss_fr'), 's': pos}),
        st.fixed_dictionaries({'kind': st.just('sinc_fxfy'), 'w': pos, 'h': pos}),
        st.fixed_dictionaries({'kind': st.just('smear'), 'w': st.one_of(st.just(0.0), pos), 'h': pos}),
        st.fixed_dictionaries({'kind': st.just('jitter'), 's': pos}),
        st.fixed_dictionaries({'kind': st.just('ft_cos'), 'm': st.integers(1, 4), 'amp': U.nice_float(-0.9, 0.9)}),
        st.fixed_dictionaries({'kind': st.just('ramp'), 'sx': U.nice_float(-3.0, 3.0), 'sy': U.nice_float(-3.0, 3.0)}),
        st.fixed_dictionaries({'kind': st.just('fx_only'), 's': pos}),
        st.fixed_dictionaries({'kind': st.just('fy_only'), 's': pos}),
        st.fixed_dictionaries({'kind': st.just('all4'), 's': pos}),
        st.fixed_dictionaries({'kind': st.just('stored'), 'salt': st.integers(0, 50)}),
    )


# ---- round-8 hardening: entries of tfs of every accepted kind ------------------------------------------------------------------
# (a) constants: a Python number, a numpy scalar, a 0-d array (real / complex / integer / bool) - a transmission, a QE, a normalisation;
# (b) callables that return such a constant whatever grids they declare; (c) arrays that only broadcast against the spectrum
# ((1, N) row, (M, 1) column, 1-D of length N, (1, 1)); (d) callables whose value depends on the *exact* values of the frequency grids
# they are handed (zero frequency treated specially, sign, hard edges at grid values).  [re, im] pairs:
SCALAR_VALUES = [[0.5, 0.0], [2.0, 0.0], [-1.25, 0.0], [0.75, 0.0], [1.0, 0.0], [0.0, 0.0], [0.001, 0.0], [3.0, -2.0], [0.0, 1.0], [0.6, 0.8],
                 [1e-17, 0.0], [1e12, 0.0], [-1.0, 0.0], [0.8, 0.0], [0.5, 0.0], [0.8, 0.0]]
SCALAR_AS = ['py', 'py', 'py-int', 'np', 'np32', 'np-int', '0d', '0d', '0d-32', 'bool', 'np']
BCAST_FORMS = ['row', 'col', '1d', '1x1', 'row', 'col']
SHARP_NEEDS = {'fr_eq0': ['fr'], 'fr_ne0_bool': ['fr'], 'fr_sign': ['fr'], 'fr_inv16': ['fr'], 'fr_guarded_inv': ['fr'], 'fr_step': ['fr'],
               'fr_band': ['fr'], 'ft_eq0': ['ft'], 'ft_step': ['ft'], 'fx_eq0': ['fx', 'fy'], 'fy_eq0': ['fx', 'fy'], 'hilbert_x': ['fx', 'fy'],
               'xy_origin': ['fx', 'fy'], 'fr_ft_origin': ['fr', 'ft']}
SHARP_FNS = sorted(SHARP_NEEDS)
SHARP_A = [0.0, 0.0, 2.0, -1.0, 0.5]
HALF_PI_UP = (math.pi / 2) * (1 + 1e-9)


def _scalar_obj(value, how):
    """the constant re + i im as the drawn Python / numpy type (what is handed to the library)"""
    re_, im_ = float(value[0]), float(value[1])
    if im_ != 0.0:
        z = complex(re_, im_)
        if how in ('np', 'np-int'):
            return np.complex128(z)
        if how == 'np32':
            return np.complex64(z)
        if how == '0d':
            return np.array(z)
        if how == '0d-32':
            return np.array(z, dtype=np.complex64)
        return z
    integral = re_.is_integer() and abs(re_) < 2 ** 31
    if how == 'py-int' and integral:
        return int(re_)
    if how == 'np-int':
        return np.int64(re_) if integral else np.float64(re_)
    if how == 'bool' and re_ in (0.0, 1.0):
        return bool(re_)
    if how == 'np':
        return np.float64(re_)
    if how == 'np32':
        return np.float32(re_)
    if how == '0d':
        return np.array(re_)
    if how == '0d-32':
        return np.array(re_, dtype=np.float32)
    return re_


def _scalar_value(obj):
    """the number the library was handed, in the harness' working precision"""
    z = complex(np.asarray(obj).astype(np.complex128))
    return z if z.imag != 0.0 else z.real


def _tame(value, odt, eo):
    """very large / very small constants only with objects of order one in float64 (keeps every product representable)"""
    m = abs(complex(value[0], value[1]))
    if (m > 1e3 or 0 < m < 1e-3) and (np.dtype(odt) == np.float32 or abs(eo) > 100):
        return [0.5, 0.0]
    return value


def _new_specs():
    declares = st.permutations(FNAMES).flatmap(lambda p: st.integers(1, 3).map(lambda k: list(p[:k])))
    return [
        st.fixed_dictionaries({'kind': st.just('scalar'), 'value': st.sampled_from(SCALAR_VALUES), 'as': st.sampled_from(SCALAR_AS)}),
        st.fixed_dictionaries({'kind': st.just('scalar'), 'value': st.sampled_from(SCALAR_VALUES), 'as': st.sampled_from(SCALAR_AS)}),
        st.fixed_dictionaries({'kind': st.just('const_callable'), 'value': st.sampled_from(SCALAR_VALUES), 'as': st.sampled_from(SCALAR_AS),
                               'declares': declares, 'style': st.sampled_from(SIG_STYLES), 'gain': st.sampled_from(GAINS)}),
        st.fixed_dictionaries({'kind': st.just('bcast'), 'form': st.sampled_from(BCAST_FORMS), 'salt': st.integers(0, 50), 'cplx': st.booleans(),
                               'layout': U.layouts}),
        st.fixed_dictionaries({'kind': st.just('sharp'), 'fn': st.sampled_from(SHARP_FNS), 'a': st.sampled_from(SHARP_A), 'cut': st.integers(0, 40),
                               'order': st.integers(0, 23), 'style': st.sampled_from(SIG_STYLES), 'gain': st.sampled_from(GAINS)}),
        st.fixed_dictionaries({'kind': st.just('sharp'), 'fn': st.sampled_from(SHARP_FNS), 'a': st.sampled_from(SHARP_A), 'cut': st.integers(0, 40),
                               'order': st.integers(0, 23), 'style': st.just('plain'), 'gain': st.just(1.0)}),
    ]


def _sharp_value(spec, fx, fy, fr, ft):
    """transfer functions that are sensitive to the exact values of the grids they are given (harness' own formulas, evaluated by name)"""
    fn, a = spec['fn'], spec.get('a', 0.0)
    c = spec.get('cutoff', 1.0)
    if fn == 'fr_eq0':            # a DC block / DC gain: the zero-frequency sample treated on its own
        return np.where(fr == 0, a, 1.0)
    if fn == 'fr_ne0_bool':       # the same as a boolean mask
        return fr != 0
    if fn == 'fr_sign':
        return 0.25 + np.sign(fr)
    if fn == 'fr_inv16':          # passes zero frequency only (the mean of the object)
        return 1 / (1 + fr * 1e16)
    if fn == 'fr_guarded_inv':    # a 1/f roll-off written correctly: the origin is given its own value
        return np.where(fr == 0, a, c / np.where(fr == 0, 1.0, fr))
    if fn == 'fr_step':           # hard-edged low-pass, edge at (or a relative 1e-9 above) a value of the grid
        return (fr <= c) * 1.0
    if fn == 'fr_band':           # band-pass whose lower edge is zero, exclusive (boolean)
        return (fr > 0) & (fr <= c)
    if fn == 'ft_eq0':            # azimuth exactly 0: the origin and the +x half axis
        return np.where(ft == 0, 1.0, a)
    if fn == 'ft_step':           # the half plane fx >= 0 incl. both halves of the fy axis and the origin
        return np.where(np.abs(ft) <= HALF_PI_UP, 1.0, a)
    if fn == 'fx_eq0':
        return np.where(fx == 0, a, 1.0) + 0 * fy
    if fn == 'fy_eq0':
        return np.where(fy == 0, a, 1.0) + 0 * fx
    if fn == 'hilbert_x':
        return -1j * np.sign(fx) + 0 * fy
    if fn == 'xy_origin':
        return np.where((fx == 0) & (fy == 0), a, 1.0)
    if fn == 'fr_ft_origin':
        return np.where(fr == 0, a, 1 + 0.5 * np.cos(ft))
    raise ValueError(fn)


def _pow2(x):
    return x > 0 and math.frexp(x)[0] == 0.5


def _cutoff(fx1, fy1, FX, FY, FR, k, exact_ok):
    """the edge of the hard-edged transfer functions: the k-th distinct on-axis value of the grid.  The comparison is made exactly at that
    value only where every implementation of the grid gives the same bits there (1 / (n dx) exactly representable or caller-supplied
    grids; the samples that reach the edge all lie on an axis, where hypot is exact); otherwise the edge lies a relative 1e-9 .. 7e-9
    above the grid value, so that no sample is within rounding of it"""
    cands = sorted(c for c in (set(np.abs(fx1).tolist()) | set(np.abs(fy1).tolist())) if c > 0)
    if not cands:
        return 1.0, 'no-grid-value'
    c = cands[k % len(cands)]
    on_axis = (FX == 0) | (FY == 0)
    eq = FR == c
    near = np.abs(FR - c) <= 1e-9 * c
    if exact_ok and bool(np.all(eq == near)) and bool(np.all(on_axis[eq])):
        return c, 'exactly-at-grid-value'
    for m in (1e-9, 3e-9, 7e-9):
        if not np.any(np.abs(FR - c * (1 + m)) <= 1e-11 * c):
            return c * (1 + m), 'just-above-grid-value'
    return c * 1.5, 'between-grid-values'


CALLABLE_KINDS = {'stored', 'ones_callable', 'gauss_fr', 'sinc_fxfy', 'smear', 'jitter', 'ft_cos', 'ramp', 'fx_only', 'fy_only', 'all4', 'mix',
                  'const_callable', 'sharp'}
# the grids each harness-made callable declares, in the library's canonical order (the drawn 'order' permutes them)
NEEDS = {'ones_callable': ['fr'], 'gauss_fr': ['fr'], 'sinc_fxfy': ['fx', 'fy'], 'ramp': ['fx', 'fy'], 'ft_cos': ['ft'], 'fx_only': ['fx'],
         'fy_only': ['fy'], 'all4': ['fx', 'fy', 'fr', 'ft']}


def _mix_uses(spec):
    d = list(spec['declares'])
    k = spec.get('skip', -1)
    return [n for i, n in enumerate(d) if not (len(d) > 1 and i == k)]


def _gain_of(spec):
    """the curried / defaulted extra parameter multiplies the transfer function (only in the styles that have one)"""
    return spec.get('gain', 1.0) if spec.get('style', 'plain') in ('partial-lead', 'partial-trail', 'partial-positional', 'extra-default-mid') else 1.0


def _tf_value(spec, fx, fy, fr, ft):
    """the transfer function on the given frequency arrays (harness' own formulas; any broadcastable shapes)"""
    k = spec['kind']
    g = _gain_of(spec)
    if g != 1.0:
        return g * _tf_value(dict(spec, style='plain'), fx, fy, fr, ft)
    if k == 'sharp':
        return _sharp_value(spec, fx, fy, fr, ft)
    if k == 'const_callable':
        return _scalar_value(_scalar_obj(spec['value'], spec['as']))
    if k == 'mix':
        s_ = spec['s']
        factor = {'fx': lambda: 1 / (1 + (s_ * fx) ** 2), 'fy': lambda: np.cos(0.7 * s_ * fy) + 1.5,
                  'fr': lambda: np.exp(-(s_ * fr) ** 2) + 0.25, 'ft': lambda: 1 + 0.5 * np.sin(ft)}
        return functools.reduce(lambda p, q: p * q, [factor[n]() for n in _mix_uses(spec)])
    if k == 'ones_callable':
        return np.ones(np.broadcast_shapes(np.shape(fx), np.shape(fy)))
    if k == 'gauss_fr':
        return np.exp(-(spec['s'] * fr) ** 2)
    if k == 'sinc_fxfy':
        return np.sinc(fx * spec['w']) * np.sinc(fy * spec['h'])
    if k == 'smear':
        return (np.sinc(fx * spec['w']) if spec['w'] != 0 else 1.0) * np.sinc(fy * spec['h'])
    if k == 'jitter':
        return np.exp(-2 * (np.pi * spec['s'] * fr) ** 2)
    if k == 'ft_cos':
        return 1 + spec['amp'] * np.cos(spec['m'] * ft)
    if k == 'ramp':
        return np.exp(-2j * np.pi * (fx * spec['sx'] + fy * spec['sy']))
    if k == 'fx_only':
        return 1 / (1 + (spec['s'] * fx) ** 2) + 0 * fy
    if k == 'fy_only':
        return np.cos(spec['s'] * fy) + 0 * fx
    if k == 'all4':
        return np.exp(-(spec['s'] * fr) ** 2) * (1 + 0.5 * np.sin(ft)) + 0.25j * np.tanh(fx) * np.cos(fy)
    raise ValueError(k)


_PERMS = {}


def _declared(spec):
    """parameter names of the callable in the order it declares them"""
    if spec['kind'] in ('mix', 'const_callable'):
        return list(spec['declares'])
    names = SHARP_NEEDS[spec['fn']] if spec['kind'] == 'sharp' else NEEDS[spec['kind']]
    if len(names) not in _PERMS:
        import itertools
        _PERMS[len(names)] = list(itertools.permutations(range(len(names))))
    perm = _PERMS[len(names)][spec.get('order', 0) % len(_PERMS[len(names)])]
    return [names[i] for i in perm]


def _build_callable(names, style, gain, core):
    """a real Python callable whose signature declares the frequency grids `names` in that order and in the given style;
    whatever it is bound to is forwarded to core(**{name: value}) - so a grid that arrives in another parameter's slot is
    evaluated as that other grid, exactly as a user's function would"""
    fwd = ', '.join('%s=%s' % (n, n) for n in names)
    a = ', '.join(names)
    dflt = ', '.join([names[0]] + ['%s=None' % n for n in names[1:]])
    src = {
        'plain': 'def tf(%s):\n    return _core(%s)' % (a, fwd),
        'kwonly': 'def tf(*, %s):\n    return _core(%s)' % (a, fwd),
        'first+kwonly': ('def tf(%s, *, %s):\n    return _core(%s)' % (names[0], ', '.join(names[1:]), fwd)) if len(names) > 1
        else 'def tf(%s):\n    return _core(%s)' % (a, fwd),
        'defaults': 'def tf(%s):\n    return _core(%s)' % (dflt, fwd),
        'partial-lead': 'def tf(gain, %s):\n    return gain * _core(%s)' % (a, fwd),
        'partial-positional': 'def tf(gain, %s):\n    return gain * _core(%s)' % (a, fwd),
        'partial-trail': 'def tf(%s, gain):\n    return gain * _core(%s)' % (a, fwd),
        'method': 'class K:\n    def tf(self, %s):\n        return _core(%s)' % (a, fwd),
        'callable-object': 'class K:\n    def __call__(self, %s):\n        return _core(%s)' % (a, fwd),
        'extra-default-mid': 'def tf(%s, gain=_gain%s):\n    return gain * _core(%s)' % (names[0], ''.join(', %s=None' % n for n in names[1:]), fwd),
    }[style]
    ns = {'_core': core, '_gain': gain}
    exec(src, ns)
    if style == 'partial-lead' or style == 'partial-trail':
        return functools.partial(ns['tf'], gain=gain)
    if style == 'partial-positional':
        return functools.partial(ns['tf'], gain)
    if style == 'method':
        return ns['K']().tf
    if style == 'callable-object':
        return ns['K']()
    return ns['tf']


def _tf_callable(spec):
    """what is handed to prysm: a callable whose *signature* selects the frequency arrays it receives"""
    from prysm import degredations
    k = spec['kind']
    if k == 'smear':
        return functools.partial(degredations.smear_ft, width=spec['w'], height=spec['h'])
    if k == 'jitter':
        return functools.partial(degredations.jitter_ft, scale=spec['s'])
    plain = dict(spec, style='plain')

    const = _scalar_obj(spec['value'], spec['as']) if k == 'const_callable' else None

    def core(fx=0.0, fy=0.0, fr=None, ft=None):
        if k == 'ones_callable':
            return np.ones(np.shape(fr))
        if k == 'const_callable':
            return const      # the constant itself, in the drawn Python / numpy type
        return _tf_value(plain, fx, fy, fr, ft)
    return _build_callable(_declared(spec), spec.get('style', 'plain'), spec.get('gain', 1.0), core)


TF_DX = [1.0, 0.5, 0.1, 2.5, 1.0, 0.5, 1e-4, 3e3]
# more than 2**16 samples / sizes with a large prime factor, thin so that the FFT oracle stays cheap
BIG_TF = [[1, 65537], [2, 32771], [257, 257], [3, 21851], [65539, 1], [5, 13109]]
TF_OSCALE = [0, 0, 0, 0, 0, -300, -200, 200, 300, -17]
ARRAY_KINDS = {'array_real': 'float64', 'array_complex': 'complex128', 'array_f32': 'float32', 'array_c64': 'complex64', 'array_int': 'int64',
               'array_mask': 'bool', 'array_u8': 'uint8'}


def strat_tf(tier, big=False):
    arr_extra = st.one_of(*[st.fixed_dictionaries({'kind': st.just(k), 'salt': st.integers(0, 50), 'layout': U.layouts}) for k in sorted(ARRAY_KINDS)])
    old_spec, new_spec = st.one_of(_tf_spec(), _tf_spec(), arr_extra), st.one_of(*_new_specs())
    # (an explicit selector: a flat one_of over ~60 alternatives reaches the round-8 kinds in 1% of the entries only)
    spec = st.integers(0, 9).flatmap(lambda k: new_spec if k < 4 else old_spec)
    return st.fixed_dictionaries({
        'shape': st.sampled_from(BIG_TF) if big else _shape(tier), 'seed': U.seeds, 'shift': st.booleans(),
        'shift_as': st.sampled_from(['bool', 'bool', 'np', 'int']), 'dx_as': st.sampled_from(['py', 'py', 'np', '0d', 'int']),
        'call': st.sampled_from(['positional', 'positional', 'keyword']), 'backend': U.fft_backends,
        'tfs': st.one_of(st.lists(spec, min_size=1, max_size=4), st.lists(spec, min_size=1, max_size=4),
                         st.tuples(spec, st.integers(2, 3)).map(lambda t: [t[0]] * t[1]),                        # the same entry repeated
                         st.tuples(spec, spec).map(lambda t: [t[0], t[1], t[0]])),
        'grids': st.sampled_from(['library', 'library', 'user1d', 'user2d']), 'dx': st.sampled_from(TF_DX),
        'okind': st.sampled_from(['random', 'random', 'embedded', 'impulse']),
        'odtype': st.sampled_from(DTYPES), 'olayout': U.layouts, 'oscale': st.sampled_from(TF_OSCALE), 'glayout': U.layouts,
        'container': st.sampled_from(['list', 'list', 'tuple', 'ndarray']), 'share': st.booleans(), 'pre': st.sampled_from(['none', 'none', 'other-shift', 'other-dx', 'other-shape', 'float32', 'failed-call', 'constants-other-shift'])})


def _tf_array(spec, seed, shape):
    """an array-valued transfer function of the spec's dtype (values exactly representable, so the float64 oracle sees the same numbers)"""
    k = spec['kind']
    if k == 'ones':
        return np.ones(shape)
    if k == 'bcast':
        # an array that only broadcasts against the (M, N) spectrum: a row, a column, a 1-D array of length N, a (1, 1) array
        ny, nx = shape
        bs = {'row': (1, nx), 'col': (ny, 1), '1d': (nx,), '1x1': (1, 1)}[spec['form']]
        r = U.rng_of(seed, 400 + spec['salt'])
        v = r.uniform(-1, 1, bs) + (1j * r.uniform(-1, 1, bs) if spec.get('cplx', False) else 0.0)
        return U.relayout(v, spec.get('layout', 'C'))
    dt = np.dtype(ARRAY_KINDS[k])
    r = U.rng_of(seed, (200 if dt.kind == 'c' else 100) + spec['salt'])
    if dt.kind == 'c':
        v = (r.uniform(-1, 1, shape) + 1j * r.uniform(-1, 1, shape)).astype(dt)
    elif dt.kind == 'f':
        v = r.uniform(-1, 1, shape).astype(dt)
    elif dt.kind == 'b':
        v = r.uniform(0, 1, shape) < 0.7
    elif dt.kind == 'u':
        v = r.integers(0, 4, shape).astype(dt)
    else:
        v = r.integers(-3, 4, shape).astype(dt)
    return U.relayout(v, spec.get('layout', 'C'))


def _dx_obj(dx, how):
    if how == 'np':
        return np.float64(dx)
    if how == '0d':
        return np.array(dx)
    if how == 'int' and float(dx).is_integer():
        return int(dx)
    return dx


def _shift_obj(shift, how):
    """a truthy / falsy flag that is not the object True / False"""
    if how == 'np':
        return np.True_ if shift else np.False_
    if how == 'int':
        return 1 if shift else 0
    return shift


def check_tf(case, ctx):
    """apply_transfer_functions == ifft2(fft2(o) * prod(tfs on the convention's grid)); list == product; all-ones == identity;
    the call is repeatable, leaves every argument alone and does not touch earlier results."""
    with U.fft_backend(case.get('backend', 'scipy')):
        _check_tf(case, ctx)


def _check_tf(case, ctx):
    from prysm.convolution import apply_transfer_functions as atf
    shape, seed, shift, specs, grids, dx = tuple(case['shape']), case['seed'], case['shift'], case['tfs'], case['grids'], case['dx']
    ny, nx = shape
    big = ny * nx > 4096
    odt, olay, eo = np.dtype(case.get('odtype', 'float64')), case.get('olayout', 'C'), case.get('oscale', 0)
    container, pre, glay = case.get('container', 'list'), case.get('pre', 'none'), case.get('glayout', 'C')
    shift_arg = _shift_obj(shift, case.get('shift_as', 'bool'))
    o_in = U.relayout(_to_dtype(_real(seed, shape, case['okind'], 1), odt, eo), olay)
    o = _f64(o_in)
    rt = 2e-4 if odt == np.float32 else 1e-10
    # frequency grids of the convention under test, from numpy only
    fy1, fx1 = np.fft.fftfreq(ny, dx), np.fft.fftfreq(nx, dx)
    if shift:
        fy1, fx1 = np.fft.fftshift(fy1), np.fft.fftshift(fx1)
    FX, FY = np.meshgrid(fx1, fy1)
    FR, FT = np.hypot(FX, FY), np.arctan2(FY, FX)
    has_callable = any(s['kind'] in CALLABLE_KINDS for s in specs)
    has_scalar = any(s['kind'] in ('scalar', 'const_callable') for s in specs)
    has_bcast = any(s['kind'] == 'bcast' for s in specs)
    has_sharp = any(s['kind'] == 'sharp' for s in specs)
    if not has_callable:
        grids = 'library'   # frequency grids are irrelevant for arrays
    if container == 'ndarray' and (has_callable or has_scalar or has_bcast):
        container = 'list'  # callables, constants and broadcastable arrays cannot be stacked
    # hard-edged callables: the edge is fixed from the harness' grid (see _cutoff); constants are kept inside the representable range
    exact_ok = grids != 'library' or ((ny == 1 or _pow2(ny * dx)) and (nx == 1 or _pow2(nx * dx)))
    specs_in, specs = specs, []
    for s in specs_in:
        if s['kind'] == 'sharp':
            c, how = _cutoff(fx1, fy1, FX, FY, FR, s.get('cut', 0), exact_ok)
            s = dict(s, cutoff=c)
            if s['fn'] in ('fr_step', 'fr_band', 'fr_guarded_inv'):
                ctx.label('edge:' + how)
        elif s['kind'] in ('scalar', 'const_callable'):
            s = dict(s, value=_tame(s['value'], odt, eo))
        specs.append(s)
    has_complex = any(s['kind'] in ('array_complex', 'array_c64', 'ramp', 'all4') or (s['kind'] == 'sharp' and s['fn'] == 'hilbert_x')
                      or (s['kind'] in ('scalar', 'const_callable') and s['value'][1] != 0) or (s['kind'] == 'bcast' and s.get('cplx', False)) for s in specs)
    vals, tfs = [], []
    stored = []
    same_obj = {}
    permuted_sig = False
    for i, s in enumerate(specs):
        if s['kind'] == 'stored':
            # a callable that hands back an array it keeps (a precomputed OTF): that array is the caller's as well
            v = U.rng_of(seed, 300 + s['salt']).uniform(-1, 1, shape)
            stored.append((v, v.copy()))
            vals.append(v.copy())
            tfs.append(lambda fr, _v=v: _v)
        elif s['kind'] in CALLABLE_KINDS:
            vals.append(np.broadcast_to(_f64(_tf_value(s, FX, FY, FR, FT)), shape))
            # the very same callable object when the same spec is listed again (a list like [blur, blur] applies it twice)
            key = U.canon(s)
            if key not in same_obj:
                same_obj[key] = _tf_callable(s)
            if s['kind'] in NEEDS or s['kind'] in ('mix', 'sharp', 'const_callable'):
                names = _declared(s)
                canonical = names == [n for n in FNAMES if n in names]
                ctx.label('sig:' + s.get('style', 'plain'), 'declares:%d' % len(names))
                if len(names) > 1:
                    ctx.label('order:' + ('canonical' if canonical else 'permuted'))
                    permuted_sig = permuted_sig or not canonical
                if s['kind'] == 'mix' and len(_mix_uses(s)) < len(names):
                    ctx.label('declares-an-unused-grid')
                if s['kind'] == 'sharp':
                    ctx.label('sharp:' + s['fn'])
                if s['kind'] == 'const_callable':
                    ctx.label('callable-returns-constant:' + s['as'], 'constant@%d/%d' % (i, len(specs)))
            else:
                ctx.label('same-callable-object-repeated')
            tfs.append(same_obj[key])
        elif s['kind'] == 'scalar':
            v = _scalar_obj(s['value'], s['as'])
            ctx.label('constant-as:' + s['as'], 'constant:%s' % type(v).__name__, 'constant@%d/%d' % (i, len(specs)),
                      'constant:' + ('complex' if s['value'][1] != 0 else ('one' if s['value'][0] == 1 else ('zero' if s['value'][0] == 0 else 'real'))))
            vals.append(np.broadcast_to(np.asarray(_scalar_value(v)), shape))
            tfs.append(v)
        else:
            # an array listed again is the very same array object when 'share' is drawn (e.g. [mask, mask]), an equal copy otherwise
            key = U.canon(s)
            if case.get('share', False) and key in same_obj:
                v = same_obj[key]
                ctx.label('same-array-object-repeated')
            else:
                v = _tf_array(s, seed, shape)
                same_obj[key] = v
            if s['kind'] == 'bcast':
                ctx.label('broadcastable:' + s['form'])
            vals.append(np.broadcast_to(_f64(v), shape))
            tfs.append(v)
    keeps = [None if callable(t) else np.array(t, copy=True) for t in tfs]
    handed = list(tfs)
    if container == 'tuple':
        tfs = tuple(tfs)
    elif container == 'ndarray':
        tfs = np.array([np.asarray(t) for t in tfs])
        keeps = [tfs.copy()]
        handed = [tfs]
    T = np.array(np.broadcast_to(functools.reduce(lambda p, q: p * q, vals), shape))
    T0 = np.fft.ifftshift(T) if shift else T
    want = np.fft.ifft2(np.fft.fft2(o) * T0).real
    kw = {'shift': shift_arg}
    gkeep = {}
    if grids == 'user1d':
        kw.update(fx=fx1.copy(), fy=fy1.copy())
    elif grids == 'user2d':
        kw.update(fx=U.relayout(FX, glay), fy=U.relayout(FY, glay))
    for g in ('fx', 'fy'):
        if g in kw:
            gkeep[g] = kw[g].copy()
    dx_arg = _dx_obj(dx, case.get('dx_as', 'py')) if grids == 'library' else None
    dx_any = _dx_obj(dx, case.get('dx_as', 'py'))
    conv_name = 'shifted' if shift else 'unshifted'
    ctx.nt(has_callable or has_complex or ny % 2 == 1 or nx % 2 == 1 or ny != nx)
    ctx.label('conv:' + conv_name, 'grids:' + grids, 'ntf=%d' % len(specs), 'callable' if has_callable else 'arrays-only',
              'complex' if has_complex else 'real-tf', 'parity:' + _parity(shape), 'odtype:%s' % odt, 'olayout:' + olay, 'container:' + container,
              'oscale:%s' % ('unit' if eo == 0 else 'extreme'), 'pre:' + pre,
              'first:' + ('callable' if callable(handed[0]) else ('constant' if np.ndim(handed[0]) == 0 else 'array')),
              'shift-as:' + case.get('shift_as', 'bool'), 'dx-as:' + case.get('dx_as', 'py'), 'call:' + case.get('call', 'positional'),
              'fft:' + case.get('backend', 'scipy'), 'samples:' + ('>2**16' if ny * nx > 2 ** 16 else '<=2**16'),
              *sorted(set('tf:' + s['kind'] for s in specs)))
    if has_scalar:
        ctx.label('constant-entry:' + conv_name)
    if has_sharp:
        ctx.label('grid-sensitive:' + conv_name + ':' + grids)
    scale = float(np.max(np.abs(o)) * np.max(np.abs(T0))) + 1e-300
    desc = 'shape %s shift=%r grids=%s dx=%r %s object (%s, 1e%d) %s of tfs=%r' % (list(shape), shift_arg, grids, dx_any, odt, olay, eo, container, specs)
    bucket = 'apply_tf:%s:%s' % (conv_name, 'user2d-grids' if grids == 'user2d' else ('callable' if has_callable else 'array'))
    if permuted_sig and grids != 'user2d':
        bucket += ':parameters-not-in-canonical-order'
    if has_sharp:
        bucket += ':grid-sensitive-callable'
    if has_scalar:
        bucket += ':constant-entry'
    if has_bcast:
        bucket += ':broadcastable-entry'
    tb = '' if odt.kind == 'f' else ':%s-object' % odt

    def call(obj_, dx_, tfs_, **kws):
        """the drawn spelling of the call: positional, or every argument by keyword"""
        if case.get('call', 'positional') == 'keyword':
            return ctx.call(atf, obj=obj_, dx=dx_, tfs=tfs_, **kws)
        return ctx.call(atf, obj_, dx_, tfs_, **kws)
    # history inside one process: another valid call first (other convention / spacing / shape / precision)
    if pre == 'failed-call':
        # a callable without a sample spacing or grids, a transfer function of another shape, a callable that raises
        def broken(fx, fy):
            raise RuntimeError('user transfer function failed')
        _caught(ctx, 'apply_tf:no-dx', atf, _real(seed, shape, 'random', 41), None, [lambda fr: 1 / (1 + fr)], shift=shift)
        _caught(ctx, 'apply_tf:shape', atf, _real(seed, shape, 'random', 41), dx, [np.ones((ny + 1, nx + 2))], shift=shift)
        _caught(ctx, 'apply_tf:callable-raises', atf, _real(seed, shape, 'random', 41), dx, [lambda fr: 1 / (1 + fr), broken], shift=shift)
    elif pre == 'constants-other-shift':
        # constants and a grid-sensitive callable under the other convention, before the checked call
        ctx.call(atf, _real(seed, shape, 'random', 41), dx, [0.5, lambda fr: np.float64(3.0), np.array(2.0), lambda fr: fr != 0], shift=not shift)
    elif pre != 'none':
        psh = (nx + 1, ny + 2) if pre == 'other-shape' else shape
        if big:
            psh = (7, 9) if pre == 'other-shape' else shape
        po = _real(seed, psh, 'random', 41).astype(np.float32 if pre == 'float32' else np.float64)
        ctx.call(atf, po, dx * 3 if pre == 'other-dx' else dx, [lambda fx, fy, fr, ft: 1 / (1 + fr + 0 * fx + 0 * fy + 0 * ft)],
                 shift=(not shift) if pre == 'other-shift' else shift)
    okeep = o_in.copy()
    got_raw = call(o_in, dx_arg, tfs, **kw)
    got = np.asarray(got_raw)
    got_keep = np.array(got, copy=True)
    U.check_shape(got, shape, bucket, desc)
    ctx.require(got.dtype.kind == 'f', bucket + ':dtype', 'returned dtype %s' % got.dtype)

    def args_untouched(when):
        _unchanged(ctx, o_in, okeep, 'apply_tf', 'the object (%s)' % when)
        for i, (t, k) in enumerate(zip(handed, keeps)):
            if k is not None:
                _unchanged(ctx, t, k, 'apply_tf', 'transfer function %d of %d (%s; %s)' % (i, len(handed), when, desc))
        for g in gkeep:
            _unchanged(ctx, kw[g], gkeep[g], 'apply_tf', 'the user grid %s (%s)' % (g, when))
        for v, k in stored:
            _unchanged(ctx, v, k, 'apply_tf', 'the array returned by a callable transfer function (%s; %s)' % (when, desc))
        if container != 'ndarray':
            ctx.require(len(tfs) == len(handed) and all(p is q for p, q in zip(tfs, handed)), 'apply_tf:argument-modified',
                        'the sequence of transfer functions itself was changed (%s)' % when)
    args_untouched('after the first call')
    U.check_close(got, want, rt, bucket + ':oracle' + tb, '%s: vs ifft2(fft2(o) * prod T)' % desc, atol=rt * 0.1 * scale)
    # the same call again is the same image (the operator is a function of its arguments)
    twice = np.asarray(call(o_in, dx_arg, tfs, **kw))
    U.check_close(twice, got_keep, 1e-12, 'apply_tf:%s:not-repeatable' % conv_name, '%s: second identical call differs from the first' % desc, atol=1e-13 * scale)
    # list == product (metamorphic, same convention); the order of the list does not matter (reversed, rotated by one)
    if len(specs) > 1:
        one = np.asarray(ctx.call(atf, o_in, dx_arg, [T.copy()], shift=shift))
        U.check_close(got, one, rt, 'apply_tf:%s:list-vs-product' % conv_name + (':constant-entry' if has_scalar else ''),
                      '%s: list of %d vs their product' % (desc, len(specs)), atol=rt * 0.1 * scale)
        if container != 'ndarray' and case.get('reorder', True):
            seq = list(tfs)
            for name, perm in (('reversed', seq[::-1]), ('rotated', seq[1:] + seq[:1])):
                other = np.asarray(call(o_in, dx_arg, tuple(perm) if container == 'tuple' else perm, **kw))
                U.check_close(other, got, rt, 'apply_tf:%s:order-of-the-list' % conv_name + (':constant-entry' if has_scalar else ''),
                              '%s: the same entries %s' % (desc, name), atol=rt * 0.1 * scale)
    # constants: [c] is c times the object, and a constant commutes with the convention (shift=True and shift=False agree)
    if has_scalar and abs(eo) <= 100:
        osc_ = float(np.max(np.abs(o)))
        for i, (s, t) in enumerate(zip(specs, handed)):
            if s['kind'] not in ('scalar', 'const_callable'):
                continue
            cval = _scalar_value(_scalar_obj(s['value'], s['as'])) * (_gain_of(s) if s['kind'] == 'const_callable' else 1.0)
            for sh in (True, False):
                alone = np.asarray(ctx.call(atf, o_in, dx_any, [t], shift=sh))
                U.check_close(alone, (cval * o).real, rt, 'apply_tf:%s:constant-alone' % ('shifted' if sh else 'unshifted'),
                              'shape %s %s object, tfs=[%r] (entry %d of the list, %s), shift=%s: expected %r times the object' % (
                                  list(shape), odt, s, i, type(t).__name__, sh, cval), atol=rt * 0.1 * osc_ * abs(cval) + 1e-300)
    # all-ones transfer function is the identity, as an array (of any dtype) and as a callable
    rti = 1e-5 if odt == np.float32 else 1e-12
    osc = float(np.max(np.abs(o)))
    for name, ones in (('float', np.ones(shape)), ('int', np.ones(shape, np.int64)), ('bool', np.ones(shape, bool)), ('constant 1', 1), ('constant 1.0 (0-d)', np.array(1.0)),
                       ('row of ones', np.ones((1, nx)))):
        ident = np.asarray(ctx.call(atf, o_in, dx_arg, [ones], shift=shift_arg))
        U.check_close(ident, o, rti, 'apply_tf:%s:ones-identity' % conv_name, 'shape %s shift=%r %s object: all-ones %s array' % (list(shape), shift_arg, odt, name), atol=rti * 0.1 * osc)
    ones_fn = ((lambda fy, fx: np.ones(np.broadcast_shapes(np.shape(fx), np.shape(fy)))) if seed % 2 else
               (lambda fx, fy: np.ones(np.broadcast_shapes(np.shape(fx), np.shape(fy)))))
    for name, fn in (('array of ones', ones_fn), ('the constant 1.0', lambda fr: 1.0)):
        ident = np.asarray(ctx.call(atf, o_in, dx_any, [fn], shift=shift_arg))
        U.check_close(ident, o, rti, 'apply_tf:%s:ones-identity' % conv_name, 'shape %s shift=%r %s object: callable returning %s' % (list(shape), shift_arg, odt, name), atol=rti * 0.1 * osc)
    # the object itself handed over as the (real) transfer function too: one array object in both roles vs an equal copy
    if case.get('selftf', True) and abs(eo) <= 140:
        To = np.fft.ifftshift(o) if shift else o
        want_s = np.fft.ifft2(np.fft.fft2(o) * To).real
        ssc = float(np.max(np.abs(o)) * np.sum(np.abs(o))) + 1e-300
        got_s = np.asarray(ctx.call(atf, o_in, dx_arg, [o_in], shift=shift))
        U.check_close(got_s, want_s, rt, 'apply_tf:%s:same-object' % conv_name, 'shape %s shift=%s %s object (%s, 1e%d) also given as the transfer function (same array object)' % (
            list(shape), shift, odt, olay, eo), atol=rt * 0.1 * ssc)
        got_c = np.asarray(ctx.call(atf, o_in, dx_arg, [o_in.copy()], shift=shift))
        U.check_close(got_s, got_c, rt, 'apply_tf:%s:same-object:vs-copy' % conv_name, 'shape %s shift=%s %s object: tfs=[obj] vs tfs=[obj.copy()]' % (list(shape), shift, odt), atol=rt * 0.1 * ssc)
        got_2 = np.asarray(ctx.call(atf, o_in, dx_arg, [o_in, o_in], shift=shift))
        U.check_close(got_2, np.fft.ifft2(np.fft.fft2(o) * To * To).real, rt, 'apply_tf:%s:same-object' % conv_name, 'shape %s shift=%s %s object (%s, 1e%d): tfs=[obj, obj]' % (
            list(shape), shift, odt, olay, eo), atol=rt * 0.1 * ssc * float(np.max(np.abs(o))))
    args_untouched('at the end')
    U.check_equal(np.asarray(got_raw), got_keep, 'apply_tf:result-overwritten', '%s: the first result changed during later calls' % desc)
    # ---- the caller edits what it owns between two calls: an array of the list and the object change in place (same array objects);
    # the next call describes the *current* data
    if case.get('edit', True) and abs(eo) <= 100:
        arrs = [tfs[i] for i in range(len(tfs))] if container == 'ndarray' else handed
        edited = set()
        for t in arrs:
            if callable(t) or np.ndim(t) == 0 or id(t) in edited or t is o_in:
                continue
            edited.add(id(t))
            if t.dtype.kind == 'b':
                t[...] = ~t
            elif t.dtype.kind == 'u':
                t[...] = t + 1
            else:
                t[...] = t * 2 - (1 if t.dtype.kind == 'i' else 0.25)
            break
        if odt.kind == 'f' and ny * nx > 1:
            o_in[...] = np.roll(o_in, (1, -1), axis=(0, 1)) * 0.5
        vs = [vals[i] if callable(t) else np.broadcast_to(_f64(t), shape) for i, t in enumerate(arrs)]
        T2 = np.array(np.broadcast_to(functools.reduce(lambda p, q: p * q, vs), shape))
        T20 = np.fft.ifftshift(T2) if shift else T2
        o2 = _f64(o_in)
        want2 = np.fft.ifft2(np.fft.fft2(o2) * T20).real
        got2 = np.asarray(call(o_in, dx_arg, tfs, **kw))
        sc2 = float(np.max(np.abs(o2)) * np.max(np.abs(T20))) + 1e-300
        ctx.label('edited-in-place:' + ('tf+object' if edited else 'object-only'))
        U.check_close(got2, want2, rt, 'apply_tf:%s:after-arguments-edited-in-place' % conv_name,
                      '%s: called again after %s the object had been edited in place' % (desc, 'an array of the list and' if edited else ''), atol=rt * 0.1 * sc2)
        U.check_equal(np.asarray(got_raw), got_keep, 'apply_tf:result-overwritten', '%s: the first result changed when the arguments were edited in place' % desc)


# ---- MTF / PTF / OTF ---------------------------------------------------------------------------------
# ---- transfer functions given as methods of objects whose parameters are swept; frequency axes handed out by the library and edited by the caller -------
class _Blur:
    """a transfer function with a parameter, given to the library 'as a class method' (documented way of currying parameters)"""

    def __init__(self, width, kind):
        self.width = width
        self.kind = kind

    def gauss(self, fr):
        return np.exp(-(fr * self.width) ** 2)

    def smear_x(self, fx):
        return np.sinc(fx * self.width)

    def lorentz(self, fx, fy):
        return 1.0 / (1.0 + (self.width * fx) ** 2 + (0.5 * self.width * fy) ** 2)

    def __call__(self, fr):
        return 1.0 / (1.0 + (fr * self.width) ** 2)

    def value(self, fx, fy):
        fr = np.hypot(fx, fy)
        return {'gauss': np.exp(-(fr * self.width) ** 2), 'smear_x': np.sinc(fx * self.width) + 0 * fy,
                'lorentz': 1.0 / (1.0 + (self.width * fx) ** 2 + (0.5 * self.width * fy) ** 2), 'instance': 1.0 / (1.0 + (fr * self.width) ** 2)}[self.kind]

    def as_tf(self):
        return self if self.kind == 'instance' else getattr(self, self.kind)


def strat_tfobj(tier):
    ax = st.sampled_from([4, 5, 6, 7, 8, 9, 12, 16, 17] + ([31, 32] if tier == 'thorough' else []))
    w = st.sampled_from([0.0, 0.3, 0.7, 1.0, 1.9, 3.5])
    return st.fixed_dictionaries({
        'shape': st.tuples(ax, ax).map(list), 'dx': st.sampled_from([1.0, 0.5, 0.25, 2.0]), 'shift': st.booleans(),
        'kinds': st.lists(st.sampled_from(['gauss', 'smear_x', 'lorentz', 'instance']), min_size=1, max_size=2),
        'widths': st.lists(st.tuples(w, w).map(list), min_size=2, max_size=4),
        'scribble': st.sampled_from(['none', 'none', 'before', 'between', 'render-synthetic-surface']), 'rebuild_tf': st.booleans(), 'seed': U.seeds})


def check_tfobj(case, ctx):
    """apply_transfer_functions with transfer functions given as bound methods / callable instances of objects whose parameters are swept between calls
    (same objects, same image size): every call equals the explicit product with the transfer function of the *current* parameters, evaluated on
    the harness's own frequency grids.  Optionally the caller first asks the library for frequency axes of the same sampling and edits what it got."""
    from prysm.convolution import apply_transfer_functions
    from prysm.fttools import forward_ft_unit
    ny, nx = case['shape']
    dx, shift = case['dx'], case['shift']
    obj = _real(case['seed'], (ny, nx), 'random', 3)
    fy1 = np.fft.fftfreq(ny, dx)
    fx1 = np.fft.fftfreq(nx, dx)
    if shift:
        fy1, fx1 = np.fft.fftshift(fy1), np.fft.fftshift(fx1)
    FX, FY = np.meshgrid(fx1, fy1)
    blurs = [_Blur(0.0, k) for k in case['kinds']]
    tfs = [b.as_tf() for b in blurs]
    ctx.nt(True)
    ctx.label('shift' if shift else 'no-shift', 'scribble:' + case['scribble'], *['tf:' + k for k in case['kinds']])

    def scribble():
        # what a caller may do with arrays the library handed out: they are the caller's
        for n in (ny, nx):
            for sh in (True, False):
                a = ctx.call(forward_ft_unit, dx, n, sh)
                if isinstance(a, np.ndarray) and a.flags.writeable:
                    a[...] = 123.0
    if case['scribble'] == 'before':
        scribble()
    elif case['scribble'] == 'render-synthetic-surface':
        # another public consumer of the same frequency axes, with the sampling of this image (size / (samples - 1) == dx)
        from prysm.interferogram import render_synthetic_surface, ab_psd
        np.random.seed(case['seed'] % 1000)
        for n in {ny, nx}:
            if n >= 4:
                try:
                    render_synthetic_surface(dx * (n - 1), n, rms=1.0, mask=None, psd_fcn=ab_psd, a=1.0, b=2.0)
                except Exception:       # noqa - nothing is asserted about this request
                    ctx.label('render-synthetic-surface:raised')
    kept = []
    for step, ws in enumerate(case['widths']):
        if step == 1 and case['scribble'] == 'between':
            scribble()
        for b, wv in zip(blurs, ws):
            b.width = wv
        if case['rebuild_tf']:
            tfs = [b.as_tf() for b in blurs]          # a new bound-method object of the same owner every call
        got = np.asarray(ctx.call(apply_transfer_functions, obj, dx, list(tfs), shift=shift))
        TF = np.ones((ny, nx))
        for b in blurs:
            TF = TF * b.value(FX, FY)
        if shift:
            want = np.fft.fftshift(np.fft.ifft2(np.fft.ifftshift(np.fft.fftshift(np.fft.fft2(np.fft.ifftshift(obj))) * TF))).real
        else:
            want = np.fft.ifft2(np.fft.fft2(obj) * TF).real
        U.check_close(got, want, 0, 'apply_tf:object-callables:step%d' % min(step, 1) + (':after-' + case['scribble'] if case['scribble'] != 'none' else ''),
                      'call %d with widths %r (%s), shape %s dx %g shift %r' % (step, ws, case['kinds'], case['shape'], dx, shift),
                      atol=1e-10 * max(float(np.abs(obj).max()), 1e-300))
        for j, (g0, w0) in enumerate(kept):
            U.check_equal(g0, w0, 'apply_tf:object-callables:result-overwritten', 'the result of call %d changed during call %d' % (j, step))
        kept.append((got, got.copy()))


def _psf(case):
    shape, seed, kind = tuple(case['shape']), case['seed'], case['kind']
    ny, nx = shape
    r = U.rng_of(seed, 7)
    yy = (np.arange(ny) - ny // 2)[:, None] * 1.0
    xx = (np.arange(nx) - nx // 2)[None, :] * 1.0
    oy, ox = case['off']
    oy, ox = (oy % ny) - ny // 2 if ny > 1 else 0, (ox % nx) - nx // 2 if nx > 1 else 0
    if kind == 'random':
        p = r.uniform(0, 1, shape)
        p[ny // 2, nx // 2] += 0.05
    elif kind == 'sparse':
        p = r.uniform(0, 1, shape) * (r.uniform(0, 1, shape) < 0.3)
        p[(ny // 2 + oy) % ny, (nx // 2 + ox) % nx] += 0.5
    elif kind == 'gauss':
        s = 0.4 + 3 * r.uniform()
        p = np.exp(-((yy - oy * 0.5) ** 2 + (xx - ox * 0.5) ** 2) / (2 * s * s))
    elif kind == 'airy':
        rad = 0.15 + 0.3 * r.uniform()
        ap = (np.hypot(yy / max(ny, 2), xx / max(nx, 2)) <= rad).astype(float)
        ap[ny // 2, nx // 2] = 1
        ph = np.exp(2j * np.pi * r.uniform(0, 0.3) * ((yy / max(ny, 2)) ** 2 * 4 + xx / max(nx, 2)))
        p = np.abs(np.fft.fftshift(np.fft.fft2(np.fft.ifftshift(ap * ph)))) ** 2
    elif kind == 'impulse':
        p = np.zeros(shape)
        p[(ny // 2 + oy) % ny, (nx // 2 + ox) % nx] = 0.5 + r.uniform()
    else:
        raise ValueError(kind)
    return np.ascontiguousarray(p, dtype=np.float64), (oy, ox)


MTF_DT = ['float64', 'bool', 'float32', 'int64', 'float64', 'uint16', 'float32', 'uint8', 'float64', 'float64']
# decimal exponent of the PSF's amplitude: total energies from 1e-300 to 1e300, in particular far below the machine epsilon of the dtype
MTF_SCALE64 = [0, 0, 0, -300, -250, -100, -30, -17, -10, -5, 5, 100, 300]
MTF_SCALE32 = [0, 0, -30, -20, -12, -9, -8, 9, 30]


# what happens to the PSF between two rounds of calls (same container object / same array object): the public .data attribute of the
# container is replaced by another PSF of the same shape, or the array is edited in place (assigned / multiplied by a non-constant
# pattern), the container's dx is changed, a copy() of the used container receives the new PSF
EDITS = ['none', 'reassign', 'inplace', 'inplace-op', 'dx', 'reassign+dx', 'copy-reassign', 'reassign', 'inplace']
_ORDERS = [(0, 1, 2), (0, 2, 1), (1, 0, 2), (1, 2, 0), (2, 0, 1), (2, 1, 0)]


def strat_mtf(tier):
    return _shape(tier).flatmap(lambda s: st.fixed_dictionaries({
        'shape': st.just(s), 'seed': U.seeds, 'kind': st.sampled_from(['random', 'sparse', 'gauss', 'airy', 'impulse']),
        'off': st.tuples(st.integers(0, s[0] - 1), st.integers(0, s[1] - 1)).map(list),
        'dx': st.sampled_from([1.0, 0.5, 4.4, 0.03, 1e-6, 1e6]), 'via': st.sampled_from(['array', 'array', 'array-kw', 'richdata', 'richdata']),
        'dtype': st.sampled_from(MTF_DT), 'layout': U.layouts, 'e64': st.sampled_from(MTF_SCALE64), 'e32': st.sampled_from(MTF_SCALE32),
        'pre': st.sampled_from(['none', 'none', 'other-shape', 'float32', 'bright', 'failed-call']),
        'edit': st.sampled_from(EDITS), 'kind2': st.sampled_from(['random', 'sparse', 'gauss', 'airy', 'impulse']),
        'off2': st.tuples(st.integers(0, s[0] - 1), st.integers(0, s[1] - 1)).map(list), 'order2': st.integers(0, 5),
        'backend': U.fft_backends, 'dx_as': st.sampled_from(['py', 'py', 'np', '0d', 'int'])}))


def _partners(n):
    """indices i of an axis whose mirror 2c - i exists, and the mirrors"""
    i = np.arange(n)
    j = 2 * (n // 2) - i
    ok = (j >= 0) & (j < n)
    return i[ok], j[ok]


def _psf_as(p, dt, e):
    """the non-negative float64 PSF p with peak normalised to 1, as a valid PSF of dtype dt (floats scaled by 10**e)"""
    dt = np.dtype(dt)
    p = p / p.max()
    if dt.kind == 'f':
        return (p * 10.0 ** e).astype(dt)
    if dt.kind == 'b':
        return p >= 0.5
    return np.rint(p * (200 if dt.itemsize == 1 else 1000)).astype(dt)


def _mtf_props(ctx, m, ph, ot, p64, shape, dx, dt, desc, hist=''):
    """the statement's MTF / OTF / PTF clauses for the three results m, ph, ot (RichData) of the non-negative PSF p64 (float64 values
    of what was handed over): explicit-DFT oracle, DC, range, point symmetry, mutual consistency, frequency spacing.  `hist` is
    appended to the buckets of results obtained after the PSF of the same container / array object was changed."""
    ny, nx = shape
    cy, cx = ny // 2, nx // 2
    f32 = dt == np.float32
    pn = p64 / p64.max()     # the oracle works on the peak-normalised values (the quantities under test are scale invariant)
    total = float(pn.sum()) * float(p64.max())
    eps = float(np.finfo(dt).eps) if dt.kind == 'f' else float(np.finfo(np.float64).eps)
    M, PH, OT = np.asarray(m.data), np.asarray(ph.data), np.asarray(ot.data)
    for name, arr in (('mtf', M), ('ptf', PH), ('otf', OT)):
        U.check_shape(arr, shape, name + '_from_psf', desc)
    ctx.require(M.dtype.kind == 'f' and PH.dtype.kind == 'f' and OT.dtype.kind == 'c', 'otf:dtype', 'dtypes %s %s %s' % (M.dtype, PH.dtype, OT.dtype))
    M, PH, OT = M.astype(np.float64), PH.astype(np.float64), OT.astype(np.complex128)
    t11, t12, t13, t14 = (5e-5, 5e-5, 1e-6, 5e-5) if f32 else (1e-11, 1e-12, 1e-13, 1e-12)
    # independent reference: explicit DFT about n//2, normalised by the DC value = sum(psf)
    F = U.ref_dft(pn, 1, shape) * math.sqrt(ny * nx)
    ctx_sum = float(pn.sum())
    assert abs(F[cy, cx] - ctx_sum) <= 1e-9 * ctx_sum
    ref = F / ctx_sum
    sb = ':energy<eps' if total < eps else ''
    U.check_close(OT, ref, t11, 'otf_from_psf:oracle' + sb + hist, '%s: OTF vs explicit DFT/sum' % desc, atol=t11 * 0.1)
    U.check_close(M, np.abs(ref), t11, 'mtf_from_psf:oracle' + sb + hist, '%s: MTF vs |explicit DFT|/sum' % desc, atol=t11 * 0.1)
    ctx.within(abs(M[cy, cx] - 1), t13, 'mtf_from_psf:dc' + sb + hist, '%s: MTF at zero frequency [%d,%d] = %.17g' % (desc, cy, cx, M[cy, cx]))
    ctx.require(abs(OT[cy, cx] - 1) <= t13 and abs(PH[cy, cx]) <= t13, 'otf_from_psf:dc' + sb + hist, '%s: OTF(0)=%r PTF(0)=%r' % (desc, OT[cy, cx], PH[cy, cx]))
    ctx.require(float(M.max()) <= 1 + t12 and float(M.min()) >= 0, 'mtf_from_psf:range', '%s: MTF range [%.17g, %.17g]' % (desc, M.min(), M.max()))
    iy, jy = _partners(ny)
    ix, jx = _partners(nx)
    ctx.tally('mirror_pairs_checked', len(iy) * len(ix))
    U.check_close(M[np.ix_(iy, ix)], M[np.ix_(jy, jx)], t14, 'mtf_from_psf:point-symmetry', '%s: MTF[c+k] vs MTF[c-k]' % desc, atol=t14 * 0.1)
    U.check_close(OT[np.ix_(iy, ix)], np.conj(OT[np.ix_(jy, jx)]), t14, 'otf_from_psf:hermitian', '%s: OTF[c+k] vs conj OTF[c-k]' % desc, atol=t14 * 0.1)
    U.check_close(M * np.exp(1j * PH), OT, t14, 'otf:consistency' + sb + hist, '%s: MTF exp(i PTF) vs OTF' % desc, atol=t14 * 0.1)
    ctx.require(float(np.max(np.abs(PH))) <= math.pi + (1e-6 if f32 else 1e-12), 'ptf_from_psf:range', '%s: |PTF| max %.17g' % (desc, np.max(np.abs(PH))))
    ctx.require(m.dx == ph.dx == ot.dx, 'otf:dx' + hist, '%s: frequency spacing differs: %r %r %r' % (desc, m.dx, ph.dx, ot.dx))
    if ny == nx:
        ctx.within(abs(m.dx - 1000 / (ny * dx)), 1e-12 * 1000 / (ny * dx), 'otf:dx' + hist, '%s: df=%r, expected 1000/(n dx)=%r' % (desc, m.dx, 1000 / (ny * dx)))
    return F / ctx_sum


def check_mtf(case, ctx):
    """MTF(0)=1, MTF<=1, MTF and OTF point-symmetric / Hermitian about n//2, OTF == MTF exp(i PTF) == explicit DFT / sum(psf);
    for PSFs of every dtype, layout and total energy; the PSF is left alone; results are independent of later calls."""
    with U.fft_backend(case.get('backend', 'scipy')):
        ctx.label('fft:' + case.get('backend', 'scipy'), 'dx-as:' + case.get('dx_as', 'py'))
        _check_mtf(case, ctx)


def _check_mtf(case, ctx):
    from prysm import otf
    from prysm._richdata import RichData
    shape, dx = tuple(case['shape']), case['dx']
    ny, nx = shape
    p, off = _psf(case)
    assert p.min() >= 0 and p.sum() > 0.04
    dt = np.dtype(case.get('dtype', 'float64'))
    e = case.get('e64', 0) if dt == np.float64 else (case.get('e32', 0) if dt == np.float32 else 0)
    lay, via, pre = case.get('layout', 'C'), case['via'], case.get('pre', 'none')
    if 'dtype' in case:
        p_in = U.relayout(_psf_as(p, dt, e), lay)
    else:
        p_in = p.copy()      # replays recorded before the dtype / scale dimensions existed
    pkeep = p_in.copy()
    p64 = _f64(p_in)
    assert p64.min() >= 0 and p64.max() > 0
    pn = p64 / p64.max()     # the oracle works on the peak-normalised values (the quantities under test are scale invariant)
    f32 = dt == np.float32
    cy, cx = ny // 2, nx // 2
    ctx.nt(ny % 2 == 1 or nx % 2 == 1 or ny != nx or off != (0, 0))
    total = float(pn.sum()) * float(p64.max())
    eps = float(np.finfo(dt).eps) if dt.kind == 'f' else float(np.finfo(np.float64).eps)
    ctx.label('parity:' + _parity(shape), 'psf:' + case['kind'], 'via:' + via, 'square' if ny == nx else 'nonsquare', 'dtype:%s' % dt, 'layout:' + lay,
              'energy:' + ('<eps' if total < eps else ('>1/eps' if total > 1 / eps else 'moderate')), 'pre:' + pre)
    # history inside one process
    if pre == 'other-shape':
        ctx.call(otf.mtf_from_psf, np.ones((nx + 2, ny + 1)), dx * 2)
    elif pre == 'float32':
        ctx.call(otf.mtf_from_psf, np.ones(shape, np.float32), dx)
    elif pre == 'bright':
        ctx.call(otf.mtf_from_psf, 1e6 * (1 + _real(case['seed'], shape, 'random', 9) ** 2), dx)

    def mkarg(arr, dx=dx):
        dx = _dx_obj(dx, case.get('dx_as', 'py'))      # the spacing as a Python float / int, a numpy scalar or a 0-d array
        if via == 'richdata':
            return (RichData(arr, dx, None),), {}
        if via == 'array-kw':
            return (), {'psf': arr, 'dx': dx}
        return (arr, dx), {}
    a, k = mkarg(p_in)
    if pre == 'failed-call':
        # the array form without its sample spacing is refused; a container that has no spacing yet fails, receives its dx and is used
        for fn in (otf.mtf_from_psf, otf.otf_from_psf, otf.ptf_from_psf):
            _caught(ctx, 'otf:no-dx', fn, p_in)
        if via == 'richdata':
            a[0].dx = None
            for fn in (otf.ptf_from_psf, otf.mtf_from_psf, otf.otf_from_psf):
                _caught(ctx, 'otf:container-without-dx', fn, a[0])
            a[0].dx = dx
    m = ctx.call(otf.mtf_from_psf, *a, **k)
    ph = ctx.call(otf.ptf_from_psf, *a, **k)
    ot = ctx.call(otf.otf_from_psf, *a, **k)
    M, PH, OT = np.asarray(m.data), np.asarray(ph.data), np.asarray(ot.data)
    keepM, keepPH, keepOT = M.copy(), PH.copy(), OT.copy()
    desc = 'psf %s shape %s seed %d off %r dtype %s layout %s total energy %.3g via %s' % (case['kind'], list(shape), case['seed'], list(off), dt, lay, total, via)
    _unchanged(ctx, p_in, pkeep, 'otf', 'the psf (%s)' % desc)
    _mtf_props(ctx, m, ph, ot, p64, shape, dx, dt, desc)
    # the caller owns its results: another PSF of the same shape through the same routines, then the first results again
    other = np.roll(pkeep, (1, 1), axis=(0, 1)) if p_in.size > 1 else pkeep.copy()
    a2, k2 = mkarg(np.ascontiguousarray(other))
    for fn in (otf.mtf_from_psf, otf.ptf_from_psf, otf.otf_from_psf):
        ctx.call(fn, *a2, **k2)
    for name, res, keep in (('mtf', m, keepM), ('ptf', ph, keepPH), ('otf', ot, keepOT)):
        U.check_equal(np.asarray(res.data), keep, '%s_from_psf:result-overwritten' % name, '%s: the first result changed after a later call with another PSF' % desc)
    # ... and the library keeps no reference to them: edit them in place, same call again
    for res in (m, ph, ot):
        np.asarray(res.data)[...] = 0
    for name, fn, keep in (('mtf', otf.mtf_from_psf, keepM), ('ptf', otf.ptf_from_psf, keepPH), ('otf', otf.otf_from_psf, keepOT)):
        again = np.asarray(ctx.call(fn, *a, **k).data)
        if name == 'ptf':   # a phase of +-pi may flip its sign between evaluations only if the arithmetic differs; it does not: same code path
            pass
        U.check_close(again, keep, 1e-6 if f32 else 1e-12, '%s_from_psf:aliased-state' % name, '%s: same call after the first result was zeroed in place' % desc, atol=1e-7 if f32 else 1e-13)
    _unchanged(ctx, p_in, pkeep, 'otf', 'the psf (%s)' % desc)
    # ---- the PSF changes between two rounds of calls on the same container object / the same array object: the public .data
    # attribute is replaced, the array is edited in place, dx is changed, a copy() of the used container receives the new PSF;
    # the second round must describe the *current* PSF (same oracle as above, applied to the current data)
    edit = case.get('edit', 'none')
    ctx.label('edit:' + edit)
    if edit == 'none':
        return
    q, off2 = _psf(dict(case, kind=case.get('kind2', 'random'), seed=case['seed'] + 1, off=case.get('off2', case['off'])))
    q_in = _psf_as(q, dt, e)
    dx2 = dx * 2.5 if edit in ('dx', 'reassign+dx') else dx
    cont = a[0] if via == 'richdata' else None
    if edit == 'copy-reassign' and cont is not None:
        cont = ctx.call(cont.copy)
    if edit in ('reassign', 'reassign+dx', 'copy-reassign'):
        cur = U.relayout(q_in, lay)                       # another array object
    elif edit == 'dx':
        cur = p_in
    else:
        cur = p_in if cont is None else cont.data         # the same array object, new contents
        ctx.require(cont is None or cur is p_in, 'richdata:data-not-kept', 'RichData(data, dx, None).data is not the array that was handed over')
        if edit == 'inplace-op' and dt.kind == 'f':
            yy, xx = np.indices(shape)
            cur *= (1.0 + 0.75 * np.cos(1.3 * yy + 0.4) * np.sin(0.9 * xx + 0.2)).astype(dt)      # non-constant, in [0.25, 1.75]
        elif edit == 'inplace-op' and dt.kind in 'iu':
            yy, xx = np.indices(shape)
            cur[...] = np.rint(_f64(cur) * (0.75 + 0.25 * np.cos(1.3 * yy + 0.4) * np.sin(0.9 * xx + 0.2))).astype(dt)
        else:
            cur[...] = q_in
    if cont is not None:
        if edit in ('reassign', 'reassign+dx', 'copy-reassign'):
            cont.data = cur
        if dx2 != dx:
            cont.dx = dx2
        a3, k3 = (cont,), {}
    else:
        a3, k3 = mkarg(cur, dx2)
    ckeep = np.array(cur, copy=True)
    c64 = _f64(cur)
    assert c64.min() >= 0 and c64.max() > 0
    fns = (otf.mtf_from_psf, otf.ptf_from_psf, otf.otf_from_psf)
    res = [None, None, None]
    for i in _ORDERS[case.get('order2', 0) % 6]:
        res[i] = ctx.call(fns[i], *a3, **k3)
    desc2 = '%s; then edit=%s (new psf %s off %r, dx %r -> %r), second round of calls in order %r' % (
        desc, edit, case.get('kind2', 'random'), list(off2), dx, dx2, list(_ORDERS[case.get('order2', 0) % 6]))
    ref1 = U.ref_dft(pn, 1, shape) * math.sqrt(ny * nx) / float(pn.sum())
    hist = ':after-%s' % {'reassign': 'data-reassigned', 'reassign+dx': 'data-reassigned', 'copy-reassign': 'copy-data-reassigned', 'dx': 'dx-changed'}.get(edit, 'data-edited-in-place')
    ref2 = _mtf_props(ctx, res[0], res[1], res[2], c64, shape, dx2, dt, desc2, hist=hist if via == 'richdata' else hist + ':array')
    ctx.label('edit-changes-otf' if float(np.max(np.abs(ref2 - ref1))) > 1e-3 else 'edit-keeps-otf')
    _unchanged(ctx, cur, ckeep, 'otf', 'the current psf (%s)' % desc2)


CLAUSES = [
    HypClause('conv_laws', strat_conv, check_conv, examples={'quick': 500, 'thorough': 1500}, shards={'quick': 3, 'thorough': 12}),
    EnumClause('conv_impulse_positions', enum_impulse, check_impulse, shards={'quick': 4, 'thorough': 12}),
    HypClause('transfer_functions', strat_tf, check_tf, examples={'quick': 500, 'thorough': 2500}, shards={'quick': 3, 'thorough': 12}),
    HypClause('transfer_functions_large', lambda tier: strat_tf(tier, big=True), check_tf, examples={'quick': 8, 'thorough': 40}, shards={'quick': 3, 'thorough': 6}),
    HypClause('transfer_function_objects', strat_tfobj, check_tfobj, examples={'quick': 300, 'thorough': 2000}, shards={'quick': 2, 'thorough': 6}),
    HypClause('mtf_otf_ptf', strat_mtf, check_mtf, examples={'quick': 600, 'thorough': 2500}, shards={'quick': 2, 'thorough': 8}),
]
