"""C06 - every backprop routine returns the true gradient of its forward routine."""
import math

import numpy as np
from hypothesis import strategies as st

from vlib.core import HypClause
from vlib import util as U

RULE = ("Hypothesis cases over forward inputs and upstream gradients (real and complex), non-square shapes, pupil and mask "
        "of unequal size, Q / sampling / shift arguments, real and complex masks and Lyot stops (incl. None), node parameters "
        "(a, x0, y0, tau, 2-6 levels, 1-3 leading dimensions), masked / unmasked costs, DM geometries (shift, pad, crop, "
        "resample).  Oracles: linear maps satisfy the adjoint identity <y, A x> = <A^H y, x> with complex x, y "
        "(tolerance 1e-10 * |y| |A x|); non-linear real-valued costs match the central directional derivative "
        "(c(x+hv)-c(x-hv))/2h at two step sizes (accepted if either agrees to 1e-6 relative); scalar activations match the "
        "complex-step derivative of forward.  Non-trivial = complex mask, or unequal pupil/mask shapes, or non-square, or a "
        "non-zero shift, or >= 2 leading dims, or a masked cost, or a DM with pad/crop/shift/resample.")
ASSUMPTIONS = ["float64 inner products", "finite differences at h=1e-4 and 1e-6 relative to the input scale; a wrong gradient is O(1) off",
               "activation .backprop(x) is d forward/dx at x (the contract fixed by the repository's own tests)",
               "czt gradient backpropagation is documented as not implemented and is not generated"]


def _reset():
    from prysm.fttools import mdft, czt
    mdft.clear()
    czt.clear()


def adjoint_check(ctx, Ax, x, AHy, y, bucket, what, tol=1e-10):
    Ax = np.asarray(Ax)
    AHy = np.asarray(AHy)
    if Ax.shape != y.shape:
        ctx.fail(bucket + ':shape', '%s: forward output shape %s, expected %s' % (what, Ax.shape, y.shape))
    if AHy.shape != x.shape:
        ctx.fail(bucket + ':shape', '%s: backprop output shape %s, expected the forward input shape %s' % (what, AHy.shape, x.shape))
    lhs = U.inner(y, Ax)
    rhs = U.inner(AHy, x)
    scale = float(np.linalg.norm(y) * np.linalg.norm(Ax)) + float(np.linalg.norm(AHy) * np.linalg.norm(x)) + 1e-300
    # every operator checked here has norm of order one (normalised transforms, masks and stops of modulus <= ~1): when A x is zero by
    # cancellation (Babinet: f - T_(1-m) f on a one-sample pupil) both inner products are rounding residue of size eps |x| |y|, which is
    # the floor of the comparison (found by a background sweep)
    floor = 1e-13 * float(np.linalg.norm(y) * np.linalg.norm(x))
    err = max(0.0, abs(lhs - rhs) - floor) / scale
    ctx.require(np.isfinite(err) and err <= tol, bucket, '%s: <y,Ax>=%r but <A^H y,x>=%r (relative mismatch %.3g)' % (what, complex(lhs), complex(rhs), err))


FD_FLOOR = 1e-7


def directional_check(ctx, cost, x, grad, v, bucket, what, rtol=1e-6, atol=0.0):
    """cost: callable x -> float.  grad: reverse-mode gradient with convention dc = Re<grad, dx>."""
    grad = np.asarray(grad)
    if grad.shape != np.asarray(x).shape:
        ctx.fail(bucket + ':shape', '%s: gradient shape %s, expected %s' % (what, grad.shape, np.asarray(x).shape))
    pred = float(np.real(U.inner(grad, v)))
    xa = np.abs(np.asarray(x))
    xa = xa[np.isfinite(xa)]            # samples a mask excludes may hold NaN / inf
    xs = max(float(xa.max()) if xa.size else 1.0, 1.0)
    best = float('inf')
    cands = []
    for h in (1e-4 * xs, 1e-6 * xs):
        cp = cost(x + h * v)
        cm = cost(x - h * v)
        fd = (cp - cm) / (2 * h)
        cands.append(fd)
        # the finite difference itself is only good to a few hundred eps |c| / h (rounding of the cost evaluations): rtol * FD_FLOOR * |c| / h = 1e-13 |c| / h
        # is the smallest mismatch that means anything (a thorough run met a saturated softmax, derivative 4.5e-8 of a cost of 0.1, whose four
        # estimates differed among themselves by 1e-13 = 2e-6 relative; kept as a must-pass replay)
        scale = max(abs(fd), abs(pred), FD_FLOOR * (abs(cp) + abs(cm)) / h if h > 0 else 0, 1e-300)
        best = min(best, abs(fd - pred) / scale)
    # a fourth-order (five-point) estimate as well: strongly curved costs (small softmax temperatures, steep activations) leave a
    # second-order truncation error of a few 1e-6 in the two-point estimates above
    for h in (1e-3 * xs, 1e-4 * xs):
        c2p, cp, cm, c2m = cost(x + 2 * h * v), cost(x + h * v), cost(x - h * v), cost(x - 2 * h * v)
        fd = (-c2p + 8 * cp - 8 * cm + c2m) / (12 * h)
        cands.append(fd)
        scale = max(abs(fd), abs(pred), FD_FLOOR * (abs(cp) + abs(cm)) / h, 1e-300)
        best = min(best, abs(fd - pred) / scale)
    # absolute floor: both essentially zero
    gnorm = float(np.linalg.norm(grad) * np.linalg.norm(v))
    ok = best <= rtol or (abs(pred) <= 1e-9 * max(gnorm, 1e-300) and all(abs(c) <= 1e-7 * max(gnorm, 1e-12) for c in cands)) \
        or (atol > 0 and min(abs(c - pred) for c in cands) <= atol)     # the finite-difference estimates converge as the step shrinks: at an exact-fit
        # minimum the coarse steps keep a third-order residue of ~1e-9 while the fine ones reach 1e-13 (a wrong gradient misses every estimate)
    ctx.require(np.isfinite(pred) and ok, bucket, '%s: Re<grad,v>=%.10g but directional derivative=%r (rel mismatch %.3g)' % (what, pred, cands, best))


_MAG = st.sampled_from([0, 0, 0, -9, 12, -30, 60, -100])


def _shift():
    sh = st.one_of(st.just(0), st.integers(-3, 3), st.integers(-6, 6).map(lambda k: k / 2), U.nice_float(-4, 4).map(lambda v: round(v, 3)))
    return st.one_of(st.just([0, 0]), st.tuples(sh, sh).map(list))


def _Q():
    q1 = st.one_of(st.integers(1, 3), U.nice_float(0.4, 4).map(lambda v: round(v, 3)))
    return st.one_of(q1, st.tuples(q1, q1).map(list))


# ---- matrix DFT -------------------------------------------------------------------------------------------
def strat_mdft(tier):
    nmax = {'quick': 12, 'thorough': 32}[tier]
    ax = U.axis_len(nmax)
    return st.fixed_dictionaries({'shape': st.tuples(ax, ax).map(list), 'out': st.one_of(st.tuples(ax, ax).map(list), ax),
                                  'Q': _Q(), 'shift': _shift(), 'fwd': st.booleans(), 'layout': U.layouts, 'seed': U.seeds, 'mags': st.tuples(_MAG, _MAG).map(list)})


def check_mdft(case, ctx):
    """mdft.dft2 / idft2 vs dft2_backprop / idft2_backprop: adjoint identity."""
    from prysm.fttools import mdft
    _reset()
    shape, out, Q, shift, fwd = tuple(case['shape']), U.tup(case['out']), U.tup(case['Q']), tuple(case['shift']), case['fwd']
    outp = U.as_pair(out)
    mx, my = case.get('mags', [0, 0])      # decimal exponents: the adjoint identity is homogeneous in x and in y separately
    x = U.relayout(U.field(case['seed'], shape, 'complex', 1) * 10.0 ** mx, case.get('layout', 'C'))
    y = U.relayout(U.field(case['seed'], outp, 'complex', 2) * 10.0 ** my, case.get('layout', 'C'))
    if mx or my:
        ctx.label('scaled-fields')
    shifted = any(s != 0 for s in shift)
    ctx.nt(shape[0] != shape[1] or shifted or outp != shape)
    ctx.label('fwd' if fwd else 'inv', 'shifted' if shifted else 'unshifted', 'square' if shape[0] == shape[1] else 'nonsquare')
    if fwd:
        Ax = ctx.call(mdft.dft2, x, Q, out, shift)
        AHy = ctx.call(mdft.dft2_backprop, y, Q, shape, shift)
    else:
        Ax = ctx.call(mdft.idft2, x, Q, out, shift)
        AHy = ctx.call(mdft.idft2_backprop, y, Q, shape, shift)
    adjoint_check(ctx, Ax, x, AHy, y, 'mdft.%s_backprop' % ('dft2' if fwd else 'idft2'), '%s->%s Q=%r shift=%r' % (shape, outp, Q, shift))


# ---- fixed-sampling propagation ----------------------------------------------------------------------------
def _phys():
    return st.fixed_dictionaries({'dx': st.sampled_from([0.05, 0.1, 0.5]), 'wvl': st.sampled_from([0.5, 0.6328, 1.55]),
                                  'efl': st.sampled_from([20.0, 100.0, 750.0])})


def strat_fixed(tier):
    nmax = {'quick': 12, 'thorough': 32}[tier]
    ax = U.axis_len(nmax)
    return st.fixed_dictionaries({'shape': st.one_of(st.tuples(ax, ax).map(list), ax.map(lambda k: [k, k])),
                                  'out': st.one_of(st.tuples(ax, ax).map(list), ax.map(lambda k: [k, k])),
                                  'Q': U.nice_float(0.4, 4).map(lambda v: round(v, 3)), 'shift': _shift(), 'phys': _phys(),
                                  'which': st.sampled_from(['focus', 'focus-wavefront', 'unfocus']), 'layout': U.layouts, 'seed': U.seeds,
                                  'mags': st.tuples(_MAG, _MAG).map(list)})


def check_fixed(case, ctx):
    """focus_fixed_sampling / unfocus_fixed_sampling (function and Wavefront method) vs their _backprop twins: adjoint identity."""
    from prysm import propagation as P
    _reset()
    shape, out, which = tuple(case['shape']), tuple(case['out']), case['which']
    ph = case['phys']
    lam, efl = ph['wvl'], ph['efl']
    if which == 'focus-wavefront':
        out = (out[0], out[0])
    mx, my = case.get('mags', [0, 0])      # decimal exponents: the adjoint identity is homogeneous in x and in y separately
    x = U.relayout(U.field(case['seed'], shape, 'complex', 1) * 10.0 ** mx, case.get('layout', 'C'))
    y = U.relayout(U.field(case['seed'], out, 'complex', 2) * 10.0 ** my, case.get('layout', 'C'))
    if mx or my:
        ctx.label('scaled-fields')
    if which.startswith('focus'):
        dx_in = ph['dx']
        dx_out = lam * efl / (shape[1] * dx_in * case['Q'])
    else:
        dx_out = ph['dx']
        dx_in = lam * efl / (shape[1] * dx_out * case['Q'])
    sh = (case['shift'][0] * dx_out, case['shift'][1] * dx_out)
    shifted = any(s != 0 for s in sh)
    ctx.nt(shape[0] != shape[1] or shifted or out != shape)
    ctx.label(which, 'shifted' if shifted else 'unshifted', 'square' if shape[0] == shape[1] else 'nonsquare',
              'out==in' if out == shape else 'out!=in')
    if which == 'focus':
        Ax = ctx.call(P.focus_fixed_sampling, x, dx_in, efl, lam, dx_out, out, shift=sh)
        AHy = ctx.call(P.focus_fixed_sampling_backprop, y, dx_in, efl, lam, dx_out, shape, shift=sh)
        b = 'focus_fixed_sampling_backprop'
    elif which == 'focus-wavefront':
        Ax = ctx.call(P.Wavefront(x, lam, dx_in).focus_fixed_sampling, efl, dx_out, out, shift=sh).data
        wb = P.Wavefront(y, lam, dx_out, space='psf')
        AHy = ctx.call(wb.focus_fixed_sampling_backprop, efl, dx_in, shape if shape[0] != shape[1] else int(shape[0]), shift=sh).data
        b = 'Wavefront.focus_fixed_sampling_backprop'
    else:
        Ax = ctx.call(P.unfocus_fixed_sampling, x, dx_in, efl, lam, dx_out, out, shift=sh)
        AHy = ctx.call(P.unfocus_fixed_sampling_backprop, y, dx_in, efl, lam, dx_out, shape, shift=sh)
        b = 'unfocus_fixed_sampling_backprop' + (':unequal-shapes' if out != shape else '')
    adjoint_check(ctx, Ax, x, AHy, y, b, '%s %s->%s dx_in=%.5g dx_out=%.5g shift=%r' % (which, shape, out, dx_in, dx_out, sh))


# ---- mask-and-back, Babinet ------------------------------------------------------------------------------------
def strat_fpm(tier):
    nmax = {'quick': 10, 'thorough': 24}[tier]
    ax = U.axis_len(nmax)
    return st.fixed_dictionaries({
        'shape': st.one_of(st.tuples(ax, ax).map(list), ax.map(lambda k: [k, k])),
        'mshape': st.one_of(st.tuples(ax, ax).map(list), ax.map(lambda k: [k, k])),
        'same': st.booleans(),
        'Q': U.nice_float(0.4, 4).map(lambda v: round(v, 3)), 'shift': _shift(), 'phys': _phys(),
        'mkind': st.sampled_from(['real', 'complex', 'binary']), 'lyot': st.sampled_from(['none', 'real', 'complex']),
        'which': st.sampled_from(['function', 'wavefront', 'wavefront-maskwf', 'function-maskwf', 'babinet', 'babinet']), 'layout': U.layouts, 'seed': U.seeds,
        'mags': st.tuples(_MAG, _MAG).map(list),
        # a mask given as a Wavefront carries its own spacing; the separate fpm_dx argument may repeat it, be None, or (redundantly) name another value
        'maskwf_dx': st.sampled_from(['same', 'same', 'none', 'other']),
        'bab_wf': st.sampled_from(['none', 'none', 'mask', 'lyot', 'both'])})


def check_fpm(case, ctx):
    """to_fpm_and_back(_backprop) and Wavefront.babinet(_backprop): adjoint identity with real/complex masks and Lyot stops."""
    from prysm import propagation as P
    _reset()
    shape, which = tuple(case['shape']), case['which']
    mshape = shape if case['same'] else tuple(case['mshape'])
    ph = case['phys']
    dx, lam, efl = ph['dx'], ph['wvl'], ph['efl']
    r = U.rng_of(case['seed'], 50)
    if case['mkind'] == 'binary':
        m = (r.uniform(0, 1, mshape) > 0.4).astype(float)
    elif case['mkind'] == 'real':
        m = r.uniform(0, 1, mshape)
    else:
        m = r.uniform(0, 1, mshape) * np.exp(2j * np.pi * r.uniform(0, 1, mshape))
    fpm_dx = lam * efl / (shape[1] * dx * case['Q'])
    mx, my = case.get('mags', [0, 0])      # decimal exponents: the adjoint identity is homogeneous in x and in y separately
    x = U.relayout(U.field(case['seed'], shape, 'complex', 1) * 10.0 ** mx, case.get('layout', 'C'))
    y = U.relayout(U.field(case['seed'], shape, 'complex', 2) * 10.0 ** my, case.get('layout', 'C'))
    if mx or my:
        ctx.label('scaled-fields')
    m = U.relayout(m, case.get('layout', 'C'))
    sh = (case['shift'][0] * fpm_dx, case['shift'][1] * fpm_dx)
    if which.startswith('babinet'):
        sh = (0, 0)   # babinet has no shift argument
    shifted = any(s != 0 for s in sh)
    ctx.nt(case['mkind'] == 'complex' or mshape != shape or shape[0] != shape[1] or shifted)
    ctx.label(which, 'mask:' + case['mkind'], 'shifted' if shifted else 'unshifted', 'mask-shape-eq' if mshape == shape else 'mask-shape-differs',
              'square' if shape[0] == shape[1] else 'nonsquare')
    what = '%s pupil %s mask %s (%s) fpm_dx=%.5g shift=%r' % (which, shape, mshape, case['mkind'], fpm_dx, sh)
    bsuffix = ''
    if case['mkind'] == 'complex':
        bsuffix += ':complex-mask'
    if mshape != shape:
        bsuffix += ':unequal-shapes'
    if shifted:
        bsuffix += ':shifted'
    if which == 'function':
        Ax = ctx.call(P.to_fpm_and_back, x, dx, efl, lam, m, fpm_dx, shift=sh)
        AHy = ctx.call(P.to_fpm_and_back_backprop, y, dx, lam, efl, m, fpm_dx, shift=sh)
        adjoint_check(ctx, Ax, x, AHy, y, 'to_fpm_and_back_backprop' + bsuffix, what)
    elif which == 'function-maskwf':
        mm = P.Wavefront(m, lam, fpm_dx, space='psf')
        darg = {'same': fpm_dx, 'none': None, 'other': fpm_dx * 1.0833}[case.get('maskwf_dx', 'same')]
        ctx.label('mask-wavefront:fpm_dx-argument:' + case.get('maskwf_dx', 'same'))
        Ax = ctx.call(P.to_fpm_and_back, x, dx, efl, lam, mm, darg, shift=sh)
        AHy = ctx.call(P.to_fpm_and_back_backprop, y, dx, lam, efl, mm, darg, shift=sh)
        adjoint_check(ctx, Ax, x, AHy, y, 'to_fpm_and_back_backprop:mask-wavefront' + bsuffix, what + ' fpm_dx argument: ' + case.get('maskwf_dx', 'same'))
    elif which in ('wavefront', 'wavefront-maskwf'):
        mm = P.Wavefront(m, lam, fpm_dx, space='psf') if which.endswith('maskwf') else m
        darg = {'same': fpm_dx, 'none': None, 'other': fpm_dx * 1.0833}[case.get('maskwf_dx', 'same')] if which.endswith('maskwf') else fpm_dx
        if which.endswith('maskwf'):
            ctx.label('mask-wavefront:fpm_dx-argument:' + case.get('maskwf_dx', 'same'))
        fpm_dx_fwd = darg
        Ax = ctx.call(P.Wavefront(x, lam, dx).to_fpm_and_back, efl, mm, fpm_dx_fwd, shift=sh).data
        AHy = ctx.call(P.Wavefront(y, lam, dx).to_fpm_and_back_backprop, efl, mm, darg, shift=sh).data
        adjoint_check(ctx, Ax, x, AHy, y, 'Wavefront.to_fpm_and_back_backprop' + bsuffix, what)
        # return_more: the three planes
        pak = ctx.call(P.Wavefront(y, lam, dx).to_fpm_and_back_backprop, efl, mm, fpm_dx, shift=sh, return_more=True)
        ctx.require(len(pak) == 3, 'to_fpm_and_back_backprop:return_more', 'return_more should give three planes')
        U.check_close(pak[0].data, AHy, 1e-12, 'to_fpm_and_back_backprop:return_more', 'return_more changes the gradient')
    else:
        if case['lyot'] == 'none':
            L = None
        elif case['lyot'] == 'real':
            L = r.uniform(0, 1, shape)
        else:
            L = r.uniform(0, 1, shape) * np.exp(2j * np.pi * r.uniform(0, 1, shape))
        ctx.label('lyot:' + case['lyot'])
        ctx.nt(case['lyot'] == 'complex')
        # mask and Lyot stop are documented as "Wavefront or ndarray" (a mask Wavefront carries its own spacing)
        wf = case.get('bab_wf', 'none')
        m_arg, d_arg = (P.Wavefront(m, lam, fpm_dx, space='psf'), None) if wf in ('mask', 'both') else (m, fpm_dx)
        L_arg = P.Wavefront(L, lam, dx) if (wf in ('lyot', 'both') and L is not None) else L
        if wf != 'none':
            ctx.label('babinet:wavefront-typed:' + wf)
        Ax = ctx.call(P.Wavefront(x, lam, dx).babinet, efl, L_arg, m_arg, d_arg).data
        AHy = ctx.call(P.Wavefront(y.copy(), lam, dx).babinet_backprop, efl, L_arg, m_arg, d_arg).data
        ctx.require(isinstance(Ax, np.ndarray) and isinstance(AHy, np.ndarray), 'babinet:type', 'babinet / babinet_backprop returned a Wavefront holding %s / %s' % (
            type(Ax).__name__, type(AHy).__name__))
        adjoint_check(ctx, Ax, x, AHy, y, 'babinet_backprop' + bsuffix + (':complex-lyot' if case['lyot'] == 'complex' else ''), what + ' lyot=' + case['lyot'])


# ---- intensity, phase, modal sums --------------------------------------------------------------------------------
def strat_int(tier):
    nmax = {'quick': 10, 'thorough': 24}[tier]
    ax = U.axis_len(nmax)
    return st.fixed_dictionaries({'shape': st.tuples(ax, ax).map(list), 'wvl': st.sampled_from([0.5, 0.6328, 1.55]), 'opd': st.sampled_from([1.0, 30.0, 250.0]),
                                  'chain': st.sampled_from(['intensity', 'phase', 'phase-through-dft']), 'nmodes': st.integers(1, 6), 'layout': U.layouts, 'seed': U.seeds, 'bar_label': st.sampled_from(['same', 'same', 'placeholder', 'band-centre'])})


def check_int(case, ctx):
    """Wavefront.intensity_backprop (Ebar = 2 Ibar E), from_amp_and_phase_backprop_phase, sum_of_2d_modes_backprop: directional derivatives / adjoint."""
    from prysm import propagation as P
    from prysm import polynomials as poly
    from prysm.fttools import mdft
    _reset()
    shape, lam = tuple(case['shape']), case['wvl']
    r = U.rng_of(case['seed'], 3)
    w = r.uniform(0.1, 1, shape)
    ctx.nt(shape[0] != shape[1] or case['chain'] != 'intensity')
    ctx.label(case['chain'], 'square' if shape[0] == shape[1] else 'nonsquare')
    if case['chain'] == 'intensity':
        E = U.field(case['seed'], shape, 'complex', 1)
        v = U.field(case['seed'], shape, 'complex', 2)
        wf = P.Wavefront(E, lam, 0.1)
        I = ctx.call(lambda: wf.intensity).data
        U.check_close(I, np.abs(E) ** 2, 1e-13, 'intensity', '|E|^2')
        Ebar = ctx.call(wf.intensity_backprop, w).data
        directional_check(ctx, lambda e: float(np.sum(w * np.abs(e) ** 2)), E, Ebar, v, 'intensity_backprop', 'c=sum w|E|^2 %s' % (shape,))
        return
    amp = r.uniform(0.2, 1, shape)
    phs = r.uniform(-1, 1, shape) * case['opd']       # nm
    v = r.uniform(-1, 1, shape)
    t = U.field(case['seed'], shape, 'complex', 4)
    if case['chain'] == 'phase':
        def cost(p):
            g = P.Wavefront.from_amp_and_phase(amp, p, lam, 0.1).data
            return float(np.sum(w * np.abs(g - t) ** 2))
        wf = ctx.call(P.Wavefront.from_amp_and_phase, amp, phs, lam, 0.1)
        # the container of the upstream gradient is metadata only: its wavelength / spacing labels say nothing about the forward wavefront
        lam_bar = {'same': lam, 'placeholder': 1.0, 'band-centre': lam * 1.0625}[case.get('bar_label', 'same')]
        ctx.label('gradient-container-wavelength:' + case.get('bar_label', 'same'))
        gbar = P.Wavefront(2 * w * (wf.data - t), lam_bar, 0.1)
        pbar = ctx.call(wf.from_amp_and_phase_backprop_phase, gbar)
        directional_check(ctx, cost, phs, pbar, v, 'from_amp_and_phase_backprop_phase', 'c=sum w|A exp(ik phi) - t|^2 %s' % (shape,))
    else:
        Q, out = 1.5, (shape[0] + 1, shape[1] + 2)
        wo = r.uniform(0.1, 1, out)

        def cost(p):
            g = P.Wavefront.from_amp_and_phase(amp, p, lam, 0.1).data
            return float(np.sum(wo * np.abs(mdft.dft2(g, Q, out)) ** 2))
        wf = ctx.call(P.Wavefront.from_amp_and_phase, amp, phs, lam, 0.1)
        F = P.Wavefront(ctx.call(mdft.dft2, wf.data, Q, out), lam, 1.0, space='psf')
        Fbar = ctx.call(F.intensity_backprop, wo)
        lam_bar = {'same': lam, 'placeholder': 1.0, 'band-centre': lam * 1.0625}[case.get('bar_label', 'same')]
        ctx.label('gradient-container-wavelength:' + case.get('bar_label', 'same'))
        gbar = P.Wavefront(ctx.call(mdft.dft2_backprop, Fbar.data, Q, shape), lam_bar, 0.1)
        pbar = ctx.call(wf.from_amp_and_phase_backprop_phase, gbar)
        directional_check(ctx, cost, phs, pbar, v, 'phase-retrieval-chain', 'c=sum w|DFT(A exp(ik phi))|^2 %s' % (shape,))
    # modal sums
    k = case['nmodes']
    lay = case.get('layout', 'C')
    ctx.label('layout:' + lay)
    modes = r.uniform(-1, 1, (k,) + shape)
    if lay != 'C':
        modes = np.stack([U.relayout(mm, lay) for mm in modes]) if lay == 'strided' else U.relayout(modes, lay)
    wts = r.uniform(-1, 1, k)
    ybar = U.relayout(r.uniform(-1, 1, shape), lay)          # the upstream gradient may arrive Fortran-ordered / as a transposed or strided view
    Ax = ctx.call(poly.sum_of_2d_modes, modes, wts)
    AHy = ctx.call(poly.sum_of_2d_modes_backprop, modes, ybar)
    adjoint_check(ctx, Ax, wts, AHy, ybar, 'sum_of_2d_modes_backprop', '%d modes of shape %s' % (k, shape))
    Ax2 = ctx.call(poly.sum_of_2d_modes, list(modes), list(wts))
    U.check_close(Ax2, Ax, 1e-13, 'sum_of_2d_modes:list-input', 'list of modes != array of modes')
    # complex weights of real modes (a complex field as a modal sum) and a complex upstream gradient, with the modes as array, list or tuple of 2-D arrays
    # ("a list of length k with elements of shape (m,n) works")
    wts_c = wts + 1j * r.uniform(-1, 1, k)
    ybar_c = ybar + 1j * U.relayout(r.uniform(-1, 1, shape), lay)
    for form, mm in (('array', modes), ('list', [m_ for m_ in modes]), ('tuple', tuple(m_ for m_ in modes))):
        Ax_c = ctx.call(poly.sum_of_2d_modes, mm, wts_c)
        AHy_c = ctx.call(poly.sum_of_2d_modes_backprop, mm, ybar_c)
        adjoint_check(ctx, Ax_c, wts_c, AHy_c, ybar_c, 'sum_of_2d_modes_backprop:complex:modes-as-' + form, '%d real modes of shape %s given as %s, complex weights and gradient' % (k, shape, form))
        AHy_r = ctx.call(poly.sum_of_2d_modes_backprop, mm, ybar)
        U.check_close(AHy_r, AHy, 1e-12, 'sum_of_2d_modes_backprop:modes-as-' + form, 'modes given as %s' % form, atol=1e-300)


# ---- softmax family ------------------------------------------------------------------------------------------------
def strat_soft(tier):
    lead = st.lists(st.integers(1, 5), min_size=1, max_size=3)
    return st.fixed_dictionaries({'lead': lead, 'K': st.integers(2, 6), 'node': st.sampled_from(['softmax', 'gumbel', 'encoder-softmax', 'encoder-gumbel']),
                                  'tau': st.sampled_from([1, 0.5, 2.0, 0.1, 3.7]), 'tau0': st.sampled_from([1, 5.0, 0.3]), 'anneal': st.booleans(), 'levels': st.sampled_from(['int', 'array']),
                                  'force_eq': st.booleans(), 'scale': st.sampled_from([1.0, 5.0]), 'seed': U.seeds})


def check_soft(case, ctx):
    """Softmax / GumbelSoftmax / DiscreteEncoder backprop vs directional derivative of c = sum g * forward(x)."""
    from prysm.x.optym import activation as act
    K = case['K']
    lead = list(case['lead'])
    if case['force_eq'] and len(lead) >= 2:
        lead[-1] = K          # forced class: last leading size equals the number of levels
    shape = tuple(lead) + (K,)
    r = U.rng_of(case['seed'], 9)
    x = r.uniform(-1, 1, shape) * case['scale']
    v = r.uniform(-1, 1, shape)
    node = case['node']
    ctx.nt(len(lead) >= 2)
    ctx.label(node, 'annealed' if (case.get('anneal', False) and node in ('gumbel', 'encoder-gumbel') and case.get('tau0', 1) != case['tau']) else 'not-annealed',
              'lead-dims:%d' % len(lead), 'last-lead==K' if (len(lead) >= 2 and lead[-1] == K) else 'generic')
    noise_seed = case['seed'] % 9973

    anneal = case.get('anneal', False) and node in ('gumbel', 'encoder-gumbel')
    tau0 = case.get('tau0', 1) if anneal else case['tau']

    def make():
        # with anneal: the node is built at temperature tau0 and then annealed to tau by assigning .tau, as the class
        # docstring tells users to do over the course of an optimisation
        if node == 'softmax':
            return act.Softmax()
        if node == 'gumbel':
            n_ = act.GumbelSoftmax(tau=tau0)
            n_.tau = case['tau']
            return n_
        est = act.Softmax() if node == 'encoder-softmax' else act.GumbelSoftmax(tau=tau0)
        if hasattr(est, 'tau'):
            est.tau = case['tau']
        levels = K if case['levels'] == 'int' else np.arange(K) * 1.5 - 1.0
        return act.DiscreteEncoder(est, levels)

    def fwd(n, xx):
        g = n.est if hasattr(n, 'est') else n
        if hasattr(g, 'rng'):
            g.rng = np.random.default_rng(noise_seed)     # same Gumbel noise for every pass
        return n.forward(xx)
    n = make()
    out = ctx.call(fwd, n, x)
    oshape = tuple(lead) if node.startswith('encoder') else shape
    U.check_shape(out, oshape, node + ':forward')
    if node in ('softmax', 'gumbel'):
        U.check_close(np.sum(out, axis=-1), np.ones(tuple(lead)), 1e-12, node + ':forward-normalisation', 'softmax rows must sum to 1')
    g = r.uniform(-1, 1, oshape)
    grad = ctx.call(n.backprop, g)
    bucket = {'softmax': 'Softmax.backprop', 'gumbel': 'GumbelSoftmax.backprop'}.get(node, 'DiscreteEncoder.backprop')
    if node.startswith('encoder') and len(lead) >= 2:
        bucket += ':multi-lead-dims'

    grad = np.array(grad, copy=True)
    out_kept, g_kept, x_kept = np.array(out, copy=True), g.copy(), x.copy()

    def cost(xx):
        return float(np.sum(g * fwd(make(), xx)))
    directional_check(ctx, cost, x, grad, v, bucket, '%s input shape %s tau=%r' % (node, shape, case['tau']))
    # one forward pass, several reverse passes (two cost terms sharing the pass, a Jacobian built row by row): every reverse pass is the
    # gradient for *its* upstream gradient, the first one can be repeated, and what forward() returned stays what it was
    g2 = r.uniform(-1, 1, oshape)
    grad2 = np.array(ctx.call(n.backprop, g2), copy=True)

    def cost2(xx):
        return float(np.sum(g2 * fwd(make(), xx)))
    directional_check(ctx, cost2, x, grad2, v, bucket + ':second-reverse-pass', '%s input shape %s tau=%r, second backprop after one forward' % (node, shape, case['tau']))
    grad3 = ctx.call(n.backprop, g)
    U.check_close(grad3, grad, 1e-12, bucket + ':second-reverse-pass', 'backprop(g) repeated after backprop(g2) gives another gradient', atol=1e-300)
    U.check_equal(np.asarray(out), out_kept, bucket + ':forward-result-overwritten', 'the array returned by forward() changed during backprop')
    U.check_equal(g, g_kept, bucket + ':argument-modified', 'backprop modified the upstream gradient it was given')
    U.check_equal(x, x_kept, bucket + ':argument-modified', 'forward / backprop modified the input array')


# ---- scalar activations -----------------------------------------------------------------------------------------------
def strat_act(tier):
    return st.fixed_dictionaries({'node': st.sampled_from(['Tanh', 'Arctan', 'Softplus', 'Sigmoid']),
                                  'a': st.one_of(st.just(1), U.nice_float(0.1, 5).map(lambda v: round(v, 3)), st.sampled_from([-1, -3.5, 25, 50, 100, -80])),
                                  'x0': st.one_of(st.just(0), U.nice_float(-2, 2).map(lambda v: round(v, 3))),
                                  'y0': st.one_of(st.just(0), U.nice_float(-2, 2).map(lambda v: round(v, 3))),
                                  'n': st.integers(1, 40), 'span': st.sampled_from([1.0, 3.0, 6.0, 20.0, 800.0]), 'late': st.booleans(), 'seed': U.seeds})


def check_act(case, ctx):
    """Tanh/Arctan/Softplus/Sigmoid: backprop(x) equals d forward/dx (complex-step) for all a, x0, y0; input not modified."""
    from prysm.x.optym import activation as act
    cls = getattr(act, case['node'])
    if case.get('late', False):
        n = cls()      # parameters assigned after construction (public attributes)
        n.a, n.x0, n.y0 = case['a'], case['x0'], case['y0']
    else:
        n = cls(a=case['a'], x0=case['x0'], y0=case['y0'])
    x = U.rng_of(case['seed'], 2).uniform(-1, 1, case['n']) * case['span']
    ctx.nt(case['a'] != 1 or case['x0'] != 0 or case['y0'] != 0)
    ctx.label(case['node'], 'default-params' if (case['a'] == 1 and case['x0'] == 0 and case['y0'] == 0) else 'params')
    x_in = x.copy()
    got = ctx.call(n.backprop, x_in)
    U.check_equal(x_in, x, case['node'] + '.backprop:mutates-input', 'backprop modified its argument')
    u = case['a'] * (x - case['x0'])
    with np.errstate(all='ignore'):
        fwd = np.asarray(ctx.call(n.forward, x.copy()))
    ok = np.isfinite(fwd)                       # where forward itself overflows (softplus of a huge argument) there is nothing to differentiate
    extreme = bool(np.any(np.abs(u) > 300))
    ctx.label('extreme-argument' if extreme else 'moderate-argument')
    ctx.nt(extreme)
    if not extreme:
        h = 1e-30
        want = np.imag(ctx.call(n.forward, x + 1j * h)) / h
    else:
        # overflow-safe closed forms of d forward/dx (the complex-step evaluation of forward overflows out here)
        a_ = float(case['a'])
        e = np.exp(-np.abs(u))
        want = {'Tanh': lambda: a_ * 4 * e * e / (1 + e * e) ** 2, 'Arctan': lambda: a_ / (1 + u * u),
                'Softplus': lambda: a_ * np.where(u >= 0, 1 / (1 + e), e / (1 + e)), 'Sigmoid': lambda: a_ * e / (1 + e) ** 2}[case['node']]()
    ctx.require(bool(np.all(np.isfinite(np.asarray(got)[ok]))), case['node'] + '.backprop:non-finite',
                '%s(a=%r,x0=%r).backprop is not finite where forward is (x in [%.4g, %.4g])' % (case['node'], case['a'], case['x0'], x.min(), x.max()))
    U.check_close(np.asarray(got)[ok], np.asarray(want)[ok], 1e-10, case['node'] + '.backprop',
                  '%s(a=%r,x0=%r,y0=%r) derivative' % (case['node'], case['a'], case['x0'], case['y0']), atol=1e-13 * max(1.0, abs(float(case['a']))))
    if not extreme:
        # an optimiser's loop on one node and one array object: forward(x), the array updated in place (x -= step), the slope continued
        # (node.a *= 1.5, public attribute), then backprop(x): the derivative at the *current* point with the *current* parameters
        xs = x.copy()
        ctx.call(n.forward, xs)
        xs -= 0.37
        if case['seed'] % 2:
            n.a = n.a * 1.5
            ctx.label('slope-continued-between-forward-and-backprop')
        got2 = np.asarray(ctx.call(n.backprop, xs))
        want2 = np.imag(ctx.call(n.forward, xs + 1j * 1e-30)) / 1e-30
        ok2 = np.isfinite(want2)
        U.check_close(got2[ok2], want2[ok2], 1e-10, case['node'] + '.backprop:after-forward-on-the-same-array',
                      '%s(a=%r,x0=%r,y0=%r): backprop(x) after forward(x) and an in-place update of x' % (case['node'], n.a, case['x0'], case['y0']),
                      atol=1e-13 * max(1.0, abs(float(n.a))))


# ---- cost functions ---------------------------------------------------------------------------------------------------
def strat_cost(tier):
    ax = U.axis_len({'quick': 10, 'thorough': 24}[tier], 2)
    return st.fixed_dictionaries({'shape': st.one_of(st.tuples(ax, ax).map(list), ax.map(lambda k: [k])),
                                  'fn': st.sampled_from(['mse', 'nll', 'bgi']), 'mask': st.sampled_from(['none', 'random', 'all']),
                                  'yhat_scalar': st.booleans(), 'seed': U.seeds,
                                  # bad pixels: samples the mask excludes hold NaN / inf in the data or in the model ("False where it should not" contribute)
                                  'bad': st.sampled_from(['none', 'none', 'nan-in-data', 'inf-in-data', 'nan-in-model', 'inf-in-model']),
                                  # the model and the data are one and the same array object (an exact fit handed over without a copy)
                                  'twin': st.sampled_from([False, False, False, True])})


def _spoil(a, mask, how, which):
    """put NaN / inf on the samples the mask excludes"""
    if mask is None or mask.all() or not how.endswith(which) or not isinstance(a, np.ndarray):
        return a
    a = a.copy()
    a[~mask] = np.nan if how.startswith('nan') else np.inf
    return a


def check_cost(case, ctx):
    """mean_square_error / negative_loglikelihood / bias_and_gain_invariant_error: returned gradient vs directional derivative of the returned cost."""
    from prysm.x.optym import cost as C
    shape = tuple(case['shape'])
    r = U.rng_of(case['seed'], 4)
    fn = case['fn']
    if case['mask'] == 'none':
        mask = None
    elif case['mask'] == 'all':
        mask = np.ones(shape, bool)
    else:
        mask = r.uniform(0, 1, shape) > 0.35
        if mask.sum() < 3:
            mask.flat[:3] = True
    ctx.nt(mask is not None)
    bad = case.get('bad', 'none')
    if mask is None or mask.all():
        bad = 'none'
    ctx.label(fn, 'mask:' + case['mask'], '%dD' % len(shape), 'bad-pixels:' + bad)
    v = r.uniform(-1, 1, shape)
    if bad.endswith('model'):
        v = np.where(mask, v, 0.0)       # the direction of the derivative lives on the valid samples
    if fn == 'mse':
        M, D = r.uniform(-1, 1, shape), r.uniform(-1, 1, shape)
        M, D = _spoil(M, mask, bad, 'model'), _spoil(D, mask, bad, 'data')
        if case.get('twin') and bad == 'none':
            D = M
            ctx.label('model-is-data')
        c, g = ctx.call(C.mean_square_error, M, D, mask)
        f = lambda m: float(C.mean_square_error(m, D, mask)[0])   # noqa
        x = M
        # the cost itself
        d = (M - D) if mask is None else (M - D)[mask]
        ctx.within(abs(c - float(np.mean(d * d))), 1e-12 * max(1, abs(c)), 'mean_square_error:value', 'cost != mean((M-D)^2)')
    elif fn == 'nll':
        yy = r.uniform(0.05, 0.95, shape)
        yhat = float(r.uniform(0.1, 0.9)) if case['yhat_scalar'] else r.uniform(0.05, 0.95, shape)
        yy, yhat = _spoil(yy, mask, bad, 'model'), _spoil(yhat, mask, bad, 'data')
        if case.get('twin') and bad == 'none' and isinstance(yhat, np.ndarray):
            yhat = yy
            ctx.label('model-is-data')
        c, g = ctx.call(C.negative_loglikelihood, yy, yhat, mask)
        f = lambda m: float(C.negative_loglikelihood(m, yhat, mask)[0])   # noqa
        x = yy
    else:
        I = r.uniform(0.1, 2, shape)
        D = 1.7 * I + 0.3 + 0.2 * r.uniform(-1, 1, shape)
        I, D = _spoil(I, mask, bad, 'model'), _spoil(D, mask, bad, 'data')
        if case.get('twin') and bad == 'none':
            D = I
            ctx.label('model-is-data')
        c, g = ctx.call(C.bias_and_gain_invariant_error, I, D, mask)
        f = lambda m: float(C.bias_and_gain_invariant_error(m, D, mask)[0])   # noqa
        x = I
    if mask is not None and not mask.all():
        ctx.require(np.all(np.asarray(g)[~mask] == 0), fn + ':mask', 'gradient is non-zero outside the mask (bad pixels: %s)' % bad)
        ctx.require(bool(np.isfinite(c)) and bool(np.all(np.isfinite(np.asarray(g)[mask]))), fn + ':mask:non-finite',
                    'cost / gradient not finite although only excluded samples hold NaN / inf (bad pixels: %s)' % bad)
    directional_check(ctx, f, x, g, v, {'mse': 'mean_square_error', 'nll': 'negative_loglikelihood', 'bgi': 'bias_and_gain_invariant_error'}[fn],
                      '%s shape %s mask=%s' % (fn, shape, case['mask']), atol=1e-9)   # inputs, costs and gradients are O(1) by construction


# ---- finite-difference operator -----------------------------------------------------------------------------------------
def strat_sg(tier):
    ax = U.axis_len({'quick': 12, 'thorough': 32}[tier], 3)
    return st.fixed_dictionaries({'shape': st.one_of(st.tuples(ax, ax).map(list), st.tuples(ax, ax).map(list), ax.map(lambda k: [k, k])),
                                  'axis': st.sampled_from(['x', 'y']), 'seed': U.seeds})


def check_sg(case, ctx):
    """SpatialGradient2D.forward_x/y vs backprop_x/y: adjoint identity (incl. both borders), non-square arrays."""
    from prysm.x.optym.operators import SpatialGradient2D
    shape = tuple(case['shape'])
    r = U.rng_of(case['seed'], 6)
    x = r.uniform(-1, 1, shape)
    y = r.uniform(-1, 1, shape)
    op = SpatialGradient2D()
    ctx.nt(shape[0] != shape[1])
    ctx.label(case['axis'], 'square' if shape[0] == shape[1] else 'nonsquare')
    fwd, bwd = (op.forward_x, op.backprop_x) if case['axis'] == 'x' else (op.forward_y, op.backprop_y)
    Ax = ctx.call(fwd, x)
    AHy = ctx.call(bwd, y)
    b = 'SpatialGradient2D.backprop_' + case['axis'] + (':nonsquare' if shape[0] != shape[1] else '')
    adjoint_check(ctx, Ax, x, AHy, y, b, 'shape %s' % (shape,))
    # localisation: border impulses
    for idx in ((0, 0), (shape[0] - 1, shape[1] - 1), (1, 1), (shape[0] - 2, shape[1] - 2)):
        e = np.zeros(shape)
        e[idx] = 1.0
        adjoint_check(ctx, Ax, x, ctx.call(bwd, e), e, b + ':border', 'unit upstream gradient at %r, shape %s' % (idx, shape))



# ---- deformable mirror ------------------------------------------------------------------------------------------------------
def strat_dm(tier):
    return st.fixed_dictionaries({
        'n': st.sampled_from([32, 33, 40, 41, 48, 64] if tier == 'quick' else [32, 33, 36, 40, 41, 48, 49, 64, 65]),
        'Nact': st.integers(2, 7), 'sep': st.integers(2, 5),
        'dNout': st.sampled_from([0, 0, 8, -8, 7, -7, 16, 1, -1]),
        'shift': st.one_of(st.just([0, 0]), st.tuples(U.nice_float(-3, 3), U.nice_float(-3, 3)).map(lambda t: [round(t[0], 2), round(t[1], 2)])),
        'upsample': st.sampled_from([1, 1, 1, 0.5, 2, 1.5, 0.7, 0.9, 1.26, 1.35, 1.006, 1.02, 0.999, 0.99, 1.0]), 'wfe': st.booleans(), 'width': st.sampled_from([1.0, 1.7, 2.5]),
        'layout': U.layouts, 'seed': U.seeds,
        # rectangular geometries: influence-function array wider than tall (extra columns), output size per axis ("Nout: int or tuple of int")
        'ncols_extra': st.sampled_from([0, 0, 0, 8, 9, 16]), 'dNout_cols': st.one_of(st.none(), st.none(), st.sampled_from([0, 8, -8, 7, -7, 1, -1])),
        'Nout_form': st.sampled_from(['int', 'tuple', 'list']),
        # (Z, Y, X) rotation of the mirror in degrees
        'rot': st.one_of(st.just([0, 0, 0]), st.just([0, 0, 0]), st.just([0, 0, 0]),
                         st.tuples(*[st.sampled_from([0, 0, 0.01, -3, 5, 10, -12, 7.5])] * 3).map(list))})


def check_dm(case, ctx):
    """DM.render is linear in the actuators; render_backprop must be its adjoint for shift / pad / crop / resample geometries (rot = 0)."""
    from prysm.x.dm import DM
    n, Nact, sep, ups, wfe = case['n'], case['Nact'], case['sep'], case['upsample'], case['wfe']
    while Nact > 2 and (Nact // 2 + 1) * sep + 4 * case['width'] >= n // 2:
        Nact -= 1          # shrink the lattice until it (and the tails of the influence functions) fit the array
    if (Nact // 2 + 1) * sep + 4 * case['width'] >= n // 2:
        ctx.exclude('actuator lattice does not fit the influence function array')
    ncol = n + case.get('ncols_extra', 0)
    yy, xx = np.mgrid[:n, :ncol]
    yy = yy - n // 2
    xx = xx - ncol // 2
    ifn = np.exp(-(xx * xx + yy * yy) / (2 * case['width'] ** 2))
    nominal = (int(n * ups), int(ncol * ups))
    dcols = case.get('dNout_cols')
    Nout = (nominal[0] + case['dNout'], nominal[1] + (case['dNout'] if dcols is None else dcols))
    if min(Nout) < 4:
        ctx.exclude('output too small')
    shift = tuple(case['shift'])
    per_axis = tuple('pad' if o > m else ('crop' if o < m else 'same') for o, m in zip(Nout, nominal))
    geom = per_axis[0] if per_axis[0] == per_axis[1] else 'rows-%s,cols-%s' % per_axis
    ctx.nt(geom != 'same' or shift != (0, 0) or ups != 1)
    ctx.label('geom:' + geom, 'shifted' if shift != (0, 0) else 'unshifted', 'upsample=%g' % ups, 'ifn-odd' if n % 2 else 'ifn-even',
              'Nact-odd' if Nact % 2 else 'Nact-even', 'wfe' if wfe else 'sfe', 'ifn-square' if ncol == n else 'ifn-rectangular',
              'Nout-square' if Nout[0] == Nout[1] else 'Nout-rectangular')
    form = case.get('Nout_form', 'int')
    Nout_arg = int(Nout[0]) if (form == 'int' and Nout[0] == Nout[1]) else (list(Nout) if form == 'list' else tuple(Nout))
    rot = tuple(case.get('rot', [0, 0, 0]))
    rotated = any(v != 0 for v in rot)
    if rotated:
        ctx.label('rotated:z' if rot[1] == 0 and rot[2] == 0 else 'rotated:tilted')
        ctx.nt(True)
    dm = ctx.call(DM, ifn, Nout_arg, Nact, sep, shift, rot, ups)
    r = U.rng_of(case['seed'], 8)
    a = r.uniform(-1, 1, dm.actuators.shape)
    a2 = r.uniform(-1, 1, dm.actuators.shape)
    bucket = 'DM.render_backprop'
    if ups != 1:
        bucket += ':upsample'
    if n % 2:
        bucket += ':odd-ifn'

    def render(act):
        dm.actuators[:] = act
        return np.array(ctx.call(dm.render, wfe), copy=True)
    Ra = render(a)
    U.check_shape(Ra, Nout, 'DM.render' + ('' if per_axis[0] == per_axis[1] and Nout[0] - nominal[0] == Nout[1] - nominal[1] else ':per-axis-output-size'),
                  'render() must return the requested Nout=%r (influence function %dx%d, upsample %g)' % (Nout_arg, n, ncol, ups))
    # linearity of the forward model (a precondition of the adjoint identity)
    Ra2 = render(a2)
    Rsum = render(0.5 * a - 2.0 * a2)
    U.check_close(Rsum, 0.5 * Ra - 2.0 * Ra2, 0, 'DM.render:linearity', 'render is not linear in the actuators', atol=1e-10 * max(float(np.abs(Ra).max()), 1e-300))
    y = r.uniform(-1, 1, Ra.shape)
    render(a)
    y_arg = U.relayout(y.copy(), case.get('layout', 'C'))
    g = np.array(ctx.call(dm.render_backprop, y_arg, wfe), copy=True)
    # the caller's upstream gradient comes back unchanged, and the same array handed over again gives the same gradient
    U.check_equal(y_arg, y, bucket + ':argument-modified', 'render_backprop modified the upstream gradient it was given (geometry %s)' % geom)
    g_again = ctx.call(dm.render_backprop, y_arg, wfe)
    U.check_close(np.asarray(g_again), g, 1e-12, bucket + ':argument-modified', 'render_backprop called twice with the same array gives two different gradients', atol=1e-300)
    what = 'ifn %dx%d Nact=%d sep=%d Nout=%r shift=%r rot=%r upsample=%g wfe=%r' % (n, ncol, Nact, sep, Nout_arg, shift, rot, ups, wfe)
    if not rotated:
        adjoint_check(ctx, Ra, a, g, y, bucket, what, tol=1e-9)
    else:
        # a rotated / tilted mirror: render() resamples with an interpolating warp and render_backprop() warps back with the inverse projection,
        # which is not the transpose of the interpolation (KNOWN FINDING, see known_findings.json: relative mismatch 1e-8 .. 1e-1 for rotations up
        # to 12 degrees).  Still asserted here: the companion is that approximation and nothing grossly different (sign, missing factor, transposed axes)
        adjoint_check(ctx, Ra, a, g, y, 'DM.render_backprop:rotated:gross-mismatch', what, tol=0.2)
    # the companion is linear in the upstream gradient and does not depend on the commands: a fresh mirror whose only render so far was the flat
    # one (all commands zero - the first iteration of an optimisation) must hand back the same gradient
    dm0 = ctx.call(DM, ifn, Nout_arg, Nact, sep, shift, rot, ups)
    dm0.actuators[:] = 0
    R0 = np.asarray(ctx.call(dm0.render, wfe))
    U.check_shape(R0, Nout, 'DM.render:flat')
    ctx.require(not np.any(R0), 'DM.render:flat', 'a flat mirror renders a non-zero surface')
    g0 = ctx.call(dm0.render_backprop, y.copy(), wfe)
    U.check_close(np.asarray(g0), np.asarray(g), 1e-9, bucket + ':after-flat-render', 'render_backprop on a fresh DM after a flat render differs from the gradient after a non-flat render',
                  atol=1e-12 * max(float(np.abs(np.asarray(g)).max()), 1e-300))
    # a copy() of the mirror commanded through update(): the copy renders its own commands and hands back the same gradient, the original keeps its own
    dmc = ctx.call(dm.copy)
    ctx.call(dmc.update, a2.copy())
    Rc = np.asarray(ctx.call(dmc.render, wfe))
    U.check_close(Rc, Ra2, 0, 'DM.copy:render', 'a copy commanded through update() renders something else than the original with the same commands',
                  atol=1e-10 * max(float(np.abs(Ra2).max()), 1e-300))
    U.check_equal(np.asarray(dm.actuators), a, 'DM.copy:shares-actuators', 'commanding the copy changed the original mirror\'s actuators')
    gc = ctx.call(dmc.render_backprop, y.copy(), wfe)
    U.check_close(np.asarray(gc), g, 1e-9, 'DM.copy:render_backprop', 'render_backprop of a copy differs from the original\'s', atol=1e-12 * max(float(np.abs(g).max()), 1e-300))
    Rb = render(a)
    U.check_close(Rb, Ra, 0, 'DM.copy:original-changed', 'the original renders something else after its copy was used', atol=1e-10 * max(float(np.abs(Ra).max()), 1e-300))
    if rotated:
        adjoint_check(ctx, Ra, a, g, y, 'DM.render_backprop:rotated:not-the-adjoint', what, tol=1e-9)



CLAUSES = [
    HypClause('mdft_adjoint', strat_mdft, check_mdft, examples={'quick': 400, 'thorough': 3000}, shards={'quick': 2, 'thorough': 8}),
    HypClause('fixed_sampling_adjoint', strat_fixed, check_fixed, examples={'quick': 400, 'thorough': 3000}, shards={'quick': 3, 'thorough': 8}),
    HypClause('fpm_babinet_adjoint', strat_fpm, check_fpm, examples={'quick': 300, 'thorough': 2500}, shards={'quick': 5, 'thorough': 16}),
    HypClause('intensity_phase_modes', strat_int, check_int, examples={'quick': 300, 'thorough': 2500}, shards={'quick': 2, 'thorough': 8}),
    HypClause('softmax_family', strat_soft, check_soft, examples={'quick': 400, 'thorough': 3000}, shards={'quick': 2, 'thorough': 8}),
    HypClause('scalar_activations', strat_act, check_act, examples={'quick': 400, 'thorough': 3000}, shards={'quick': 1, 'thorough': 4}),
    HypClause('cost_functions', strat_cost, check_cost, examples={'quick': 400, 'thorough': 3000}, shards={'quick': 1, 'thorough': 8}),
    HypClause('spatial_gradient', strat_sg, check_sg, examples={'quick': 300, 'thorough': 2000}, shards={'quick': 1, 'thorough': 4}),
    HypClause('dm_render_adjoint', strat_dm, check_dm, examples={'quick': 150, 'thorough': 800}, shards={'quick': 3, 'thorough': 16}),
]
