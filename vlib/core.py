"""Core of the property-based verification harness for brandondube/prysm.

A *property* (C01..C20) is served by a module ``props/cNN.py`` exporting ``CLAUSES`` (a list of
Clause objects) and ``RULE`` (text: how cases are generated and what makes one non-trivial).

Three clause kinds:

* ``HypClause``   - cases drawn from a Hypothesis strategy (JSON-serialisable dicts), shrunk on
                    failure by Hypothesis.
* ``EnumClause``  - cases enumerated from a finite domain (complete enumeration, sharded over the
                    process pool); the first failing case in enumeration order is reported.
* ``MachineClause`` - histories: a ``RuleBasedStateMachine`` whose rules draw JSON-serialisable
                    operations; the whole op sequence shrinks as one value and is the replay.

Every case is a JSON value; ``check(case, ctx)`` is a pure function of (case, code under test), so
a replay file is just the case.  All random choices come from Hypothesis draws (array *contents*
are expanded from a Hypothesis-drawn integer with numpy's PCG64, a pure function of that integer).
"""
import collections
import hashlib
import json
import os
import sys
import time
import traceback
import zlib

REPO = os.environ.get('PRYSM_REPO', '/repo')
VERIF = os.path.dirname(os.path.dirname(os.path.abspath(__file__)))
REPO_PKG = os.path.join(os.path.realpath(REPO), 'prysm') + os.sep

TIERS = ('quick', 'thorough')


class Violation(Exception):
    """The code under test broke the property on this case."""

    def __init__(self, bucket, msg=''):
        super().__init__('%s: %s' % (bucket, msg))
        self.bucket = bucket
        self.msg = msg


class HarnessError(Exception):
    """The harness itself is broken (never a violation, never a pass): exit 2."""


class _StopShrink(BaseException):
    """Raised inside a Hypothesis test to abandon shrinking once its budget is used up."""


def canon(case):
    return json.dumps(case, sort_keys=True, separators=(',', ':'))


def fingerprint(case):
    return int.from_bytes(hashlib.blake2b(canon(case).encode(), digest_size=8).digest(), 'big')


def _in_repo(tb):
    """innermost frame of a traceback that lies in the package under test, or None."""
    hit = None
    for fs in traceback.extract_tb(tb):
        fn = os.path.realpath(fs.filename)
        if fn.startswith(REPO_PKG):
            hit = (os.path.relpath(fn, os.path.dirname(REPO_PKG.rstrip(os.sep))), fs.name)
    return hit


class Ctx:
    """Per-case context handed to check(): labels, non-triviality, guarded calls, comparisons."""

    def __init__(self):
        self.labels = []
        self.nontrivial = False
        self.excluded = []
        self.approach = 0.0     # largest error / tolerance ratio of the tolerance comparisons this case passed

    def label(self, *names):
        self.labels.extend(names)

    def tally(self, name, n):
        """add n to a named counter reported in the evidence (e.g. indices checked inside a block case)"""
        self.labels.append((name, int(n)))

    def nt(self, flag=True):
        if flag:
            self.nontrivial = True

    def exclude(self, why):
        """case lies outside the sound input domain; counted, not checked."""
        self.excluded.append(why)
        raise _Excluded(why)

    def call(self, fn, *a, **k):
        """Call code under test; any exception it raises is a violation (crash on valid input)."""
        try:
            return fn(*a, **k)
        except (Violation, _Excluded, _StopShrink):
            raise
        except Exception as e:  # noqa
            name = getattr(fn, '__qualname__', getattr(fn, '__name__', str(fn)))
            where = _in_repo(e.__traceback__)
            raise Violation('raise:%s:%s' % (name, type(e).__name__),
                            '%s raised %r at %s' % (name, e, where)) from e

    def fail(self, bucket, msg=''):
        raise Violation(bucket, msg)

    def require(self, cond, bucket, msg=''):
        if not cond:
            raise Violation(bucket, msg)

    def within(self, err, tol, bucket, msg=''):
        """require err <= tol and remember how close the case came (evidence; search target in the thorough tier)"""
        if not (err <= tol):
            raise Violation(bucket, msg)
        from . import util as _U
        _U.note_approach(err, tol)


class _Excluded(Exception):
    pass


# ----------------------------------------------------------------------------------------------
class Clause:
    kind = None

    def __init__(self, name, check, examples=None, shards=None, doc=''):
        self.name = name
        self.check = check
        self.examples = examples or {'quick': 200, 'thorough': 2000}
        self.shards = shards or {'quick': 1, 'thorough': 8}
        self.doc = doc or (check.__doc__ or '').strip()

    def run_case(self, case):
        """returns (ctx, violation|None, excluded?)"""
        ctx = Ctx()
        from . import util as _U
        _U.APPROACH[0] = 0.0
        try:
            self.check(case, ctx)
            ctx.approach = _U.APPROACH[0]
        except _Excluded:
            return ctx, None, True
        except Violation as v:
            return ctx, v, False
        except _StopShrink:
            raise
        except Exception as e:  # noqa
            where = _in_repo(e.__traceback__)
            if where is None:
                raise HarnessError('clause %s: harness exception on case %s\n%s' % (
                    self.name, canon(case)[:2000], traceback.format_exc()))
            v = Violation('raise:%s:%s:%s' % (where[0], where[1], type(e).__name__),
                          'uncaught %r inside %s:%s' % (e, where[0], where[1]))
            v.__cause__ = e
            return ctx, v, False
        return ctx, None, False


class HypClause(Clause):
    kind = 'hypothesis'

    def __init__(self, name, strategy, check, **kw):
        super().__init__(name, check, **kw)
        self.strategy = strategy  # callable tier -> hypothesis strategy


class EnumClause(Clause):
    kind = 'enumerate'

    def __init__(self, name, enum, check, **kw):
        super().__init__(name, check, **kw)
        self.enum = enum  # callable tier -> iterable of cases (deterministic order)
        self.shards = kw.get('shards') or {'quick': 16, 'thorough': 16}


class MachineClause(Clause):
    """History clause.  ``model`` is a class with
         __init__(self, init_case, ctx), apply(self, op) and invariant(self);
       ``init`` / ``op`` are callables tier -> strategy.  A case is {'init':..., 'ops':[...]}.
    """
    kind = 'stateful'

    def __init__(self, name, model, init, op, steps=None, **kw):
        self.model = model
        self.init = init
        self.op = op
        self.steps = steps or {'quick': 25, 'thorough': 40}
        super().__init__(name, self._check, **kw)
        self.doc = kw.get('doc') or (model.__doc__ or '').strip()

    def _check(self, case, ctx):
        m = None
        try:
            m = self.model(case['init'], ctx)
            m.invariant()
            for op in case['ops']:
                m.apply(op)
                m.invariant()
        finally:
            if m is not None and hasattr(m, 'close'):
                m.close()


# ----------------------------------------------------------------------------------------------
class Stats:
    def __init__(self):
        self.evaluations = 0
        self.nontrivial = set()
        self.labels = collections.Counter()
        self.excluded = collections.Counter()
        self.known_hits = collections.Counter()
        self.samples = []          # (fingerprint, case) smallest-hash sample
        self.first = []
        self.violation = None      # dict
        self.error = None
        self.wall = 0.0
        self.exhaustive = None
        self.shrink_calls = 0
        self.max_approach = 0.0
        self.cut_short = False

    def record(self, case, ctx, excluded, fp=None):
        self.evaluations += 1
        self.max_approach = max(self.max_approach, getattr(ctx, 'approach', 0.0))
        fp = fingerprint(case) if fp is None else fp
        for l in ctx.labels:
            if isinstance(l, tuple):
                self.labels[l[0]] += l[1]
            else:
                self.labels[l] += 1
        if excluded:
            for e in ctx.excluded:
                self.excluded[e] += 1
            return
        if ctx.nontrivial:
            self.nontrivial.add(fp)
        if len(self.first) < 2:
            self.first.append(case)
        self.samples.append((fp, case))
        if len(self.samples) > 64:
            self.samples.sort(key=lambda t: t[0])
            del self.samples[4:]

    def pack(self):
        self.samples.sort(key=lambda t: t[0])
        return {
            'evaluations': self.evaluations, 'nontrivial': self.nontrivial, 'labels': dict(self.labels),
            'excluded': dict(self.excluded), 'known_hits': dict(self.known_hits),
            'samples': self.first + [c for _, c in self.samples[:3]], 'violation': self.violation,
            'error': self.error, 'wall': self.wall, 'exhaustive': self.exhaustive, 'max_approach': self.max_approach, 'cut_short': self.cut_short,
        }


def load_known(prop):
    path = os.path.join(VERIF, 'known_findings.json')
    if not os.path.exists(path):
        return []
    with open(path) as fh:
        data = json.load(fh)
    return [e for e in data.get('findings', []) if e.get('property') == prop]


def open_buckets(prop, clause_name):
    out = set()
    for e in load_known(prop):
        if e.get('status') == 'open' and e.get('clause') in (clause_name, '*'):
            out.add(e['bucket'])
    return out


def task_seed(seed, prop, clause_name, shard):
    return (seed * 1000003 + zlib.crc32(('%s/%s' % (prop, clause_name)).encode()) % 100000 + shard * 7919) % (2**31)


SHRINK_BUDGET_S = {'quick': 25.0, 'thorough': 120.0}
SEARCH_BUDGET_S = float(os.environ.get('VERIF_SEARCH_BUDGET_S', 15 * 60.0))      # per shard of a Hypothesis clause, thorough tier only


def _size(case):
    return len(canon(case))


def run_task(prop, clause, tier, seed, shard, nshards):
    """Executed in a worker process.  Returns Stats.pack()."""
    t0 = time.time()
    st = Stats()
    known = open_buckets(prop, clause.name)
    best = {'case': None, 'v': None, 't_first': None}

    def one(case, count=True):
        ctx, v, excl = clause.run_case(case)
        if count:
            st.record(case, ctx, excl)
        if v is not None:
            if v.bucket in known:
                st.known_hits[v.bucket] += 1
                return None
            return v
        return None

    try:
        if clause.kind == 'enumerate':
            n = 0
            for i, case in enumerate(clause.enum(tier)):
                if i % nshards != shard:
                    continue
                n += 1
                v = one(case)
                if v is not None:
                    st.violation = {'case': case, 'bucket': v.bucket, 'msg': v.msg}
                    break
            st.exhaustive = st.violation is None
        elif clause.kind == 'hypothesis':
            _run_hyp(prop, clause, tier, seed, shard, st, one, best)
        elif clause.kind == 'stateful':
            _run_machine(prop, clause, tier, seed, shard, st, known, best)
        else:
            raise HarnessError('unknown clause kind')
    except HarnessError as e:
        st.error = str(e)
    except Exception:  # noqa
        st.error = 'clause %s: %s' % (clause.name, traceback.format_exc())
    st.wall = time.time() - t0
    return st.pack()


# properties whose thorough tier generates and shrinks only: in their modules the hill climber of the target phase was observed to spin inside Hypothesis
# without calling the test function for more than 30 CPU-minutes per shard (C07, C09), or no thorough run with targeting has been completed yet (C18, C19)
NO_TARGET = {'C03', 'C07', 'C09', 'C15', 'C18', 'C19'}
# the targeted search is opt-in (VERIF_TARGET=1): it completed for 14 properties at one or two seeds each, but stalled for four others, and a registered command
# must terminate; by default the thorough tier generates and shrinks (more examples, larger sizes, more shards than the quick tier)
TARGETING = os.environ.get('VERIF_TARGET', '0') == '1'


def _hyp_settings(n, tier, stateful_steps=None, target=True):
    from hypothesis import settings, HealthCheck, Phase
    # thorough tier: targeted search - hypothesis.target() is fed the closest approach of the case to any of its tolerances
    phases = [Phase.generate, Phase.target, Phase.shrink] if tier == 'thorough' and stateful_steps is None and target else [Phase.generate, Phase.shrink]
    kw = dict(max_examples=n, database=None, deadline=None, derandomize=False, report_multiple_bugs=False,
              suppress_health_check=list(HealthCheck), phases=phases,
              print_blob=False)
    if stateful_steps is not None:
        kw['stateful_step_count'] = stateful_steps
    return settings(**kw)


def _run_hyp(prop, clause, tier, seed, shard, st, one, best):
    import hypothesis
    from hypothesis import given
    n = clause.examples[tier]
    budget = SHRINK_BUDGET_S[tier]
    t_start = time.time()

    @hypothesis.seed(task_seed(seed, prop, clause.name, shard))
    @_hyp_settings(n, tier, target=TARGETING and prop not in NO_TARGET)
    @given(clause.strategy(tier))
    def test(case):
        shrinking = best['t_first'] is not None
        if not shrinking and tier == 'thorough' and time.time() - t_start > SEARCH_BUDGET_S:
            # the targeted search of the thorough tier has no natural end when the hill climber keeps proposing cached / rejected examples: a shard that has
            # searched this long stops here.  What was explored is reported as explored (the evidence says the search was cut short); never a violation
            st.cut_short = True
            raise _StopShrink()
        v = one(case, count=not shrinking)
        if shrinking:
            st.shrink_calls += 1
        if v is None and tier == 'thorough' and not shrinking and TARGETING and prop not in NO_TARGET:
            from . import util as _U
            hypothesis.target(float(_U.APPROACH[0]), label='closest approach to a tolerance')
        if v is not None:
            if best['t_first'] is None:
                best['t_first'] = time.time()
            if best['case'] is None or _size(case) <= _size(best['case']):
                best['case'], best['v'] = case, v
            if time.time() - best['t_first'] > budget:
                raise _StopShrink()
            raise v
        if shrinking and time.time() - best['t_first'] > budget:
            raise _StopShrink()

    try:
        test()
    except _StopShrink:
        pass
    except Violation:
        pass
    except HarnessError:
        raise
    except BaseException as e:  # hypothesis-internal errors (Flaky, Unsatisfiable ...)
        if best['case'] is None:
            raise HarnessError('clause %s: hypothesis error %r\n%s' % (clause.name, e, traceback.format_exc()))
    if best['case'] is not None:
        v = best['v']
        st.violation = {'case': best['case'], 'bucket': v.bucket, 'msg': v.msg}


def _run_machine(prop, clause, tier, seed, shard, st, known, best):
    import hypothesis
    from hypothesis import strategies as hst
    from hypothesis.stateful import RuleBasedStateMachine, rule, initialize, run_state_machine_as_test
    n = clause.examples[tier]
    budget = SHRINK_BUDGET_S[tier]
    init_s, op_s = clause.init(tier), clause.op(tier)

    class Machine(RuleBasedStateMachine):
        def __init__(self):
            super().__init__()
            self.case = None
            self.model = None
            self.ctx = Ctx()
            self.dead = False     # a known-finding bucket was hit: stop asserting on this history

        def _guard(self, fn, *a):
            if self.dead:
                return
            try:
                fn(*a)
                return
            except _Excluded:
                self.dead = True
                return
            except Violation as e_:
                v = e_
            except (_StopShrink, HarnessError):
                raise
            except Exception as e:  # noqa
                where = _in_repo(e.__traceback__)
                if where is None:
                    raise HarnessError('clause %s: harness exception on history %s\n%s' % (
                        clause.name, canon(self.case)[:3000], traceback.format_exc()))
                v = Violation('raise:%s:%s:%s' % (where[0], where[1], type(e).__name__),
                              'uncaught %r inside %s:%s' % (e, where[0], where[1]))
            if v.bucket in known:
                st.known_hits[v.bucket] += 1
                self.dead = True
                return
            case = json.loads(canon(self.case))
            if best['t_first'] is None:
                best['t_first'] = time.time()
            if best['case'] is None or _size(case) <= _size(best['case']):
                best['case'], best['v'] = case, v
            if time.time() - best['t_first'] > budget:
                raise _StopShrink()
            raise v

        @initialize(init=init_s)
        def start(self, init):
            self.case = {'init': init, 'ops': []}

            def mk():
                self.model = clause.model(init, self.ctx)
                self.model.invariant()
            self._guard(mk)

        @rule(op=op_s)
        def step(self, op):
            if self.case is None or self.model is None:
                return
            self.case['ops'].append(op)

            def go():
                self.model.apply(op)
                self.model.invariant()
            self._guard(go)

        def teardown(self):
            if self.model is not None and hasattr(self.model, 'close'):
                self.model.close()
            if self.case is not None:
                if best['t_first'] is None:
                    st.record(json.loads(canon(self.case)), self.ctx, False)
                else:
                    st.shrink_calls += 1
                    if time.time() - best['t_first'] > budget:
                        raise _StopShrink()

    M = hypothesis.seed(task_seed(seed, prop, clause.name, shard))(Machine)
    try:
        run_state_machine_as_test(M, settings=_hyp_settings(n, tier, clause.steps[tier]))
    except _StopShrink:
        pass
    except Violation:
        pass
    except HarnessError:
        raise
    except BaseException as e:
        if best['case'] is None:
            raise HarnessError('clause %s: hypothesis error %r\n%s' % (clause.name, e, traceback.format_exc()))
    if best['case'] is not None:
        v = best['v']
        st.violation = {'case': best['case'], 'bucket': v.bucket, 'msg': v.msg}
