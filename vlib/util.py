"""Shared generators, oracles and comparison helpers (DESIGN.md section 3)."""
import contextlib
import math

import numpy as np
from hypothesis import strategies as st

from .core import Violation, canon  # noqa

# ------------------------------------------------------------------------------------------------
# strategies (all JSON-serialisable values)

seeds = st.integers(0, 2**31 - 1)


def axis_len(max_n, min_n=1):
    """one axis length with forced mixing of classes {1,2,3, odd, even, prime, power of two}."""
    small = [n for n in (1, 2, 3, 4, 5, 7, 8) if min_n <= n <= max_n]
    pool = [st.integers(min_n, max_n)]
    if small:
        pool.append(st.sampled_from(small))
    return st.one_of(*pool)


def shape2d(max_n, min_n=1, p_square=0.25):
    a = axis_len(max_n, min_n)
    return st.one_of(st.tuples(a, a).map(list), a.map(lambda n: [n, n]), st.tuples(a, a).map(list), st.tuples(a, a).map(list))


def nice_float(lo, hi):
    return st.floats(lo, hi, allow_nan=False, allow_infinity=False, allow_subnormal=False)


def per_axis(s):
    """scalar or 2-list of s"""
    return st.one_of(s, st.tuples(s, s).map(list))


def as_pair(v):
    if isinstance(v, (list, tuple)):
        return tuple(v)
    return (v, v)


def tup(v):
    """JSON lists -> tuples (prysm keys on hashable tuples), scalars unchanged"""
    if isinstance(v, list):
        return tuple(tup(x) for x in v)
    return v


# ------------------------------------------------------------------------------------------------
# arrays from a drawn integer

def rng_of(seed, salt=0):
    return np.random.Generator(np.random.PCG64([int(seed), int(salt)]))


def field(seed, shape, kind='complex', salt=0):
    """kind: complex | real | impulse | const | tilt | embedded"""
    r = rng_of(seed, salt)
    shape = tuple(shape)
    if kind == 'real':
        return r.uniform(-1, 1, shape)
    if kind == 'complex':
        return r.uniform(-1, 1, shape) + 1j * r.uniform(-1, 1, shape)
    if kind == 'impulse':
        a = np.zeros(shape, dtype=complex)
        idx = tuple(int(r.integers(0, s)) for s in shape)
        a[idx] = complex(r.uniform(-1, 1), r.uniform(-1, 1)) + 0.5
        return a
    if kind == 'const':
        return np.full(shape, complex(r.uniform(-1, 1), r.uniform(-1, 1)))
    if kind == 'tilt':
        ky, kx = r.uniform(-2, 2, 2)
        y = (np.arange(shape[0]) - shape[0] // 2)[:, None] / shape[0]
        x = (np.arange(shape[1]) - shape[1] // 2)[None, :] / shape[1]
        return np.exp(2j * np.pi * (ky * y + kx * x))
    if kind == 'embedded':
        a = np.zeros(shape, dtype=complex)
        h = [max(1, s // 2) for s in shape]
        o = [int(r.integers(0, s - hh + 1)) for s, hh in zip(shape, h)]
        a[o[0]:o[0] + h[0], o[1]:o[1] + h[1]] = r.uniform(-1, 1, h) + 1j * r.uniform(-1, 1, h)
        return a
    # value patterns (symmetry, sparsity, sign pattern, ties) rather than shapes
    if kind in ('even', 'hermitian'):
        a = r.uniform(-1, 1, shape) + 1j * r.uniform(-1, 1, shape)
        # reflection through the origin sample n//2: index i -> (2*(n//2) - i) mod n
        iy = (2 * (shape[0] // 2) - np.arange(shape[0])) % shape[0]
        ix = (2 * (shape[1] // 2) - np.arange(shape[1])) % shape[1]
        refl = a[np.ix_(iy, ix)]
        return 0.5 * (a + refl) if kind == 'even' else 0.5 * (a + np.conj(refl))
    if kind == 'checker':
        yy, xx = np.indices(shape)
        return ((-1.0) ** (yy + xx)).astype(complex) * complex(r.uniform(0.5, 1), r.uniform(-1, 1))
    if kind == 'one-row':
        a = np.zeros(shape, dtype=complex)
        k = int(r.integers(0, shape[0]))
        a[k, :] = r.uniform(-1, 1, shape[1]) + 1j * r.uniform(-1, 1, shape[1])
        return a
    if kind == 'ties':
        # few distinct values, many exact ties (quantised data)
        return (r.integers(-2, 3, shape) + 1j * r.integers(-2, 3, shape)).astype(complex) + (shape[0] == 1 and shape[1] == 1)
    raise ValueError(kind)


field_kinds = st.sampled_from(['complex', 'complex', 'complex', 'real', 'impulse', 'const', 'tilt', 'embedded', 'even', 'hermitian', 'checker', 'one-row', 'ties'])


# ------------------------------------------------------------------------------------------------
# comparisons

def shape_of(a):
    return tuple(np.shape(a))


def check_shape(a, shape, bucket, what=''):
    if shape_of(a) != tuple(shape):
        raise Violation(bucket + ':shape', '%s shape %s, expected %s' % (what, shape_of(a), tuple(shape)))


def relerr(a, b):
    a = np.asarray(a)
    b = np.asarray(b)
    scale = max(float(np.max(np.abs(b))) if b.size else 0.0, 1e-300)
    if a.size == 0:
        return 0.0
    d = np.abs(a - b)
    if not np.all(np.isfinite(d)):
        # allow matching non-finite patterns only when identical
        same = (np.isnan(a) & np.isnan(b)) | (a == b)
        if np.all(same | np.isfinite(d)):
            d = np.where(np.isfinite(d), d, 0.0)
        else:
            return float('inf')
    return float(np.max(d)) / scale


# closest approach of any tolerance comparison of the running case to its tolerance (largest error / tolerance seen, capped at 1):
# reset by the engine before every case, reported in the evidence, and - in the thorough tier - handed to hypothesis.target() so that the
# search climbs towards inputs with larger numerical error instead of only sampling them
APPROACH = [0.0]


def note_approach(err, tol):
    try:
        r = float(err) / float(tol) if tol > 0 else 0.0
    except Exception:      # noqa
        return
    if r == r and r > APPROACH[0]:
        APPROACH[0] = min(r, 1.0)


def check_close(a, b, rtol, bucket, what='', atol=0.0):
    """|a-b| <= rtol*max|b| + atol everywhere, shapes equal."""
    a = np.asarray(a)
    b = np.asarray(b)
    if a.shape != b.shape:
        raise Violation(bucket + ':shape', '%s shape %s, expected %s' % (what, a.shape, b.shape))
    if a.size == 0:
        return 0.0
    scale = float(np.max(np.abs(b))) if np.all(np.isfinite(b)) else float(np.nanmax(np.abs(np.where(np.isfinite(b), b, 0))))
    tol = rtol * max(scale, 1e-300) + atol
    d = np.abs(a - b)
    bad = ~(d <= tol)
    if not bad.any():
        note_approach(np.max(d), tol)
    if bad.any():
        # identical non-finite entries are equal
        same_nonfinite = (np.isnan(a) & np.isnan(b)) | ((a == b) & ~np.isfinite(b))
        bad &= ~same_nonfinite
    if bad.any():
        i = np.unravel_index(int(np.argmax(np.where(bad, np.where(np.isfinite(d), d, np.inf), -1))), a.shape) if a.ndim else ()
        raise Violation(bucket, '%s: max err %.3g (tol %.3g, scale %.3g) at %s: got %r want %r; %d/%d bad' % (
            what, float(np.nanmax(np.where(bad, d, 0))) if np.isfinite(d[bad]).any() else float('inf'), tol, scale,
            tuple(int(k) for k in i), a[i] if a.ndim else a[()], b[i] if b.ndim else b[()], int(bad.sum()), a.size))
    return float(np.max(d)) if np.all(np.isfinite(d)) else 0.0


def check_equal(a, b, bucket, what=''):
    a = np.asarray(a)
    b = np.asarray(b)
    if a.shape != b.shape:
        raise Violation(bucket + ':shape', '%s shape %s, expected %s' % (what, a.shape, b.shape))
    eq = (a == b) | (np.isnan(a) & np.isnan(b)) if a.dtype.kind in 'fc' and b.dtype.kind in 'fc' else (a == b)
    if not np.all(eq):
        i = np.unravel_index(int(np.argmin(eq)), a.shape) if a.ndim else ()
        raise Violation(bucket, '%s: differs at %s: got %r want %r; %d/%d differ' % (
            what, tuple(int(k) for k in i), a[i] if a.ndim else a[()], b[i] if b.ndim else b[()], int((~eq).sum()), a.size))


# ------------------------------------------------------------------------------------------------
# reference (textbook) DFT -- no prysm code

def cvec(n):
    """centred integer coordinate vector: index i -> i - n//2"""
    return np.arange(n, dtype=np.float64) - (n // 2)


def ref_dft(f, Q, out, shift=(0.0, 0.0), fwd=True):
    """F[v,u] = (Ny Qy Nx Qx)^-1/2 sum_{y,x} f[y,x] exp(-+2 pi i ((y-c)(v-c-sy)/(Ny Qy) + (x-c)(u-c-sx)/(Nx Qx)))

    Q, out: scalar or (axis0, axis1); shift: (sx, sy) in *output samples* (prysm's argument order).
    """
    f = np.asarray(f)
    Ny, Nx = f.shape
    Qy, Qx = as_pair(Q)
    My, Mx = as_pair(out)
    sx, sy = as_pair(shift)
    Y, X = cvec(Ny), cvec(Nx)
    V, U = cvec(My) - sy, cvec(Mx) - sx
    s = -1.0 if fwd else 1.0
    Ey = np.exp(s * 2j * np.pi * np.outer(V, Y) / (Ny * Qy))
    Ex = np.exp(s * 2j * np.pi * np.outer(X, U) / (Nx * Qx))
    return (Ey @ f.astype(np.complex128) @ Ex) / math.sqrt(Ny * Qy * Nx * Qx)


def embed(f, shape):
    """zero-embed f in a larger array so that sample n//2 maps to sample N//2 (harness' own pad)."""
    out = np.zeros(tuple(shape), dtype=f.dtype)
    oy = shape[0] // 2 - f.shape[0] // 2
    ox = shape[1] // 2 - f.shape[1] // 2
    out[oy:oy + f.shape[0], ox:ox + f.shape[1]] = f
    return out


def extract(f, shape):
    """inverse of embed (origin-preserving crop)."""
    oy = f.shape[0] // 2 - shape[0] // 2
    ox = f.shape[1] // 2 - shape[1] // 2
    return f[oy:oy + shape[0], ox:ox + shape[1]]


# ------------------------------------------------------------------------------------------------
@contextlib.contextmanager
def precision(bits):
    from prysm.conf import config
    old = config.precision
    try:
        config.precision = bits
        yield
    finally:
        config.precision = 64 if old == np.float64 else 32


def cold_start(*module_names):
    """clear every functools.lru_cache of the named prysm modules (default: the polynomial modules) through the public cache_clear(): the state of a
    process that has not evaluated anything yet.  Used for histories "a session that starts under the other configuration on a cold cache"."""
    import importlib
    import sys
    names = module_names or [m for m in list(sys.modules) if m.startswith('prysm.polynomials')]
    n = 0
    for name in names:
        mod = sys.modules.get(name) or importlib.import_module(name)
        for v in list(vars(mod).values()):
            if callable(getattr(v, 'cache_clear', None)) and callable(getattr(v, 'cache_info', None)):
                v.cache_clear()
                n += 1
    return n


FFT_BACKENDS = ['scipy', 'scipy', 'scipy', 'numpy', 'transforms-only']
fft_backends = st.sampled_from(FFT_BACKENDS)


@contextlib.contextmanager
def fft_backend(name):
    """the FFT module behind prysm's backend shim (`prysm.mathops.fft._srcmodule`, the documented way to plug in mkl_fft / cupy / torch):
    'scipy' (default) or 'numpy' - numpy.fft has the same transforms but no `next_fast_len`, so helpers fall back to their own sizing"""
    from prysm import mathops
    old = mathops.fft._srcmodule
    try:
        if name == 'numpy':
            import numpy.fft as npfft
            mathops.fft._srcmodule = npfft
        elif name == 'transforms-only':
            # a backend that provides the transforms and the shifts but no helper functions (neither fftfreq nor next_fast_len), as the
            # transform-only modules of mkl_fft / pyfftw do: the library's own fall-backs for frequency vectors and sizing run
            import types
            import numpy.fft as npfft
            mathops.fft._srcmodule = types.SimpleNamespace(**{k: getattr(npfft, k) for k in (
                'fft', 'ifft', 'fft2', 'ifft2', 'fftn', 'ifftn', 'rfft', 'irfft', 'rfft2', 'irfft2', 'fftshift', 'ifftshift')})
        yield
    finally:
        mathops.fft._srcmodule = old


def inner(a, b):
    return np.sum(np.conj(a) * b)


# ------------------------------------------------------------------------------------------------
# memory layout is an input dimension too: same values, different strides
LAYOUTS = ['C', 'C', 'F', 'T-view', 'strided']
layouts = st.sampled_from(LAYOUTS)


def relayout(a, how):
    """return an array equal to `a` element for element, with another memory layout:
       C contiguous copy | F Fortran-ordered copy | T-view transpose of a C-ordered transpose (F-contiguous view) |
       strided every-other-element view into a larger buffer (non-contiguous on every axis)."""
    a = np.asarray(a)
    if how == 'C' or a.ndim == 0:
        return np.ascontiguousarray(a)
    if how == 'F':
        return np.asfortranarray(a)
    if how == 'T-view':
        return np.ascontiguousarray(a.T).T
    if how == 'strided':
        big = np.zeros(tuple(2 * s for s in a.shape), dtype=a.dtype)
        sl = tuple(slice(0, 2 * s, 2) for s in a.shape)
        big[sl] = a
        return big[sl]
    raise ValueError(how)
