#!/venv/bin/python
"""Maintain known_findings.json (never used at check run time).

  tools/record.py fixed <PROP> <commit> <found-replay.json> <short-name> "<what failed>"
  tools/record.py open  <PROP> <found-replay.json> <short-name> "<what fails>"
Moves the replay into replays/regression/ (fixed) or replays/known/ (open) and appends the entry.
"""
import json, os, shutil, sys
HERE = os.path.dirname(os.path.dirname(os.path.abspath(__file__)))
kf = os.path.join(HERE, 'known_findings.json')
data = json.load(open(kf)) if os.path.exists(kf) else {'findings': []}
mode = sys.argv[1]
if mode == 'fixed':
    prop, commit, src, name, what = sys.argv[2:7]
    sub = 'regression'
else:
    prop, src, name, what = sys.argv[2:6]
    commit = None
    sub = 'known'
rep = json.load(open(src))
os.makedirs(os.path.join(HERE, 'replays', sub), exist_ok=True)
dst = os.path.join('replays', sub, '%s-%s-%s.json' % (prop, rep['clause'], name))
rep.pop('seed', None); rep.pop('tier', None)
json.dump(rep, open(os.path.join(HERE, dst), 'w'), indent=1, sort_keys=True)
if os.path.abspath(src) != os.path.abspath(os.path.join(HERE, dst)) and '/replays/found/' in os.path.abspath(src):
    os.remove(src)
e = {'property': prop, 'clause': rep['clause'], 'bucket': rep.get('bucket', '(not recorded)'), 'status': mode, 'replay': dst, 'description': what}
if mode == 'fixed':
    e['commit'] = commit
    e['line'] = 'fixed: property=%s %s %s' % (prop, commit, what)
data['findings'].append(e)
json.dump(data, open(kf, 'w'), indent=1)
print(e.get('line', 'open: ' + what))
