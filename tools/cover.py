#!/venv/bin/python
"""tools/cover.py <PROP> [--tier quick] [--files a.py,b.py]  -- measuring aid: which executable lines of the files a property is anchored
in are never executed by its generated search?  Runs vcheck.py with VCHECK_COVER set (sys.monitoring line events in every worker),
then prints, per anchored file and per function, the lines never reached.  Module import happens before a forked worker starts
measuring, so module-level statements and `def` lines show as missing and are filtered out (only lines inside function bodies count).
Nothing here decides a property; it tells the author where the generators do not reach."""
import ast, glob, json, os, subprocess, sys, tempfile, shutil
HERE = os.path.dirname(os.path.dirname(os.path.abspath(__file__)))
REPO = os.environ.get('PRYSM_REPO', '/repo')
prop = sys.argv[1].upper()
tier = sys.argv[sys.argv.index('--tier') + 1] if '--tier' in sys.argv else 'quick'
props = {json.loads(l)['id']: json.loads(l) for l in open(os.path.join(HERE, 'properties.jsonl'))}
files = sys.argv[sys.argv.index('--files') + 1].split(',') if '--files' in sys.argv else props[prop]['anchors']['files']
d = tempfile.mkdtemp(prefix='vcover-')
try:
    env = dict(os.environ, VCHECK_COVER=d)
    p = subprocess.run([sys.executable, os.path.join(HERE, 'vcheck.py'), prop, '--tier', tier, '--no-evidence'], env=env, cwd=HERE,
                       stdout=subprocess.PIPE, stderr=subprocess.STDOUT, text=True)
    print(p.stdout.strip().splitlines()[-1])
    hit = {}
    for f in glob.glob(os.path.join(d, '*.json')):
        for k, v in json.load(open(f)).items():
            hit.setdefault(k, set()).update(v)
finally:
    shutil.rmtree(d, ignore_errors=True)
for rel in files:
    path = os.path.realpath(os.path.join(REPO, rel))
    if not os.path.exists(path):
        continue
    src = open(path).read()
    tree = ast.parse(src)
    got = hit.get(path, set())
    tot = miss_tot = 0
    out = []
    for node in ast.walk(tree):
        if isinstance(node, (ast.FunctionDef, ast.AsyncFunctionDef)):
            body_lines = set()
            for st in node.body:
                for sub in ast.walk(st):
                    if isinstance(sub, ast.stmt) and not isinstance(sub, (ast.FunctionDef, ast.ClassDef)):
                        if isinstance(sub, ast.Expr) and isinstance(sub.value, ast.Constant) and isinstance(sub.value.value, str):
                            continue     # docstring
                        body_lines.add(sub.lineno)
            # nested defs are walked on their own; drop their lines from the parent
            for st in ast.walk(node):
                if st is not node and isinstance(st, (ast.FunctionDef, ast.AsyncFunctionDef)):
                    for sub in ast.walk(st):
                        if isinstance(sub, ast.stmt) and sub is not st:
                            body_lines.discard(sub.lineno)
            miss = sorted(body_lines - got)
            tot += len(body_lines)
            miss_tot += len(miss)
            if miss:
                out.append((node.lineno, node.name, len(body_lines), miss))
    print('== %s: %d of %d statement lines inside functions never executed' % (rel, miss_tot, tot))
    for ln, name, n, miss in sorted(out):
        print('   %-40s %3d/%-3d missing: %s' % ('%s (l.%d)' % (name, ln), len(miss), n, _r(miss) if (_r := lambda m: ','.join(map(str, m[:25])) + (' ...' if len(m) > 25 else '')) else ''))
