#!/bin/bash
# tools/sweep_props.sh <tier> <seed> <PROP> [<PROP> ...]  -- like sweep.sh for a chosen set of properties
tier=$1; seed=$2; shift; shift
cd "$(dirname "$0")/.."
bad=0
for p in "$@"; do
  out=$(VERIF_SEED=$seed /venv/bin/python vcheck.py $p --tier $tier --no-evidence 2>&1); rc=$?
  echo "sweep tier=$tier seed=$seed $p exit=$rc $(echo "$out" | tail -1)"
  if [ $rc -ne 0 ]; then bad=$((bad+1)); echo "$out" | tail -30; fi
done
echo "sweep done: non-zero exits = $bad"
