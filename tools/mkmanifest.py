#!/venv/bin/python
"""Regenerate MANIFEST.json from the table below + the set of property modules that exist."""
import json, os
HERE = os.path.dirname(os.path.dirname(os.path.abspath(__file__)))

BASE = json.load(open('/root/.vp/BASELINE.json'))

T = {  # id: (technique, level text, level note, design ref)
 'C01': ("exhaustive geometry sweep + Hypothesis cases vs harness O(N^2) textbook DFT; rule-based state machine over executor cache histories",
         "Bounded exploration: every (m,n,M,N) geometry up to the stated bound for mdft and czt, random shapes/Q/shift/precision through every route, and call histories (clear, precision switch, repeats) compared against a DFT sum written in the harness and against a fresh executor. No absence claim beyond the explored sizes.",
         "Trusted: NumPy matmul/exp in float64, the harness reference DFT (vlib/util.ref_dft), tolerances of DESIGN section 3."),
 'C02': ("Hypothesis cases; Parseval / round-trip / group-law oracles",
         "Bounded exploration of unitarity and mutual inversion over all shapes (incl. 1xN), integer Q, band-complete mdft/czt pairs, and free-space group laws P(0)=1, P(-z)P(z)=1, P(z1)P(z2)=P(z1+z2).",
         "Trusted: NumPy FFT-free harness arithmetic (sums, norms); harness origin-preserving embed."),
 'C03': ("Hypothesis cases; analytic Dirichlet-kernel field evaluated at the coordinates the output reports",
         "Bounded exploration: tilted pupils with integer/fractional tilt on either axis, every route, requested dx, shifts; the output must equal the analytic periodic-sinc field at the physical coordinates it claims.",
         "Trusted: closed-form Dirichlet kernel in float64; scalar-dx data model (y spacing of the FFT route on non-square padded arrays is not asserted)."),
 'C04': ("exhaustive enumeration of (n_in,n_out,mode) + Hypothesis 2-D cases vs reference axis model (i-n//2)*dx",
         "Complete enumeration of pad/crop size pairs, grid sizes and point-source positions up to the stated bound, exact integer-data-movement comparison, plus generated 2-D cases through functions and Wavefront methods.",
         "Trusted: NumPy indexing; the one-line reference model of an axis."),
 'C05': ("Hypothesis cases; metamorphic relations (linearity, zero-embedding invariance, transposition, all-pass identity, Babinet, mask additivity)",
         "Bounded exploration over shapes of any parity/squareness with per-axis independent embeddings, both methods, both directions, mask shifts.",
         "Trusted: harness embed (not prysm.pad2d); relations are exact for the textbook transform."),
 'C06': ("Hypothesis cases; adjoint identity <y,Ax>=<A^H y,x> and central directional derivatives",
         "Bounded exploration of every shipped forward/backprop pair: linear maps by the adjoint identity with complex vectors, non-linear nodes and costs by two-step-size directional derivatives.",
         "Trusted: float64 inner products; finite differences at two step sizes (error of a wrong gradient is O(1), tolerance 1e-6). One open known finding (known_findings.json): DM.render_backprop of a rotated / tilted mirror is not the exact adjoint (interpolating warp); its bucket alone is suppressed and printed as KNOWN-FINDING, rotated mirrors are still held to a gross bound and to every other assertion."),
 'C07': ("Hypothesis cases vs scipy.special / closed forms / exact rational Zernike sums; Gauss-quadrature Gram matrices",
         "Bounded exploration of orders up to the numerically meaningful limit, all admissible shape parameters and N-D points against independent implementations; orthogonality through quadrature rules exact for the degrees involved.",
         "Trusted: scipy.special evaluators, numpy Gauss nodes, Python fractions."),
 'C08': ("Hypothesis cases; differential test sequence form vs single-order form",
         "Bounded exploration: ascending order lists (contiguous, gapped, singleton, long) and coordinate arrays of 0-3 dims incl. leading dimension == number of orders.",
         "Trusted: the single-order functions only as the comparison partner demanded by the property (their own correctness is C07)."),
 'C09': ("Hypothesis cases; complex-step derivative of the value routine",
         "Bounded exploration of all *_der/_der_seq, Zernike radial/azimuthal derivatives, Clenshaw derivative sums of order j, sag-and-slope evaluators vs Im f(x+ih)/h, h=1e-30 (exact to rounding for these arithmetic recurrences).",
         "Trusted: complex arithmetic of NumPy; scipy for higher Clenshaw derivative sums."),
 'C10': ("Hypothesis cases; explicit sum of coefficient*mode; synthesise-then-fit round trip with NaN masks",
         "Bounded exploration of dense/sparse/short coefficient sets through every fast path, the Q2d packer, and lstsq on synthesised data with arbitrary non-finite masks.",
         "Trusted: single-mode functions (C07), numpy.linalg for the conditioning filter."),
 'C11': ("complete enumeration of indices + targeted Hypothesis cases at perfect squares / triangular numbers",
         "Every index j up to the stated bound enumerated for Noll, Fringe, ANSI and XY with validity, injectivity, surjectivity, inverse and ordering oracles; random j up to 1e12 next to squares/triangular numbers.",
         "Trusted: Python integer arithmetic. Not asserted beyond j>2^50."),
 'C12': ("RuleBasedStateMachine histories with a reference model of validity; invariants after every step",
         "Bounded exploration of processing histories (<=40 steps) including coordinate reads before mutators; invariants on coordinate shape/spacing/polar consistency, validity-set model, idempotence and statistics identities.",
         "Trusted: harness model of each step's documented effect on validity; numpy nan-free statistics on data[isfinite]."),
 'C13': ("Hypothesis cases; Parseval, sinusoid-peak location, quadrature additivity oracles",
         "Bounded exploration over shapes (odd/even/non-square), dx, windows, band edges, both trapezoid API names (emulated through the backend shim), PSD-model synthesis with requested RMS.",
         "Trusted: NumPy sums; only NumPy 2.x is installed, the 1.x API is emulated."),
 'C14': ("write->read round trip on generated maps + enumeration of every truncation point of every generated file",
         "Fault enumeration: for each generated Zygo file every truncation length, for Code V every cut removing a whole token; round-trip oracle with asymmetric ramps, NaN patterns and format quantisation steps.",
         "Trusted: format quantisation steps derived from the written header; text cuts inside the last token are undecidable and accept either outcome."),
 'C15': ("Hypothesis cases; algebraic laws + O(N^4) direct circular convolution for small arrays",
         "Bounded exploration of conv laws, transfer-function composition under both shift conventions, MTF/OTF/PTF consistency for non-negative PSFs of every shape.",
         "Trusted: direct convolution sum in the harness."),
 'C16': ("enumeration of every bit depth 1..32 x generated images with a deterministic RNG proxy; exact data-movement oracles for binning and Bayer",
         "Bounded exploration: DN range/monotonicity/noise-free equality for all bit depths, binning/tiling adjointness and conservation on N-D arrays, Bayer round trips and native-site preservation for both layouts.",
         "Trusted: the backend-shim RNG proxy (noise replaced by its mean), integer arithmetic."),
 'C17': ("Hypothesis cases; energy conservation and cross-implementation agreement",
         "Bounded exploration of 1-6 lossless layers below the critical angle, both polarisations, batched vs loop.",
         "Trusted: Snell/admittance formulas in the harness."),
 'C18': ("Hypothesis cases; counting, coverage, area and analytic-inequality oracles with boundary don't-care bands",
         "Bounded exploration of hexagonal/keystone composites (rings, gaps, exclusions) and mask primitives.",
         "Trusted: analytic areas/inequalities; samples within 1e-9 scale of a boundary are don't-care."),
 'C19': ("Hypothesis cases; closed-form sag, analytic normals, Snell's law",
         "Bounded exploration of rays x surfaces x reflect/refract x poses.",
         "Trusted: closed-form conic sag and gradient in the harness."),
 'C20': ("Hypothesis cases; algebraic identities and batched-vs-loop differential",
         "Bounded exploration of retardances/orientations/charges, arbitrary complex 2x2 matrices and batches.",
         "Trusted: numpy.linalg 2x2/4x4 algebra."),
}
REFS = {k: '4/' + k for k in T}
LEVEL = {'C14': 'fault_enumeration'}

# properties whose module is finished, reviewed and quiet on the current tree (edit by hand)
BUILT = ['C01', 'C02', 'C03', 'C04', 'C05', 'C06', 'C07', 'C08', 'C09', 'C10', 'C11', 'C12', 'C13', 'C14', 'C15', 'C16', 'C17', 'C18', 'C19', 'C20']
built = sorted(p for p in BUILT if os.path.exists(os.path.join(HERE, 'props', p.lower() + '.py')))
checks = []
for pid in built:
    tech, text, note = T[pid]
    checks.append({
        'property_id': pid,
        'quick_cmd': '/venv/bin/python vcheck.py %s --tier quick' % pid,
        'thorough_cmd': '/venv/bin/python vcheck.py %s --tier thorough' % pid,
        'evidence_file': 'evidence/%s.json' % pid,
        'replay_cmd_template': '/venv/bin/python vcheck.py %s --replay {path}' % pid,
        'engine': 'vcheck',
        'level_claimed': {'category': LEVEL.get(pid, 'exploration'), 'text': text, 'design_ref': 'DESIGN.md section ' + REFS[pid]},
        'level_note': note,
        'technique': 'property-based testing: ' + tech,
    })
na = [{'property_id': pid, 'reason': 'check not built yet in this tree (planned: property-based, see DESIGN.md section 4/%s)' % pid}
      for pid in sorted(T) if pid not in built]
man = {
    'version': 1,
    'setup_cmd': '/venv/bin/python -c "import hypothesis" 2>/dev/null || /venv/bin/pip install --no-index --find-links /opt/veriftools/wheels hypothesis',
    'hooks': {
        'guard': 'PRYSM_VERIF',
        'enable': 'none needed: no source hooks exist; checks import /repo (working tree) directly. Random sources are controlled through public attributes (prysm.mathops backend shim, GumbelSoftmax.rng, numpy.random.seed).',
        'baseline_off_cmd': BASE['cmd'],
        'source_commits': [],
        'add_only': True,
    },
    'engines': [{'name': 'vcheck', 'path': 'vcheck.py', 'serves_properties': built,
                 'kind_free_text': 'Hypothesis 6.168 strategies + rule-based state machines + exhaustive enumeration of small finite domains, 16-process pool, root-cause bucketing, JSON replay files'}],
    'checks': checks,
    'not_applicable': na,
    'notes': 'All checks: /venv/bin/python vcheck.py <ID> --tier quick|thorough; VERIF_SEED selects the Hypothesis seed. Every tolerance comparison records its closest approach (error / tolerance), reported per clause in the evidence (closest_approach_to_a_tolerance); with VERIF_TARGET=1 the thorough tier additionally feeds it to hypothesis.target() (opt-in: Hypothesis\' optimiser was observed to spin for some modules, and registered commands must terminate). Genuine defects repaired by fix: commits in /repo and listed (status fixed) in known_findings.json; open entries print KNOWN-FINDING lines.',
}
json.dump(man, open(os.path.join(HERE, 'MANIFEST.json'), 'w'), indent=1)
print('claimed', built, 'not_applicable', [n['property_id'] for n in na])
