#!/venv/bin/python
"""tools/recheck_seeds.py [PROP ...] [--jobs 4]  -- re-run the registered quick check against every kept seeded defect (patch applied in a scratch
worktree; the repository tests and the demonstration are NOT re-run: they were confirmed when the seed was kept).  Prints the seeds that
are no longer caught and updates nothing.  A regression run for the harness itself after generators were changed."""
import json, os, subprocess, sys, glob, multiprocessing as mp

HERE = os.path.dirname(os.path.dirname(os.path.abspath(__file__)))


def sh(cmd, env=None, cwd=None, timeout=1800):
    e = dict(os.environ)
    e.update(env or {})
    p = subprocess.run(cmd, shell=isinstance(cmd, str), cwd=cwd, env=e, stdout=subprocess.PIPE, stderr=subprocess.STDOUT, text=True, timeout=timeout)
    return p.returncode, p.stdout


def one(sdir):
    ident = mp.current_process()._identity
    wt = '/tmp/wt/recheck-%d-%d' % (os.getppid(), ident[0] if ident else 0)     # several runs may be going on at once
    if not os.path.isdir(wt):
        sh('git -C /repo worktree add --detach %s HEAD -q' % wt)
    sh('git reset -q --hard && git clean -fdq', cwd=wt)
    prop = os.path.basename(sdir)[:3]
    rc, out = sh('git apply %s 2>/dev/null || (git reset -q --hard && git apply --3way %s)' % ((os.path.join(sdir, 'patch.diff'),) * 2), cwd=wt)    # a later fix: commit may have moved the context: three-way merge on the recorded blobs
    if rc != 0:
        return sdir, 'patch-does-not-apply', ''
    try:
        rc, out = sh([sys.executable, os.path.join(HERE, 'vcheck.py'), prop, '--tier', 'quick', '--no-evidence', '--jobs', '6'], env={'PRYSM_REPO': wt}, cwd=HERE)
    finally:
        sh('git reset -q --hard && git clean -fdq', cwd=wt)
    line = [l.strip()[:160] for l in out.splitlines() if 'bucket=' in l][:1]
    return sdir, {0: 'MISSED', 1: 'caught'}.get(rc, 'harness-%d' % rc), (line[0] if line else '')


def main():
    args = [a for a in sys.argv[1:] if not a.startswith('--')]
    jobs = int(sys.argv[sys.argv.index('--jobs') + 1]) if '--jobs' in sys.argv else 4
    args = [a for a in args if not a.isdigit()]
    match = sys.argv[sys.argv.index('--match') + 1] if '--match' in sys.argv else ''
    args = [a for a in args if a != match]
    dirs = sorted(d for d in glob.glob(os.path.join(HERE, 'seeded', '*')) if os.path.exists(os.path.join(d, 'patch.diff')) and (not args or os.path.basename(d)[:3] in args) and match in os.path.basename(d))
    with mp.Pool(jobs) as pool:
        res = pool.map(one, dirs, chunksize=1)
    bad = [r for r in res if r[1] != 'caught']
    for r in bad:
        print(r[1], os.path.basename(r[0]), r[2])
    print('seeds %d caught %d not-caught %d' % (len(res), len(res) - len(bad), len(bad)))
    for wt in glob.glob('/tmp/wt/recheck-%d-*' % os.getpid()):
        sh('git -C /repo worktree remove --force %s' % wt)


if __name__ == '__main__':
    main()
