#!/venv/bin/python
"""tools/keepseed.py <PROP> <src-dir> <name>  -- run tools/seedtest.py on a seeded defect and, if it is confirmed
(patch applies, 795 tests still pass, demo fails with / passes without), keep it as /verif/seeded/<PROP>-<name>/
with meta.json recording what was run and whether the registered check catches it."""
import json, os, shutil, subprocess, sys
HERE = os.path.dirname(os.path.dirname(os.path.abspath(__file__)))
prop, src, name = sys.argv[1:4]
out = subprocess.run([sys.executable, os.path.join(HERE, 'tools', 'seedtest.py'), prop, src] + sys.argv[4:], stdout=subprocess.PIPE, text=True).stdout
res = json.loads(out[out.index('{'):])
ok = res.get('applies') and res.get('tests_pass') and res.get('demo_ok')
dst = os.path.join(HERE, 'seeded', '%s-%s' % (prop, name))
if not ok:
    print('NOT CONFIRMED', prop, name, json.dumps({k: res.get(k) for k in ('applies', 'tests_pass', 'demo_ok', 'demo_out', 'apply_error', 'tests_tail')})[:800])
    sys.exit(1)
os.makedirs(dst, exist_ok=True)
for f in ('patch.diff', 'demo.py', 'notes.md'):
    if os.path.exists(os.path.join(src, f)) and os.path.abspath(os.path.join(src, f)) != os.path.abspath(os.path.join(dst, f)):
        shutil.copy(os.path.join(src, f), os.path.join(dst, f))
notes = open(os.path.join(src, 'notes.md')).read() if os.path.exists(os.path.join(src, 'notes.md')) else ''
checks = {k[6:]: {'caught': v['caught'], 'exit': v['exit'], 'first_lines': v['lines'][:2]} for k, v in res.items() if k.startswith('check_')}
meta = {
    'property': prop, 'name': name,
    'origin': 'written by a fresh sub-agent given only the property text and its own scratch worktree of /repo (nothing from /verif)',
    'needs_to_manifest': notes.strip().split('\n\n')[0][:1500] if notes else '',
    'base_commit': subprocess.run('git -C /repo rev-parse --short HEAD', shell=True, stdout=subprocess.PIPE, text=True).stdout.strip(),
    'confirmed': {'patch_applies': True, 'repo_tests_795_pass_with_patch': True, 'demo_exit_with_patch': res['demo_patched_exit'], 'demo_exit_without_patch': res['demo_clean_exit']},
    'ran': ['git worktree add <scratch> HEAD; git apply patch.diff', 'PRYSM_REPO=<scratch> tools/baseline.py', 'PRYSM_TREE=<scratch> demo.py ; PRYSM_TREE=/repo demo.py',
            'PRYSM_REPO=<scratch> vcheck.py %s --tier quick' % prop],
    'checks': checks,
}
old = os.path.join(dst, 'meta.json')
if os.path.exists(old):
    try:
        o = json.load(open(old))
        if o.get('history'):
            meta['history'] = o['history']
        if o.get('first_evaluation') or o.get('checks'):
            meta['first_evaluation'] = o.get('first_evaluation') or {k: v.get('caught') for k, v in o['checks'].items()}
    except Exception:  # noqa
        pass
json.dump(meta, open(os.path.join(dst, 'meta.json'), 'w'), indent=1)
print('KEPT', prop, name, {k: v['caught'] for k, v in checks.items()})
