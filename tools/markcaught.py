#!/venv/bin/python
"""tools/markcaught.py <histories.json>  -- after a check was strengthened: re-run the registered quick check against each named kept seed
(patch applied in a scratch worktree, like tools/recheck_seeds.py) and update seeded/<name>/meta.json: `checks` gets the new outcome,
`first_evaluation` keeps the outcome recorded when the seed was kept, `history` gets the given text.  histories.json: {"C01-r9-1": "text", ...}."""
import json, os, subprocess, sys
HERE = os.path.dirname(os.path.dirname(os.path.abspath(__file__)))
hist = json.load(open(sys.argv[1]))
wt = '/tmp/wt/markcaught-%d' % os.getpid()
subprocess.run('git -C /repo worktree add --detach %s HEAD -q' % wt, shell=True, check=True)
try:
    for name, text in hist.items():
        sdir = os.path.join(HERE, 'seeded', name)
        prop = name[:3]
        subprocess.run('git reset -q --hard && git clean -fdq', shell=True, cwd=wt)
        if subprocess.run('git apply %s 2>/dev/null || (git reset -q --hard && git apply --3way %s)' % ((os.path.join(sdir, 'patch.diff'),) * 2), shell=True, cwd=wt).returncode != 0:
            print('PATCH DOES NOT APPLY', name)
            continue
        p = subprocess.run([sys.executable, os.path.join(HERE, 'vcheck.py'), prop, '--tier', 'quick', '--no-evidence'], cwd=HERE, env=dict(os.environ, PRYSM_REPO=wt),
                           stdout=subprocess.PIPE, stderr=subprocess.STDOUT, text=True)
        lines = [l[:300] for l in p.stdout.splitlines() if 'VIOLATION' in l or 'bucket=' in l or l.startswith('OK ')]
        mp = os.path.join(sdir, 'meta.json')
        m = json.load(open(mp))
        if 'first_evaluation' not in m:
            m['first_evaluation'] = {k: v.get('caught') for k, v in m.get('checks', {}).items()}
        m.setdefault('checks', {})[prop] = {'caught': p.returncode == 1, 'exit': p.returncode, 'first_lines': lines[:2]}
        m['history'] = text
        json.dump(m, open(mp, 'w'), indent=1)
        print(name, 'caught' if p.returncode == 1 else 'NOT CAUGHT (exit %d)' % p.returncode, lines[:1])
finally:
    subprocess.run('git -C /repo worktree remove --force %s' % wt, shell=True)
