#!/venv/bin/python
"""Run the repository's pinned test suite and compare with /root/.vp/BASELINE.json's stable_pass list.

Usage: /venv/bin/python tools/baseline.py      (exit 0 iff every stable_pass test passed)
"""
import json, os, subprocess, sys, tempfile, xml.etree.ElementTree as ET

base = json.load(open('/root/.vp/BASELINE.json'))
want = set(base['stable_pass'])
with tempfile.TemporaryDirectory() as d:
    xml = os.path.join(d, 'j.xml')
    cmd = ['/venv/bin/python', '-m', 'pytest', '-q', '-p', 'no:cacheprovider', '--timeout=900',
           '--continue-on-collection-errors', '--junitxml=' + xml, '-n', os.environ.get('BASELINE_N', '8')]
    env = dict(os.environ)
    env.pop('PRYSM_VERIF', None)
    p = subprocess.run(cmd, cwd=os.environ.get('PRYSM_REPO', '/repo'), env=env, stdout=subprocess.PIPE, stderr=subprocess.STDOUT, text=True)
    tail = p.stdout.strip().splitlines()[-1:] 
    passed = set()
    for tc in ET.parse(xml).getroot().iter('testcase'):
        if not any(ch.tag in ('failure', 'error', 'skipped') for ch in tc):
            passed.add(tc.get('classname') + '::' + tc.get('name'))
missing = sorted(want - passed)
print('pytest:', *tail)
print('stable_pass wanted %d, passed of those %d, extra passing %d' % (len(want), len(want & passed), len(passed - want)))
for m in missing[:40]:
    print('  NOT PASSING:', m)
sys.exit(1 if missing else 0)
