#!/bin/bash
# tools/mut.sh <PROP> <name> <sed-expr> <file-relative-to-repo>   (mutation smoke test in a scratch worktree; not a registered check)
WT=${MUT_WT:-/tmp/wt/m1}
[ -d $WT ] || git -C /repo worktree add --detach $WT HEAD -q
cd $WT && git checkout -q --detach $(git -C /repo rev-parse HEAD) 2>/dev/null; git checkout -q -- .
sed -i "$3" $4
if git diff --quiet; then echo "MUTANT $2 did not apply"; exit 3; fi
out=$(cd /verif && PRYSM_REPO=$WT /venv/bin/python vcheck.py $1 --tier quick --no-evidence ${MUT_ARGS} 2>&1 | grep -E "VIOLATION|^OK|HARNESS" | head -2 | tr '\n' ' ')
echo "MUTANT $2 => $out"
git checkout -q -- .
