#!/venv/bin/python
"""tools/seedtest.py <PROP> <seed-dir> [--tier quick] [--keep]

Evaluate one seeded defect (patch.diff + demo.py) against the registered check of PROP:
  1. scratch worktree of /repo HEAD under /tmp/wt/seedtest-<pid>, apply patch.diff
  2. repository test suite still passes (795 stable tests)
  3. demo.py exits 1 on the patched tree and 0 on /repo
  4. vcheck.py PROP --tier quick with PRYSM_REPO=<patched tree>: exit 1 expected (caught)
Prints one JSON line with the outcome; removes the worktree afterwards.
"""
import json, os, subprocess, sys, time, shutil

HERE = os.path.dirname(os.path.dirname(os.path.abspath(__file__)))
prop, sdir = sys.argv[1], os.path.abspath(sys.argv[2])
tier = 'quick'
if '--tier' in sys.argv:
    tier = sys.argv[sys.argv.index('--tier') + 1]
wt = '/tmp/wt/seedtest-%d' % os.getpid()
res = {'property': prop, 'seed': sdir}


def run(cmd, env=None, cwd=None, timeout=3600):
    e = dict(os.environ)
    e.update(env or {})
    p = subprocess.run(cmd, shell=isinstance(cmd, str), cwd=cwd, env=e, stdout=subprocess.PIPE, stderr=subprocess.STDOUT, text=True, timeout=timeout)
    return p.returncode, p.stdout


try:
    run('git -C /repo worktree add --detach %s HEAD -q' % wt)
    rc, out = run('git apply %s 2>/dev/null || (git reset -q --hard && git apply --3way %s)' % ((os.path.join(sdir, 'patch.diff'),) * 2), cwd=wt)
    res['applies'] = rc == 0
    if rc != 0:
        res['apply_error'] = out[-500:]
        raise SystemExit
    rc, out = run([sys.executable, os.path.join(HERE, 'tools', 'baseline.py')], env={'PRYSM_REPO': wt})
    res['tests_pass'] = rc == 0
    if rc != 0:
        res['tests_tail'] = out[-600:]
    demo = os.path.join(sdir, 'demo.py')
    rc1, o1 = run([sys.executable, demo], env={'PRYSM_TREE': wt, 'PYTHONPATH': wt}, cwd=wt)
    rc0, o0 = run([sys.executable, demo], env={'PRYSM_TREE': '/repo', 'PYTHONPATH': '/repo'}, cwd='/repo')
    res['demo_patched_exit'] = rc1
    res['demo_clean_exit'] = rc0
    res['demo_ok'] = (rc1 == 1 and rc0 == 0)
    if not res['demo_ok']:
        res['demo_out'] = (o1[-400:], o0[-400:])
    for p_ in [prop] + [a for a in sys.argv[3:] if a.startswith('C') and len(a) == 3]:
        t0 = time.time()
        rc, out = run([sys.executable, os.path.join(HERE, 'vcheck.py'), p_, '--tier', tier, '--no-evidence'], env={'PRYSM_REPO': wt}, cwd=HERE)
        lines = [l for l in out.splitlines() if 'VIOLATION' in l or 'bucket=' in l or l.startswith('HARNESS') or l.startswith('OK ')]
        res['check_%s' % p_] = {'exit': rc, 'caught': rc == 1, 'wall': round(time.time() - t0, 1), 'lines': [l[:300] for l in lines[:6]]}
finally:
    run('git -C /repo worktree remove --force %s' % wt)
    print(json.dumps(res, indent=1))
