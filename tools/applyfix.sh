#!/bin/bash
# tools/applyfix.sh <msgfile> <patch> [<patch> ...]   -- apply patch(es) to /repo as ONE commit using the message file; prints the hash
set -e
msg=$1; shift
for p in "$@"; do git -C /repo apply --recount -p1 "$p" || { echo "FAILED to apply $p"; git -C /repo checkout -- .; exit 1; }; done
git -C /repo commit -q -a -F "$msg"
git -C /repo rev-parse --short HEAD
