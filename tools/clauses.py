#!/venv/bin/python
"""print a markdown table of all clauses (name, kind, what it decides) for DESIGN.md"""
import os, sys, importlib, warnings
warnings.simplefilter('ignore')
HERE = os.path.dirname(os.path.dirname(os.path.abspath(__file__)))
sys.path.insert(0, HERE); sys.path.insert(0, '/repo')
for f in sorted(os.listdir(os.path.join(HERE, 'props'))):
    if not (f.startswith('c') and f.endswith('.py')):
        continue
    m = importlib.import_module('props.' + f[:-3])
    print('\n**%s**\n' % f[:-3].upper())
    print('| clause | kind | decides |'); print('|---|---|---|')
    for c in m.CLAUSES:
        print('| `%s` | %s | %s |' % (c.name, c.kind, ' '.join((c.doc or '').split())[:400]))
