#!/bin/bash
# tools/keepround.sh <PROP> <round>  -- confirm and keep the (up to) three seeds a writer left in /tmp/seeds/<PROP>-r<round>/<k>/
cd "$(dirname "$0")/.."
p=$1; r=$2
for k in 1 2 3; do
  d=/tmp/seeds/$p-r$r/$k
  [ -f $d/patch.diff ] || { echo "NO PATCH $p r$r $k"; continue; }
  /venv/bin/python tools/keepseed.py $p $d r$r-$k
done
