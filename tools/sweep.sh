#!/bin/bash
# tools/sweep.sh <tier> <seed> [<seed> ...]  -- false-alarm guard: every registered check at the given seeds on the unchanged tree.
# Prints one line per (property, seed) and the output of every run that did not exit 0.  Measuring tool, not registered.
tier=$1; shift
cd "$(dirname "$0")/.."
bad=0
for s in "$@"; do
  for i in $(seq -w 1 20); do
    p=C$i
    out=$(VERIF_SEED=$s /venv/bin/python vcheck.py $p --tier $tier --no-evidence 2>&1); rc=$?
    echo "sweep tier=$tier seed=$s $p exit=$rc"
    if [ $rc -ne 0 ]; then bad=$((bad+1)); echo "$out" | tail -30; fi
  done
done
echo "sweep done: non-zero exits = $bad"
