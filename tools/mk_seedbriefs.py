#!/venv/bin/python
"""tools/mk_seedbriefs.py <round>  -- write /tmp/seedbrief/<ID>.md, the brief handed to the fresh sub-agent that writes round-<round>
seeded defects for property <ID>.  The brief contains only the property's text and anchors and the one-line titles of the changes
already kept for it (so that mechanisms are not repeated); nothing about the checks.  The agent is started with
"Read /tmp/seedbrief/<ID>.md and carry out the task; do not read anything under /verif"; its output lands in /tmp/seeds/<ID>-r<round>/<k>/
and is confirmed and kept with tools/keepseed.py <ID> /tmp/seeds/<ID>-r<round>/<k> r<round>-<k>."""
import json, glob, os, sys
HERE = os.path.dirname(os.path.dirname(os.path.abspath(__file__)))
ROUND = int(sys.argv[1])
props = {json.loads(l)['id']: json.loads(l) for l in open(os.path.join(HERE, 'properties.jsonl'))}
os.makedirs('/tmp/seedbrief', exist_ok=True)
os.makedirs('/tmp/seeds', exist_ok=True)
TEMPLATE = open(os.path.join(HERE, 'notes', 'SEED_WRITER_BRIEF.tmpl')).read()
for pid, p in props.items():
    used = []
    for d in sorted(glob.glob(os.path.join(HERE, 'seeded', '%s-*' % pid))):
        n, t = os.path.join(d, 'notes.md'), ''
        if os.path.exists(n):
            for l in open(n):
                if l.strip():
                    t = l.strip().lstrip('# ').strip()
                    break
        if not t:
            t = json.load(open(os.path.join(d, 'meta.json'))).get('needs_to_manifest', '')[:200]
        used.append('- ' + t[:230])
    a = p['anchors']
    txt = (TEMPLATE.replace('@PID@', pid).replace('@ROUND@', str(ROUND)).replace('@TITLE@', p['title']).replace('@STATEMENT@', p['statement'])
           .replace('@QUANT@', p['quantifier']['text']).replace('@FILES@', ', '.join(a['files']))
           .replace('@MECH@', '; '.join(m['name'] + ' (' + m['where'] + ')' for m in a.get('mechanism', [])))
           .replace('@OBS@', '; '.join(a.get('observe_at', []))).replace('@USED@', '\n'.join(used)))
    open('/tmp/seedbrief/%s.md' % pid, 'w').write(txt)
print('wrote', len(props), 'briefs to /tmp/seedbrief')
