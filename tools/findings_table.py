#!/venv/bin/python
"""markdown table of the repaired / open findings (from known_findings.json + /repo's git log) for DESIGN.md"""
import json, subprocess, collections, os
HERE = os.path.dirname(os.path.dirname(os.path.abspath(__file__)))
d = json.load(open(os.path.join(HERE, 'known_findings.json')))
log = subprocess.run(['git', '-C', '/repo', 'log', '--reverse', '--format=%h\t%s', '18b6546..HEAD'], stdout=subprocess.PIPE, text=True).stdout.strip().splitlines()
subj = collections.OrderedDict(l.split('\t', 1) for l in log)
by = collections.defaultdict(list)
for e in d['findings']:
    by[e.get('commit') or 'open'].append(e)
print('| # | fix commit | what was wrong (commit subject) | properties | regression replays |')
print('|---|---|---|---|---|')
for i, (c, s) in enumerate(subj.items(), 1):
    es = by.get(c, [])
    props = sorted({e['property'] for e in es})
    print('| %d | `%s` | %s | %s | %d |' % (i, c, s[5:] if s.startswith('fix: ') else s, ' '.join(props) or '-', len(es)))
for e in by.get('open', []):
    print('| open | - | %s | %s | %s |' % (e['description'], e['property'], e['replay']))
missing = [c for c in subj if c not in by]
if missing:
    print('\ncommits without a recorded finding:', missing)
