#!/venv/bin/python
"""tools/automut.py  -- automatic mutation run (a measuring tool, NOT a registered check; nothing here decides a property).

  automut.py run  <PROP> [--n 25] [--seed 1] [--jobs 4]   sample mutants in the code PROP is anchored in, run PROP's quick check on each
  automut.py tests <PROP>                                  run the repository's 795 tests on every survivor of the last run
  automut.py show <PROP>                                   print survivors (with the diff) that also pass the repository's tests

Mutants are single-token source edits (comparison / arithmetic / boolean operator swaps, small integer constants +-1, sign
removal, swap of the first two positional arguments of a call, deletion of a one-line statement) inside the functions listed in
TARGETS, applied in a scratch worktree of /repo under /tmp/wt/automut-<k> (removed at the end).  Results go to
/verif/mutation/<PROP>.json.  A survivor that passes the repository tests is either an equivalent mutant or a blind spot of the
check; they are inspected by hand and the check is strengthened where the property really is broken.
"""
import ast, json, os, random, re, subprocess, sys, multiprocessing as mp

HERE = os.path.dirname(os.path.dirname(os.path.abspath(__file__)))
REPO = '/repo'

ALL = r'.*'
TARGETS = {
    'C01': [('prysm/fttools.py', r'_setup_bases|dft2$|idft2$|czt2$|iczt2$|_key|_czt_'), ('prysm/propagation.py', r'^(focus|unfocus|focus_fixed_sampling|unfocus_fixed_sampling)$')],
    'C02': [('prysm/propagation.py', r'^(focus|unfocus|angular_spectrum|angular_spectrum_transfer_function|free_space)$'), ('prysm/fttools.py', r'^(pad2d|czt2|iczt2|dft2|idft2)$')],
    'C03': [('prysm/propagation.py', r'^(Q_for_sampling|pupil_sample_to_psf_sample|psf_sample_to_pupil_sample|focus|unfocus|focus_fixed_sampling|unfocus_fixed_sampling|from_amp_and_phase|intensity)$')],
    'C04': [('prysm/fttools.py', r'^(fftrange|pad2d|crop_center|forward_ft_unit)$'), ('prysm/coordinates.py', r'^(make_xy_grid)$'),
            ('prysm/_richdata.py', r'^(x|y|r|t|slices|__init__)$'), ('prysm/psf.py', r'^(centroid)$'), ('prysm/propagation.py', r'^(pad2d|crop)$'),
            ('prysm/interferogram.py', r'^(pad|crop|recenter)$')],
    'C05': [('prysm/propagation.py', r'^(to_fpm_and_back|babinet|focus_fixed_sampling|unfocus_fixed_sampling)$'), ('prysm/fttools.py', r'_setup_bases|dft2$|idft2$|czt2$|iczt2$')],
    'C06': [('prysm/fttools.py', r'backprop'), ('prysm/propagation.py', r'backprop'), ('prysm/x/optym/activation.py', ALL), ('prysm/x/optym/cost.py', ALL),
            ('prysm/x/optym/operators.py', ALL), ('prysm/x/dm.py', r'render|copy|__init__'), ('prysm/polynomials/__init__.py', r'backprop')],
    'C07': [('prysm/polynomials/jacobi.py', r'^(jacobi|weight|recurrence_abc|jacobi_seq)$'), ('prysm/polynomials/cheby.py', r'^cheby[1-4]$'), ('prysm/polynomials/legendre.py', r'^legendre$'),
            ('prysm/polynomials/hermite.py', r'^hermite_(He|H)$'), ('prysm/polynomials/laguerre.py', r'^laguerre$'), ('prysm/polynomials/dickson.py', r'^dickson[12]$'),
            ('prysm/polynomials/zernike.py', r'^(zernike_nm|zernike_norm|zero_separation)$'), ('prysm/polynomials/qpoly.py', r'^(Qbfs|Qcon|Q2d|g_qbfs|h_qbfs|f_qbfs|F_q2d|G_q2d|g_q2d|f_q2d|abc_q2d|kronecker|gamma_func)'),
            ('prysm/polynomials/xy.py', r'^xy$'), ('prysm/polynomials/__init__.py', r'^hopkins$'), ('prysm/mathops.py', r'^(gamma|kronecker|sign)$')],
    'C08': [('prysm/polynomials/jacobi.py', r'_seq$'), ('prysm/polynomials/cheby.py', r'_seq$'), ('prysm/polynomials/legendre.py', r'_seq$'), ('prysm/polynomials/hermite.py', r'_seq$'),
            ('prysm/polynomials/laguerre.py', r'_seq$'), ('prysm/polynomials/dickson.py', r'_seq$'), ('prysm/polynomials/zernike.py', r'_seq$'), ('prysm/polynomials/qpoly.py', r'_seq$'),
            ('prysm/polynomials/xy.py', r'_seq$')],
    'C09': [('prysm/polynomials/jacobi.py', r'der'), ('prysm/polynomials/cheby.py', r'der'), ('prysm/polynomials/legendre.py', r'der'), ('prysm/polynomials/hermite.py', r'der'),
            ('prysm/polynomials/laguerre.py', r'der'), ('prysm/polynomials/zernike.py', r'der'), ('prysm/polynomials/qpoly.py', r'der|compute_z_zprime|product_rule'),
            ('prysm/x/raytracing/surfaces.py', r'_der$|_and_der$|sigma')],
    'C10': [('prysm/polynomials/__init__.py', r'^(sum_of_2d_modes|lstsq)$'), ('prysm/polynomials/jacobi.py', r'clenshaw'), ('prysm/polynomials/qpoly.py', r'clenshaw|change_basis|compute_z_zprime|Q2d_nm_c_to_a_b|abc_q2d_clenshaw'),
            ('prysm/interferogram.py', r'^pvr$')],
    'C11': [('prysm/polynomials/zernike.py', r'noll|fringe|ansi|nm_to|_to_nm|n_m_to|zernikes_to_magnitude|top_n'), ('prysm/polynomials/xy.py', r'xy_j_to_mn')],
    'C12': [('prysm/interferogram.py', r'^(fill|crop|recenter|remove_piston|remove_tiptilt|remove_power|mask|strip_latcal|latcal|pad|spike_clip|filter|fit_plane|fit_sphere|pv|rms|Sa|std|dropout_percentage|__init__)$'),
            ('prysm/util.py', r'^(mean|pv|rms|Sa|std)$'), ('prysm/_richdata.py', r'^(x|y|r|t|shape|size|copy)$')],
    'C13': [('prysm/interferogram.py', r'^(psd|bandlimited_rms|render_synthetic_surface|window_2d_welch|abc_psd|ab_psd|total_integrated_scatter|render_from_psd|hann2d|make_window)$')],
    'C14': [('prysm/io.py', r'zygo|codev'), ('prysm/interferogram.py', r'zygo')],
    'C15': [('prysm/convolution.py', ALL), ('prysm/otf.py', r'from_psf|transform_psf')],
    'C16': [('prysm/detector.py', r'^(expose|bindown|tile|__init__|olpf_ft|pixel_ft|bindown_with_units)$'), ('prysm/bayer.py', ALL)],
    'C17': [('prysm/thinfilm.py', ALL)],
    'C18': [('prysm/segmented.py', ALL), ('prysm/geometry.py', ALL)],
    'C19': [('prysm/x/raytracing/spencer_and_murty.py', ALL), ('prysm/x/raytracing/surfaces.py', ALL)],
    'C20': [('prysm/x/polarization.py', ALL)],
}

BIN = {ast.Add: ('+', '-'), ast.Sub: ('-', '+'), ast.Mult: ('*', '/'), ast.Div: ('/', '*'), ast.FloorDiv: ('//', '/'), ast.Mod: ('%', '//')}
CMP = {ast.Lt: ('<', '<='), ast.LtE: ('<=', '<'), ast.Gt: ('>', '>='), ast.GtE: ('>=', '>'), ast.Eq: ('==', '!='), ast.NotEq: ('!=', '==')}


class Sites(ast.NodeVisitor):
    def __init__(self, src, fre):
        self.b = src.encode()
        self.lines = [0]
        for ln in self.b.split(b'\n'):
            self.lines.append(self.lines[-1] + len(ln) + 1)
        self.fre = re.compile(fre)
        self.stack = []
        self.out = []          # (start, end, replacement, description)

    def pos(self, lineno, col):
        return self.lines[lineno - 1] + col

    def span(self, n):
        return self.pos(n.lineno, n.col_offset), self.pos(n.end_lineno, n.end_col_offset)

    def active(self):
        return any(self.fre.search(f) for f in self.stack)

    def visit_FunctionDef(self, node):
        self.stack.append(node.name)
        body = node.body
        if body and isinstance(body[0], ast.Expr) and isinstance(getattr(body[0], 'value', None), ast.Constant) and isinstance(body[0].value.value, str):
            body = body[1:]
        for st_ in body:
            self.visit(st_)
        self.stack.pop()
    visit_AsyncFunctionDef = visit_FunctionDef

    def between(self, a_end, b_start, old, new, desc):
        seg = self.b[a_end:b_start]
        i = seg.find(old.encode())
        if i >= 0:
            self.out.append((a_end + i, a_end + i + len(old), new, desc))

    def generic_visit(self, node):
        if self.active():
            self.sites(node)
        super().generic_visit(node)

    def sites(self, node):
        ln = getattr(node, 'lineno', 0)
        if isinstance(node, ast.BinOp) and type(node.op) in BIN:
            old, new = BIN[type(node.op)]
            self.between(self.span(node.left)[1], self.span(node.right)[0], old, new, 'L%d binop %s -> %s' % (ln, old, new))
        elif isinstance(node, ast.Compare) and len(node.ops) == 1 and type(node.ops[0]) in CMP:
            old, new = CMP[type(node.ops[0])]
            self.between(self.span(node.left)[1], self.span(node.comparators[0])[0], old, new, 'L%d compare %s -> %s' % (ln, old, new))
        elif isinstance(node, ast.BoolOp) and len(node.values) >= 2:
            old, new = ('and', 'or') if isinstance(node.op, ast.And) else ('or', 'and')
            self.between(self.span(node.values[0])[1], self.span(node.values[1])[0], old, new, 'L%d boolop %s -> %s' % (ln, old, new))
        elif isinstance(node, ast.UnaryOp) and isinstance(node.op, ast.USub) and not isinstance(node.operand, ast.Constant):
            s, _ = self.span(node)
            if self.b[s:s + 1] == b'-':
                self.out.append((s, s + 1, '', 'L%d drop unary minus' % ln))
        elif isinstance(node, ast.UnaryOp) and isinstance(node.op, ast.Not):
            s, _ = self.span(node)
            o, _ = self.span(node.operand)
            self.out.append((s, o, '', 'L%d drop not' % ln))
        elif isinstance(node, ast.Constant) and type(node.value) is int and 0 <= node.value <= 4:
            s, e = self.span(node)
            for new in (node.value + 1, node.value - 1):
                self.out.append((s, e, '(%d)' % new if new < 0 else str(new), 'L%d const %d -> %d' % (ln, node.value, new)))
        elif isinstance(node, ast.Constant) and type(node.value) is float and node.value not in (0.0,):
            s, e = self.span(node)
            self.out.append((s, e, repr(node.value * 2), 'L%d const %r -> %r' % (ln, node.value, node.value * 2)))
        elif isinstance(node, ast.Call) and len(node.args) >= 2 and all(isinstance(a, (ast.Name, ast.Attribute, ast.Subscript, ast.Constant)) for a in node.args[:2]):
            (s0, e0), (s1, e1) = self.span(node.args[0]), self.span(node.args[1])
            t0, t1 = self.b[s0:e0], self.b[s1:e1]
            if t0 != t1 and e0 <= s1:
                self.out.append((s0, e1, (t1 + self.b[e0:s1] + t0).decode(), 'L%d swap first two call arguments' % ln))
        elif isinstance(node, (ast.Assign, ast.AugAssign)) or (isinstance(node, ast.Expr) and isinstance(node.value, ast.Call)):
            if node.lineno == node.end_lineno:
                s, e = self.span(node)
                self.out.append((s, e, 'pass', 'L%d delete statement' % ln))
        elif isinstance(node, ast.If) and not node.orelse:
            s, e = self.span(node.test)
            self.out.append((s, e, 'False', 'L%d if-condition -> False' % ln))
            self.out.append((s, e, 'True', 'L%d if-condition -> True' % ln))
        elif isinstance(node, ast.Tuple) and len(node.elts) == 2 and isinstance(node.ctx, ast.Load) and all(isinstance(a, (ast.Name, ast.Attribute, ast.Subscript)) for a in node.elts):
            (s0, e0), (s1, e1) = self.span(node.elts[0]), self.span(node.elts[1])
            if self.b[s0:e0] != self.b[s1:e1]:
                self.out.append((s0, e1, (self.b[s1:e1] + self.b[e0:s1] + self.b[s0:e0]).decode(), 'L%d swap the two tuple elements' % ln))


def mutants_of(prop):
    out = []
    for rel, fre in TARGETS[prop]:
        src = open(os.path.join(REPO, rel)).read()
        v = Sites(src, fre)
        v.visit(ast.parse(src))
        for (s, e, new, desc) in v.out:
            out.append({'file': rel, 'start': s, 'end': e, 'new': new, 'desc': desc, 'old': v.b[s:e].decode()})
    return out


def sh(cmd, env=None, cwd=None, timeout=3600):
    import signal
    e = dict(os.environ)
    e.update(env or {})
    p = subprocess.Popen(cmd, shell=isinstance(cmd, str), cwd=cwd, env=e, stdout=subprocess.PIPE, stderr=subprocess.STDOUT, text=True, start_new_session=True)
    try:
        out, _ = p.communicate(timeout=timeout)
    except subprocess.TimeoutExpired:
        os.killpg(p.pid, signal.SIGKILL)      # the whole group: a mutant that never terminates leaves pool workers behind otherwise
        p.communicate()
        raise
    return p.returncode, out


def worktree(k):
    wt = '/tmp/wt/automut-%s-%d' % (os.environ.get('AUTOMUT_TAG', 'x'), k)
    if not os.path.isdir(wt):
        sh('git -C /repo worktree add --detach %s HEAD -q' % wt)
    sh('git checkout -q -- .', cwd=wt)
    return wt


def apply(wt, m):
    path = os.path.join(wt, m['file'])
    b = open(os.path.join(REPO, m['file']), 'rb').read()
    nb = b[:m['start']] + m['new'].encode() + b[m['end']:]
    try:
        compile(nb, path, 'exec')
    except SyntaxError:
        return False
    open(path, 'wb').write(nb)
    return True


def restore(wt, m):
    sh('git checkout -q -- %s' % m['file'], cwd=wt)


def job_check(args):
    prop, m, k = args
    wt = worktree(k)
    if not apply(wt, m):
        return dict(m, status='syntax-error')
    try:
        rc, out = sh([sys.executable, os.path.join(HERE, 'vcheck.py'), prop, '--tier', 'quick', '--no-evidence', '--jobs', '6'], env={'PRYSM_REPO': wt}, cwd=HERE, timeout=300)
    except subprocess.TimeoutExpired:
        rc, out = 1, 'bucket=TIMEOUT (the mutant does not terminate within 300 s; the unchanged check takes < 60 s)'
    finally:
        restore(wt, m)
    lines = [l.strip()[:200] for l in out.splitlines() if 'bucket=' in l][:2]
    return dict(m, status={0: 'survived', 1: 'killed'}.get(rc, 'harness-%d' % rc), lines=lines)


def job_tests(args):
    m, k = args
    wt = worktree(k)
    apply(wt, m)
    try:
        rc, out = sh([sys.executable, os.path.join(HERE, 'tools', 'baseline.py')], env={'PRYSM_REPO': wt}, timeout=3600)
    except subprocess.TimeoutExpired:
        rc = 1
    finally:
        restore(wt, m)
    return dict(m, tests_pass=(rc == 0))


def _slot(x):
    # each pool process gets its own worktree index
    ident = mp.current_process()._identity
    return ident[0] if ident else 0


def run_check(a):
    prop, m = a
    return job_check((prop, m, _slot(None)))


def run_tests(a):
    return job_tests((a, 10 + _slot(None)))


def main():
    cmd, prop = sys.argv[1], sys.argv[2]
    os.environ['AUTOMUT_TAG'] = prop
    opt = dict(zip(sys.argv[3::2], sys.argv[4::2]))
    resf = os.path.join(HERE, 'mutation', prop + '.json')
    os.makedirs(os.path.dirname(resf), exist_ok=True)
    if cmd == 'run':
        n, seed, jobs = int(opt.get('--n', 25)), int(opt.get('--seed', 1)), int(opt.get('--jobs', 4))
        ms = mutants_of(prop)
        random.Random(seed).shuffle(ms)
        pick = ms[:n]
        with mp.Pool(jobs) as pool:
            res = pool.map(run_check, [(prop, m) for m in pick], chunksize=1)
        old = json.load(open(resf)) if os.path.exists(resf) else {'runs': []}
        old['runs'].append({'seed': seed, 'sites_total': len(ms), 'sampled': len(pick), 'base_commit': sh('git -C /repo rev-parse --short HEAD')[1].strip(), 'mutants': res})
        json.dump(old, open(resf, 'w'), indent=1)
        c = {}
        for r in res:
            c[r['status']] = c.get(r['status'], 0) + 1
        print(prop, 'sites', len(ms), 'sampled', len(pick), c)
    elif cmd == 'tests':
        jobs = int(opt.get('--jobs', 2))
        d = json.load(open(resf))
        run = d['runs'][-1]
        surv = [m for m in run['mutants'] if m['status'] == 'survived' and 'tests_pass' not in m]
        with mp.Pool(jobs) as pool:
            res = pool.map(run_tests, surv, chunksize=1)
        by = {(m['file'], m['start'], m['new']): m for m in res}
        for m in run['mutants']:
            k = (m['file'], m['start'], m['new'])
            if k in by:
                m['tests_pass'] = by[k]['tests_pass']
        json.dump(d, open(resf, 'w'), indent=1)
        print(prop, 'survivors', len(surv), 'of which pass the repository tests', sum(1 for m in res if m['tests_pass']))
    elif cmd == 'show':
        d = json.load(open(resf))
        for m in d['runs'][-1]['mutants']:
            if m['status'] == 'survived' and m.get('tests_pass', True):
                src = open(os.path.join(REPO, m['file']), 'rb').read()
                ls = src.rfind(b'\n', 0, m['start']) + 1
                le = src.find(b'\n', m['end'])
                print('--- %s %s   [%s -> %s]%s%s' % (m['file'], m['desc'], m['old'], m['new'], '' if 'tests_pass' in m else ' (tests not run)',
                                                      ' verdict: ' + m['verdict'] if m.get('verdict') else ''))
                print('    ' + src[ls:le].decode().strip()[:200])
    for k in range(0, 40):
        wt = '/tmp/wt/automut-%s-%d' % (prop, k)
        if cmd != 'show' and os.path.isdir(wt):
            sh('git -C /repo worktree remove --force %s' % wt)


if __name__ == '__main__':
    main()
